"""Seeded random generator of typed MiniAiken functions (see lang.py)."""
from __future__ import annotations

import random
from typing import Dict, List

from .lang import *  # noqa

PARAM_TYPES = [INT, INT, BOOL, BYTES, t_adt("Colour"), t_adt("Shape"), t_adt("Acc"), t_adt("Wrap"), t_opt(INT), t_opt(t_adt("Shape")),
               t_list(INT), t_list(INT), t_tuple(INT, BYTES), t_tuple(BOOL, INT, t_adt("Colour")), t_list(t_adt("Colour")), t_opt(t_tuple(INT, INT))]
RET_TYPES = [INT, INT, BOOL, BOOL, BYTES, t_adt("Colour"), t_adt("Shape"), t_opt(INT), t_list(INT), t_tuple(INT, BOOL), t_adt("Acc")]


def library(width: int) -> Dict[str, Fn]:
    xs = var("xs", t_list(INT))
    x, rest = var("x", INT), var("rest", t_list(INT))
    fns = {}

    def rec(name, ret, nil_e, cons_e):
        body = E("when", ret, (xs,), [(PList([], None), nil_e), (PList([PVar("x")], PVar("rest")), cons_e)])
        fns[name] = Fn(name, [("xs", t_list(INT))], ret, body, rec_depth=width + 2)
    rec("sum_ints", INT, lit_int(0), E("bin", INT, (x, E("call", INT, (rest,), "sum_ints")), "+"))
    rec("count", INT, lit_int(0), E("bin", INT, (lit_int(1), E("call", INT, (rest,), "count")), "+"))
    rec("inc_all", t_list(INT), E("list", t_list(INT), ()), E("cons", t_list(INT), (E("bin", INT, (x, lit_int(1)), "+"), E("call", t_list(INT), (rest,), "inc_all"))))
    rec("any_neg", BOOL, lit_bool(False), E("bin", BOOL, (E("bin", BOOL, (x, lit_int(0)), "<"), E("call", BOOL, (rest,), "any_neg")), "||"))
    rec("last_or", INT, lit_int(-1), E("when", INT, (rest,), [(PList([], None), x), (PDiscard(), E("call", INT, (rest,), "last_or"))]))
    # accumulator recursion: the accumulators change (and swap places) on every call
    acc, a_, b_ = var("acc", INT), var("a", INT), var("b", INT)
    fns["sum_acc"] = Fn("sum_acc", [("xs", t_list(INT)), ("acc", INT)], INT, E("when", INT, (xs,), [
        (PList([], None), acc), (PList([PVar("x")], PVar("rest")), E("call", INT, (rest, E("bin", INT, (acc, x), "+")), "sum_acc"))]), rec_depth=width + 2)
    fns["alt_acc"] = Fn("alt_acc", [("xs", t_list(INT)), ("a", INT), ("b", INT)], INT, E("when", INT, (xs,), [
        (PList([], None), E("bin", INT, (a_, E("bin", INT, (b_, lit_int(3)), "*")), "-")),
        (PList([PVar("x")], PVar("rest")), E("call", INT, (rest, b_, E("bin", INT, (a_, x), "+")), "alt_acc"))]), rec_depth=width + 2)
    return fns


def uses_var(e) -> bool:
    if e.op == "var":
        return True
    if e.op == "when":
        return uses_var(e.args[0]) or any(uses_var(b) for _, b in e.extra)
    return any(uses_var(a) for a in e.args)


class Gen:
    def __init__(self, seed: int, width: int):
        self.r = random.Random(seed)
        self.lib = library(width)
        self.n = 0

    def fresh(self, p="v"):
        self.n += 1
        return f"{p}{self.n}"

    # -------------------------------------------------------------------------------------------- expressions
    def vars_of(self, scope, ty):
        return [n for n, t in scope.items() if t == ty]

    def leaf(self, ty, scope):
        r = self.r
        vs = self.vars_of(scope, ty)
        if vs and r.random() < 0.85:
            return var(r.choice(vs), ty)
        k = ty[0]
        if k == "bool" and r.random() < 0.7:
            iv = self.vars_of(scope, INT)
            if iv:
                return E("bin", BOOL, (var(r.choice(iv), INT), lit_int(r.choice([0, 1, 3, -2]))), r.choice(["<", "<=", ">", "==", ">="]))
        if k == "int" and r.random() < 0.5:
            lv = self.vars_of(scope, t_list(INT))
            if lv:
                return E("call", INT, (var(r.choice(lv), t_list(INT)),), r.choice(["sum_ints", "count", "last_or"]))
        if k == "int":
            return lit_int(r.choice([0, 1, 2, 3, 7, 10, -1, -5, 255, 256]))
        if k == "bool":
            return lit_bool(r.random() < 0.5)
        if k == "bytes":
            return lit_bytes(r.choice([b"", b"\x00", b"ab", b"\xff\x01\x02"]))
        if k == "list":
            return E("list", ty, tuple(self.leaf(ty[1], scope) for _ in range(r.choice([0, 0, 1, 2]))))
        if k == "tuple":
            return E("tuple", ty, tuple(self.leaf(t, scope) for t in ty[1]))
        cs = ctors_of(ty)
        name, fts = r.choice(cs)
        return E("ctor", ty, tuple(self.leaf(t, scope) for t in fts), name)

    def expr(self, ty, scope, depth):
        r = self.r
        if depth <= 0:
            return self.leaf(ty, scope)
        k = ty[0]
        choices = ["leaf", "if", "when", "let"]
        if k == "int":
            choices += ["arith", "arith", "neg", "call", "field", "tupidx", "builtin", "expect_bool", "expect_pat", "divmod", "trace", "fail_branch"]
        elif k == "bool":
            choices += ["cmp", "cmp", "logic", "logic", "not", "eq", "call", "field", "traceif"]
        elif k == "bytes":
            choices += ["append", "field"]
        elif k == "list":
            choices += ["cons", "call", "listlit"]
        elif k in ("adt", "option", "tuple"):
            choices += ["ctor", "ctor"]
        c = r.choice(choices)
        d = depth - 1
        if c == "leaf":
            return self.leaf(ty, scope)
        if c == "if":
            if r.random() < 0.35:
                # else-if chain of 2-3 conditions
                tail = self.expr(ty, scope, d)
                for _ in range(r.choice([1, 2])):
                    tail = E("if", ty, (self.cond(scope, d), self.expr(ty, scope, max(d - 1, 0)), tail), "chain")
                return E("if", ty, (self.cond(scope, d), self.expr(ty, scope, d), tail))
            return E("if", ty, (self.cond(scope, d), self.expr(ty, scope, d), self.expr(ty, scope, d)))
        if c == "let":
            t2 = r.choice([INT, BOOL, t_adt("Shape"), t_opt(INT), t_list(INT)])
            n = self.fresh("l")
            s2 = dict(scope)
            s2[n] = t2
            return E("let", ty, (self.expr(t2, scope, d), self.expr(ty, s2, d)), n)
        if c == "when":
            return self.when(ty, scope, d)
        if c == "arith":
            return E("bin", INT, (self.expr(INT, scope, d), self.expr(INT, scope, d)), r.choice(["+", "-", "*", "+", "-"]))
        if c == "divmod":
            return E("bin", INT, (self.expr(INT, scope, d), self.expr(INT, scope, d)), r.choice(["/", "%"]))
        if c == "neg":
            return E("neg", INT, (self.expr(INT, scope, d),))
        if c == "cmp":
            return E("bin", BOOL, (self.expr(INT, scope, d), self.expr(INT, scope, d)), r.choice(["<", "<=", ">", ">=", "==", "!="]))
        if c == "logic":
            return E("bin", BOOL, (self.expr(BOOL, scope, d), self.expr(BOOL, scope, d)), r.choice(["&&", "||"]))
        if c == "not":
            return E("not", BOOL, (self.expr(BOOL, scope, d),))
        if c == "eq":
            t2 = r.choice([BYTES, t_adt("Colour"), t_adt("Shape"), t_opt(INT), t_list(INT), t_tuple(INT, BYTES)])
            return E("bin", BOOL, (self.expr(t2, scope, d), self.expr(t2, scope, d)), r.choice(["==", "!="]))
        if c == "append":
            return E("builtin", BYTES, (self.expr(BYTES, scope, d), self.expr(BYTES, scope, d)), "append_bytearray")
        if c == "builtin":
            if r.random() < 0.6:
                return E("builtin", INT, (self.expr(BYTES, scope, d),), "length_of_bytearray")
            return E("builtin", INT, (self.expr(BYTES, scope, d), self.expr(INT, scope, 0)), "index_bytearray")
        if c == "call":
            cands = [f for f in self.lib.values() if f.ret == ty]
            if not cands:
                return self.leaf(ty, scope)
            f = r.choice(cands)
            return E("call", ty, tuple(self.expr(pt, scope, d if i == 0 else max(d - 1, 0)) for i, (_, pt) in enumerate(f.params)), f.name)
        if c == "field":
            acc = self.vars_of(scope, t_adt("Acc"))
            want = {"int": "bal", "bool": "flag", "bytes": "owner"}[k]
            base = var(r.choice(acc), t_adt("Acc")) if acc else self.expr(t_adt("Acc"), scope, d)
            return E("field", ty, (base,), want)
        if c == "tupidx":
            tt = t_tuple(INT, BYTES) if r.random() < 0.5 else t_tuple(BOOL, INT, t_adt("Colour"))
            idx = 0 if tt[1][0] == INT else 1
            vs = self.vars_of(scope, tt)
            base = var(r.choice(vs), tt) if vs else self.expr(tt, scope, d)
            return E("tupidx", INT, (base,), idx)
        if c == "expect_bool":
            return E("expect_bool", ty, (self.cond(scope, d), self.expr(ty, scope, d)))
        if c == "expect_pat":
            # expect on a refutable pattern: Some(x) = opt / [a, b] = list / Circle(r) = shape
            which = r.choice(["some", "list2", "circle", "cons"])
            s2 = dict(scope)
            if which == "some":
                n = self.fresh("e")
                s2[n] = INT
                return E("expect_pat", ty, (self.expr(t_opt(INT), scope, d), self.expr(ty, s2, d)), PCtor("Some", [PVar(n)]))
            if which == "circle":
                n = self.fresh("e")
                s2[n] = INT
                return E("expect_pat", ty, (self.expr(t_adt("Shape"), scope, d), self.expr(ty, s2, d)), PCtor("Circle", [PVar(n)]))
            if which == "list2":
                a, b = self.fresh("e"), self.fresh("e")
                s2[a] = s2[b] = INT
                return E("expect_pat", ty, (self.expr(t_list(INT), scope, d), self.expr(ty, s2, d)), PList([PVar(a), PVar(b)], None))
            a, rs = self.fresh("e"), self.fresh("e")
            s2[a] = INT
            s2[rs] = t_list(INT)
            return E("expect_pat", ty, (self.expr(t_list(INT), scope, d), self.expr(ty, s2, d)), PList([PVar(a)], PVar(rs)))
        if c == "trace":
            return E("trace", ty, (self.expr(ty, scope, d),))
        if c == "traceif":
            return E("traceif", BOOL, (self.expr(BOOL, scope, d),))
        if c == "fail_branch":
            return E("if", ty, (self.cond(scope, d), self.expr(ty, scope, d), E(r.choice(["fail", "todo"]), ty)))
        if c == "cons":
            return E("cons", ty, (self.expr(ty[1], scope, d), self.expr(ty, scope, d)))
        if c == "listlit":
            return E("list", ty, tuple(self.expr(ty[1], scope, d) for _ in range(r.choice([0, 1, 2, 3]))))
        if c == "ctor":
            if k == "tuple":
                return E("tuple", ty, tuple(self.expr(t, scope, d) for t in ty[1]))
            name, fts = r.choice(ctors_of(ty))
            return E("ctor", ty, tuple(self.expr(t, scope, d) for t in fts), name)
        return self.leaf(ty, scope)

    def cond(self, scope, d):
        """a Bool expression that depends on some variable (no constant conditions)"""
        for _ in range(6):
            e = self.expr(BOOL, scope, d)
            if uses_var(e):
                return e
        return e

    # -------------------------------------------------------------------------------------------- when
    def subpattern(self, t, scope_add, depth):
        """a pattern matching EVERY value of t (var / discard / irrefutable tuple)"""
        r = self.r
        if t[0] == "tuple" and depth > 0 and r.random() < 0.5:
            return PTuple([self.subpattern(x, scope_add, depth - 1) for x in t[1]])
        if r.random() < 0.7:
            n = self.fresh("p")
            scope_add[n] = t
            return PVar(n)
        return PDiscard()

    def clauses_for(self, t, depth):
        """exhaustive, possibly overlapping clause list: [(pattern, bindings)]"""
        r = self.r
        k = t[0]
        out = []
        if k in ("adt", "option", "bool"):
            cs = ctors_of(t)
            order = list(range(len(cs)))
            r.shuffle(order)
            # optional specific clause in front (nested refinement) to exercise first-match
            if r.random() < 0.5:
                i = r.choice(order)
                name, fts = cs[i]
                if fts:
                    b = {}
                    args = []
                    for ft in fts:
                        if ft == INT and r.random() < 0.6:
                            args.append(PInt(r.choice([0, 1, 7])))
                        elif ft[0] in ("adt", "option") and r.random() < 0.6:
                            n2, f2 = r.choice(ctors_of(ft))
                            args.append(PCtor(n2, [self.subpattern(x, b, 0) for x in f2]))
                        else:
                            args.append(self.subpattern(ft, b, 1))
                    if any(isinstance(a, (PInt, PCtor)) for a in args):  # only a refutable refinement keeps the later clause useful
                        out.append((PCtor(name, args), b))
            cut = r.choice([len(order), len(order), max(1, len(order) - 1)])
            for i in order[:cut]:
                name, fts = cs[i]
                b = {}
                out.append((PCtor(name, [self.subpattern(ft, b, 1) for ft in fts]), b))
            if cut < len(order):
                b = {}
                out.append((self.subpattern(t, b, 0) if r.random() < 0.5 else PDiscard(), b))
            return out
        if k == "list":
            tpl = r.choice(["nil_cons", "nil_one_more", "two_or_less", "wild_last"])
            e = t[1]
            if tpl == "nil_cons":
                b = {}
                out.append((PList([], None), {}))
                out.append((PList([self.subpattern(e, b, 0)], self.tailp(t, b)), b))
            elif tpl == "nil_one_more":
                out.append((PList([], None), {}))
                b = {}
                out.append((PList([self.subpattern(e, b, 0)], None), b))
                b = {}
                out.append((PList([self.subpattern(e, b, 0), self.subpattern(e, b, 0)], self.tailp(t, b)), b))
            elif tpl == "two_or_less":
                b = {}
                out.append((PList([self.subpattern(e, b, 0), self.subpattern(e, b, 0)], self.tailp(t, b)), b))
                b = {}
                out.append((PList([self.subpattern(e, b, 0)], None), b))
                out.append((PList([], None), {}))
            else:
                b = {}
                first = PInt(r.choice([0, 1])) if e == INT and r.random() < 0.5 else self.subpattern(e, b, 0)
                out.append((PList([first], self.tailp(t, b)), b))
                b = {}
                out.append((self.subpattern(t, b, 0), b))
            return out
        if k == "tuple":
            b = {}
            pats = []
            refut = False
            for x in t[1]:
                if x == INT and r.random() < 0.3:
                    pats.append(PInt(r.choice([0, 1])))
                    refut = True
                elif x[0] in ("adt", "bool") and r.random() < 0.3:
                    n2, f2 = r.choice(ctors_of(x))
                    pats.append(PCtor(n2, [self.subpattern(y, b, 0) for y in f2]))
                    refut = True
                else:
                    pats.append(self.subpattern(x, b, 1))
            out.append((PTuple(pats), b))
            if refut:
                b = {}
                out.append((self.subpattern(t, b, 0), b))
            return out
        if k == "int":
            for n in r.sample([0, 1, 2, 7, -1], r.choice([1, 2])):
                out.append((PInt(n), {}))
            b = {}
            out.append((self.subpattern(t, b, 0), b))
            return out
        raise ValueError(t)

    def tailp(self, t, b):
        r = self.r
        x = r.random()
        if x < 0.5:
            n = self.fresh("p")
            b[n] = t
            return PVar(n)
        return PDiscard()

    def when(self, ty, scope, depth):
        r = self.r
        matchable = [(n, t) for n, t in scope.items() if t[0] in ("adt", "option", "list", "tuple", "bool", "int")]
        if matchable and r.random() < 0.8:
            n, st = r.choice(matchable)
            scrut = var(n, st)
        else:
            st = r.choice([t_adt("Shape"), t_adt("Colour"), t_opt(INT), t_list(INT), t_adt("Wrap"), t_tuple(BOOL, INT, t_adt("Colour"))])
            for _ in range(6):
                scrut = self.expr(st, scope, max(depth - 1, 0))
                if uses_var(scrut):
                    break
        clauses = []
        for p, binds in self.clauses_for(st, depth):
            s2 = dict(scope)
            s2.update(binds)
            clauses.append((p, self.expr(ty, s2, depth)))
        return E("when", ty, (scrut,), clauses)

    # -------------------------------------------------------------------------------------------- functions
    def function(self, name, depth):
        r = self.r
        nparams = r.choice([1, 2, 2, 3])
        params = [(f"a{i}", r.choice(PARAM_TYPES)) for i in range(nparams)]
        ret = r.choice(RET_TYPES)
        scope = {n: t for n, t in params}
        for _ in range(8):
            body = self.expr(ret, scope, depth)
            if uses_var(body) and body.op != "var":
                break
        return Fn(name, params, ret, body)


def make_module(seed: int, nfns: int, depth: int, width: int):
    g = Gen(seed, width)
    fns = [g.function(f"f{seed}_{i}", depth) for i in range(nfns)]
    allf = dict(g.lib)
    for f in fns:
        allf[f.name] = f
    return fns, allf, module_source(list(g.lib.values()) + fns)


def probe_functions(width: int):
    """deterministic suite: every construct of the fragment once, in isolation, on symbolic parameters"""
    a, b, c = var("a", INT), var("b", INT), var("c", INT)
    p, q = var("p", BOOL), var("q", BOOL)
    x, y = var("x", BYTES), var("y", BYTES)
    fns = []

    def fn(name, params, ret, body):
        fns.append(Fn("probe_" + name, params, ret, body))
    ib = [("a", INT), ("b", INT)]
    for op, nm in [("+", "add"), ("-", "sub"), ("*", "mul"), ("/", "div"), ("%", "mod")]:
        fn(nm, ib, INT, E("bin", INT, (a, b), op))
        fn(nm + "_k1", [("a", INT)], INT, E("bin", INT, (a, lit_int(7)), op))
        fn(nm + "_k2", [("a", INT)], INT, E("bin", INT, (lit_int(-7), a), op))
    for op, nm in [("==", "eq"), ("!=", "ne"), ("<", "lt"), ("<=", "le"), (">", "gt"), (">=", "ge")]:
        fn(nm, ib, BOOL, E("bin", BOOL, (a, b), op))
        fn(nm + "_k", [("a", INT)], BOOL, E("bin", BOOL, (lit_int(3), a), op))
    pq = [("p", BOOL), ("q", BOOL)]
    fn("and", pq, BOOL, E("bin", BOOL, (p, q), "&&"))
    fn("or", pq, BOOL, E("bin", BOOL, (p, q), "||"))
    fn("not", [("p", BOOL)], BOOL, E("not", BOOL, (p,)))
    fn("neg", [("a", INT)], INT, E("neg", INT, (a,)))
    # short circuit: the right operand aborts
    fn("and_sc", [("p", BOOL), ("a", INT)], BOOL, E("bin", BOOL, (p, E("bin", BOOL, (E("bin", INT, (lit_int(1), a), "/"), lit_int(0)), ">")), "&&"))
    fn("or_sc", [("p", BOOL), ("a", INT)], BOOL, E("bin", BOOL, (p, E("bin", BOOL, (E("bin", INT, (lit_int(1), a), "/"), lit_int(0)), ">")), "||"))
    fn("if", [("p", BOOL)] + ib, INT, E("if", INT, (p, a, b)))
    fn("if_fail", [("p", BOOL), ("a", INT)], INT, E("if", INT, (p, a, E("fail", INT))))
    fn("todo", [("p", BOOL), ("a", INT)], INT, E("if", INT, (p, E("todo", INT), a)))
    fn("let_order", ib, INT, E("let", INT, (E("bin", INT, (a, b), "/"), E("bin", INT, (var("t", INT), a), "-")), "t"))
    # strictness: a used let is evaluated where it stands, even if the use is in a branch not taken
    tv = var("t", INT)
    fn("let_strict_if", [("p", BOOL)] + ib, INT, E("let", INT, (E("bin", INT, (a, b), "/"), E("if", INT, (p, tv, lit_int(0)))), "t"))
    fn("let_strict_when", [("k", t_adt("Colour"))] + ib, INT, E("let", INT, (E("bin", INT, (a, b), "%"), E("when", INT, (var("k", t_adt("Colour")),), [
        (PCtor("Red", []), tv), (PDiscard(), lit_int(5))])), "t"))
    fn("let_strict_and", [("p", BOOL)] + ib, BOOL, E("let", BOOL, (E("bin", BOOL, (E("bin", INT, (a, b), "/"), lit_int(0)), ">"), E("bin", BOOL, (p, var("t", BOOL)), "&&")), "t"))
    fn("let_strict_fail", [("p", BOOL), ("a", INT)], INT, E("let", INT, (E("if", INT, (E("bin", BOOL, (a, lit_int(0)), ">"), a, E("fail", INT))), E("if", INT, (p, tv, lit_int(0)))), "t"))
    # an unused let is erased by the type checker and never evaluated; an unused expect is kept
    fn("let_unused", ib, INT, E("let", INT, (E("bin", INT, (a, b), "/"), a), "t"))
    fn("expect_unused", [("xs", t_list(INT)), ("a", INT)], INT, E("expect_pat", INT, (var("xs", t_list(INT)), a), PList([PVar("h0")], PDiscard())))
    # accumulator recursion and list spreads with constant parts
    fn("acc_sum", [("xs", t_list(INT)), ("a", INT)], INT, E("call", INT, (var("xs", t_list(INT)), a), "sum_acc"))
    fn("acc_alt", [("xs", t_list(INT)), ("a", INT), ("b", INT)], INT, E("call", INT, (var("xs", t_list(INT)), a, b), "alt_acc"))
    l34 = E("list", t_list(INT), (lit_int(3), lit_int(4)))
    fn("spread_const_all", [("a", INT)], INT, E("bin", INT, (a, E("call", INT, (E("cons", t_list(INT), (lit_int(1), E("cons", t_list(INT), (lit_int(2), l34)))),), "sum_ints")), "+"))
    fn("spread_const_count", [("a", INT)], INT, E("bin", INT, (a, E("call", INT, (E("cons", t_list(INT), (lit_int(1), l34)),), "count")), "*"))
    fn("spread_var_head", [("a", INT)], INT, E("call", INT, (E("cons", t_list(INT), (a, l34)),), "sum_ints"))
    fn("spread_eq", [("a", INT)], BOOL, E("bin", BOOL, (E("cons", t_list(INT), (lit_int(1), l34)), E("list", t_list(INT), (lit_int(1), lit_int(3), a))), "=="))
    # short circuit with a CONSTANT right operand: the left operand is still evaluated first (and may abort)
    thr = E("bin", BOOL, (E("bin", INT, (lit_int(1), a), "/"), lit_int(0)), ">")
    fn("and_const_false_right", [("a", INT)], BOOL, E("bin", BOOL, (thr, lit_bool(False)), "&&"))
    fn("and_const_true_right", [("a", INT)], BOOL, E("bin", BOOL, (thr, lit_bool(True)), "&&"))
    fn("or_const_true_right", [("a", INT)], BOOL, E("bin", BOOL, (thr, lit_bool(True)), "||"))
    fn("or_const_false_right", [("a", INT)], BOOL, E("bin", BOOL, (thr, lit_bool(False)), "||"))
    fn("and_const_left", [("a", INT)], BOOL, E("bin", BOOL, (lit_bool(False), thr), "&&"))
    fn("or_const_left", [("a", INT)], BOOL, E("bin", BOOL, (lit_bool(True), thr), "||"))
    fn("or_sc_div", ib, BOOL, E("bin", BOOL, (E("bin", BOOL, (b, lit_int(0)), "=="), E("bin", BOOL, (E("bin", INT, (a, b), "/"), lit_int(1)), ">=")), "||"))
    fn("ne_bool", pq, BOOL, E("bin", BOOL, (p, q), "!="))
    fn("eq_bool", pq, BOOL, E("bin", BOOL, (p, q), "=="))
    fn("ne_bool_const", [("p", BOOL)], BOOL, E("bin", BOOL, (p, lit_bool(True)), "!="))
    # if / else if chains: conditions are tested in source order
    def chain(*parts):
        *pairs, last = parts
        e = last
        for cnd, val in reversed([(pairs[i], pairs[i + 1]) for i in range(0, len(pairs), 2)]):
            e = E("if", INT, (cnd, val, e), "chain" if e is not last or False else None)
        return e

    def ifchain(conds_vals, last):
        e = last
        first = True
        for cnd, val in reversed(conds_vals):
            e = E("if", INT, (cnd, val, e), None)
        # mark every nested link (all but the outermost) as a chain link
        def mark(x, outer=True):
            if x.op == "if":
                c_, a_, b_ = x.args
                nb = mark(b_, False) if b_.op == "if" else b_
                return E("if", x.ty, (c_, a_, nb), None if outer else "chain")
            return x
        return mark(e)
    gt = lambda k: E("bin", BOOL, (a, lit_int(k)), ">")
    fn("if_chain_grades", [("a", INT)], INT, ifchain([(gt(90), lit_int(1)), (gt(80), lit_int(2)), (gt(70), lit_int(3))], lit_int(4)))
    fn("if_chain_guard", ib, INT, ifchain([(E("bin", BOOL, (b, lit_int(0)), "=="), lit_int(-1)), (E("bin", BOOL, (E("bin", INT, (a, b), "/"), lit_int(2)), ">"), lit_int(1))], lit_int(0)))
    fn("if_chain_bool", [("p", BOOL), ("q", BOOL), ("a", INT)], INT, ifchain([(p, a), (q, E("neg", INT, (a,))), (E("bin", BOOL, (a, lit_int(0)), "<"), lit_int(7))], lit_int(9)))
    # expect on list patterns: every position counts towards the required length, named or discarded
    xl = var("xs", t_list(INT))
    fn("expect_list_disc_tail", [("xs", t_list(INT))], INT, E("expect_pat", INT, (xl, var("h0", INT)), PList([PVar("h0"), PDiscard()], PDiscard())))
    fn("expect_list_3disc_tail", [("xs", t_list(INT)), ("a", INT)], INT, E("expect_pat", INT, (xl, a), PList([PDiscard(), PDiscard(), PDiscard()], PDiscard())))
    fn("expect_list_disc_exact", [("xs", t_list(INT))], INT, E("expect_pat", INT, (xl, var("h0", INT)), PList([PVar("h0"), PDiscard()], None)))
    fn("expect_list_mid_disc", [("xs", t_list(INT))], INT, E("expect_pat", INT, (xl, E("bin", INT, (var("h0", INT), var("h2", INT)), "-")), PList([PVar("h0"), PDiscard(), PVar("h2")], PDiscard())))
    fn("expect_list_tail_var", [("xs", t_list(INT))], INT, E("expect_pat", INT, (xl, E("call", INT, (var("rest", t_list(INT)),), "count")), PList([PDiscard(), PDiscard()], PVar("rest"))))
    fn("when_list_disc_tail", [("xs", t_list(INT))], INT, E("when", INT, (xl,), [
        (PList([PVar("h0"), PDiscard()], PDiscard()), var("h0", INT)), (PList([PDiscard()], None), lit_int(-1)), (PDiscard(), lit_int(-2))]))
    xs_ = var("xs", t_list(INT))
    fn("when_list_tails_desc", [("xs", t_list(INT))], INT, E("when", INT, (xs_,), [
        (PList([PDiscard(), PInt(0)], PDiscard()), lit_int(1)), (PList([PDiscard()], PDiscard()), lit_int(3)), (PDiscard(), lit_int(4))]))
    fn("when_list_tails_asc", [("xs", t_list(INT))], INT, E("when", INT, (xs_,), [
        (PList([PInt(1)], PDiscard()), lit_int(1)), (PList([PDiscard(), PInt(2)], PDiscard()), lit_int(2)),
        (PList([PDiscard(), PDiscard(), PInt(3)], PDiscard()), lit_int(3)), (PDiscard(), lit_int(4))]))
    fn("expect_bool", ib, INT, E("expect_bool", INT, (E("bin", BOOL, (a, b), "<"), E("bin", INT, (b, a), "-"))))
    # ADTs
    sh, co, ac, wr = var("s", t_adt("Shape")), var("k", t_adt("Colour")), var("r", t_adt("Acc")), var("w", t_adt("Wrap"))
    fn("when_shape", [("s", t_adt("Shape"))], INT, E("when", INT, (sh,), [
        (PCtor("Circle", [PVar("r1")]), E("bin", INT, (var("r1", INT), lit_int(1000)), "+")),
        (PCtor("Rect", [PVar("w1"), PVar("h1")]), E("bin", INT, (E("bin", INT, (var("w1", INT), lit_int(10)), "*"), var("h1", INT)), "-")),
        (PCtor("Tri", [PVar("t1"), PVar("t2"), PVar("t3")]), E("bin", INT, (E("bin", INT, (var("t1", INT), E("bin", INT, (var("t2", INT), lit_int(100)), "*")), "+"), E("bin", INT, (var("t3", INT), lit_int(10000)), "*")), "+"))]))
    fn("when_shape_wild", [("s", t_adt("Shape"))], INT, E("when", INT, (sh,), [
        (PCtor("Rect", [PInt(0), PVar("h1")]), var("h1", INT)), (PCtor("Rect", [PVar("w1"), PDiscard()]), E("neg", INT, (var("w1", INT),))), (PDiscard(), lit_int(42))]))
    fn("when_colour", [("k", t_adt("Colour"))], INT, E("when", INT, (co,), [(PCtor("Blue", []), lit_int(3)), (PCtor("Red", []), lit_int(1)), (PCtor("Green", []), lit_int(2))]))
    fn("when_wrap", [("w", t_adt("Wrap"))], INT, E("when", INT, (wr,), [
        (PCtor("W", [PCtor("Some", [PVar("n")])]), var("n", INT)), (PCtor("W", [PCtor("None", [])]), lit_int(-1)),
        (PCtor("V", [PCtor("Circle", [PVar("n")]), PCtor("Red", [])]), E("bin", INT, (var("n", INT), lit_int(2)), "*")),
        (PCtor("V", [PDiscard(), PVar("kk")]), E("if", INT, (E("bin", BOOL, (var("kk", t_adt("Colour")), E("ctor", t_adt("Colour"), (), "Green")), "=="), lit_int(5), lit_int(6)))),
        (PCtor("Z", []), lit_int(0))]))
    oi = var("o", t_opt(INT))
    fn("when_opt", [("o", t_opt(INT)), ("a", INT)], INT, E("when", INT, (oi,), [(PCtor("None", []), a), (PCtor("Some", [PVar("n")]), E("bin", INT, (var("n", INT), a), "-"))]))
    fn("when_bool", [("p", BOOL)] + ib, INT, E("when", INT, (p,), [(PCtor("True", []), a), (PCtor("False", []), b)]))
    fn("when_int", ib, INT, E("when", INT, (a,), [(PInt(0), b), (PInt(7), E("neg", INT, (b,))), (PVar("n"), E("bin", INT, (var("n", INT), b), "+"))]))
    li = var("xs", t_list(INT))
    LI = t_list(INT)
    fn("list_nil_cons", [("xs", LI)], INT, E("when", INT, (li,), [(PList([], None), lit_int(-1)), (PList([PVar("h")], PVar("t")), E("bin", INT, (var("h", INT), E("call", INT, (var("t", LI),), "count")), "+"))]))
    fn("list_three", [("xs", LI)], INT, E("when", INT, (li,), [
        (PList([], None), lit_int(0)), (PList([PVar("h")], None), var("h", INT)),
        (PList([PVar("h"), PVar("i")], PVar("t")), E("bin", INT, (E("bin", INT, (var("h", INT), lit_int(10)), "*"), E("bin", INT, (var("i", INT), E("call", INT, (var("t", LI),), "sum_ints")), "+")), "+"))]))
    fn("list_first_match", [("xs", LI)], INT, E("when", INT, (li,), [
        (PList([PInt(0)], PDiscard()), lit_int(100)), (PList([PDiscard(), PInt(1)], PDiscard()), lit_int(200)), (PList([PVar("h")], PDiscard()), var("h", INT)), (PList([], None), lit_int(300))]))
    tp = var("t", t_tuple(BOOL, INT, t_adt("Colour")))
    fn("when_tuple", [("t", t_tuple(BOOL, INT, t_adt("Colour")))], INT, E("when", INT, (tp,), [
        (PTuple([PCtor("True", []), PVar("n"), PCtor("Red", [])]), var("n", INT)), (PTuple([PDiscard(), PInt(0), PDiscard()]), lit_int(-1)),
        (PTuple([PVar("f"), PVar("n"), PVar("kk")]), E("if", INT, (var("f", BOOL), lit_int(1), E("bin", INT, (var("n", INT), lit_int(2)), "+"))))]))
    fn("tuple_idx", [("t", t_tuple(INT, BYTES))], INT, E("bin", INT, (E("tupidx", INT, (var("t", t_tuple(INT, BYTES)),), 0), E("builtin", INT, (E("tupidx", BYTES, (var("t", t_tuple(INT, BYTES)),), 1),), "length_of_bytearray")), "+"))
    fn("fields", [("r", t_adt("Acc"))], INT, E("if", INT, (E("field", BOOL, (ac,), "flag"), E("field", INT, (ac,), "bal"), E("builtin", INT, (E("field", BYTES, (ac,), "owner"),), "length_of_bytearray"))))
    fn("mk_acc", [("x", BYTES), ("a", INT), ("p", BOOL)], t_adt("Acc"), E("ctor", t_adt("Acc"), (x, a, p), "Acc"))
    fn("mk_shape", ib + [("c", INT)], t_adt("Shape"), E("if", t_adt("Shape"), (E("bin", BOOL, (a, lit_int(0)), "<"), E("ctor", t_adt("Shape"), (b,), "Circle"),
       E("if", t_adt("Shape"), (E("bin", BOOL, (a, lit_int(0)), "=="), E("ctor", t_adt("Shape"), (b, c), "Rect"), E("ctor", t_adt("Shape"), (a, b, c), "Tri"))))))
    fn("mk_wrap", [("o", t_opt(INT)), ("s", t_adt("Shape")), ("k", t_adt("Colour"))], t_adt("Wrap"), E("when", t_adt("Wrap"), (oi,), [
        (PCtor("Some", [PDiscard()]), E("ctor", t_adt("Wrap"), (oi,), "W")), (PCtor("None", []), E("ctor", t_adt("Wrap"), (sh, co), "V"))]))
    fn("mk_list", ib, LI, E("list", LI, (a, E("bin", INT, (a, b), "+"), b)))
    fn("mk_cons", [("a", INT), ("xs", LI)], LI, E("cons", LI, (a, E("call", LI, (li,), "inc_all"))))
    fn("mk_tuple", [("a", INT), ("p", BOOL)], t_tuple(INT, BOOL), E("tuple", t_tuple(INT, BOOL), (E("neg", INT, (a,)), E("not", BOOL, (p,)))))
    fn("mk_opt", ib, t_opt(INT), E("if", t_opt(INT), (E("bin", BOOL, (b, lit_int(0)), "=="), E("ctor", t_opt(INT), (), "None"), E("ctor", t_opt(INT), (E("bin", INT, (a, b), "/"),), "Some"))))
    for nm, t, v1, v2 in [("bytes", BYTES, x, y), ("colour", t_adt("Colour"), co, var("k2", t_adt("Colour"))), ("shape", t_adt("Shape"), sh, var("s2", t_adt("Shape"))),
                          ("opt", t_opt(INT), oi, var("o2", t_opt(INT))), ("list", LI, li, var("ys", LI)), ("tuple", t_tuple(INT, BYTES), var("t", t_tuple(INT, BYTES)), var("t2", t_tuple(INT, BYTES)))]:
        fn("eq_" + nm, [(v1.extra, t), (v2.extra, t)], BOOL, E("bin", BOOL, (v1, v2), "=="))
    fn("expect_some", [("o", t_opt(INT))], INT, E("expect_pat", INT, (oi, var("n", INT)), PCtor("Some", [PVar("n")])))
    fn("expect_rect", [("s", t_adt("Shape"))], INT, E("expect_pat", INT, (sh, E("bin", INT, (var("w1", INT), var("h1", INT)), "-")), PCtor("Rect", [PVar("w1"), PVar("h1")])))
    fn("expect_list2", [("xs", LI)], INT, E("expect_pat", INT, (li, E("bin", INT, (E("bin", INT, (var("e1", INT), lit_int(10)), "*"), var("e2", INT)), "+")), PList([PVar("e1"), PVar("e2")], None)))
    fn("expect_cons", [("xs", LI)], INT, E("expect_pat", INT, (li, E("bin", INT, (var("e1", INT), E("call", INT, (var("rs", LI),), "count")), "-")), PList([PVar("e1")], PVar("rs"))))
    for lf in ["sum_ints", "count", "any_neg", "last_or", "inc_all"]:
        f = library(width)[lf]
        fn("call_" + lf, [("xs", LI)], f.ret, E("call", f.ret, (li,), lf))
    fn("bytes_len", [("x", BYTES)], INT, E("builtin", INT, (x,), "length_of_bytearray"))
    fn("bytes_app", [("x", BYTES), ("y", BYTES)], BYTES, E("builtin", BYTES, (x, y), "append_bytearray"))
    fn("bytes_idx", [("x", BYTES), ("a", INT)], INT, E("builtin", INT, (x, a), "index_bytearray"))
    fn("trace", [("a", INT)], INT, E("trace", INT, (E("bin", INT, (a, lit_int(1)), "+"),)))
    fn("traceif", ib, BOOL, E("bin", BOOL, (E("traceif", BOOL, (E("bin", BOOL, (a, lit_int(3)), ">"),)), E("traceif", BOOL, (E("bin", BOOL, (b, lit_int(100)), "<"),))), "&&"))
    fn("downcast_shape", [("d", ("data",))], INT, E("when", INT, (E("downcast", t_adt("Shape"), (var("d", ("data",)),)),), [
        (PCtor("Circle", [PVar("n")]), var("n", INT)), (PDiscard(), lit_int(-1))]))
    fn("downcast_list", [("d", ("data",))], INT, E("call", INT, (E("downcast", LI, (var("d", ("data",)),)),), "sum_ints"))
    fn("downcast_opt", [("d", ("data",))], t_opt(INT), E("downcast", t_opt(INT), (var("d", ("data",)),)))
    fn("upcast_shape", [("s", t_adt("Shape"))], ("data",), E("updata", ("data",), (sh,)))
    fn("upcast_int", [("a", INT)], ("data",), E("updata", ("data",), (a,)))
    fn("upcast_bool", [("p", BOOL)], ("data",), E("updata", ("data",), (p,)))
    fn("upcast_list", [("xs", LI)], ("data",), E("updata", ("data",), (li,)))
    return fns


def probe_module(width: int):
    lib = library(width)
    fns = probe_functions(width)
    allf = dict(lib)
    for f in fns:
        allf[f.name] = f
    return fns, allf, module_source(list(lib.values()) + fns)
