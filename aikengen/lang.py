"""MiniAiken: a typed fragment of Aiken with (a) a printer to Aiken source text and (b) a denotational semantics in
z3, written from the Aiken language reference (strict evaluation, first-match `when`, floor `/` and `%`,
short-circuit `&&`/`||`, `expect`/`fail`/`todo` abort) and independent of the compiler's lowering.

Semantic values: Int -> z3 Int, Bool -> z3 Bool, ByteArray -> z3 Seq(BitVec 8); every structured value (user ADT,
Option, tuple, list) is the z3 `Data` term of its documented Data representation (constructor index = declaration
order, Bool = Constr 0/1 [], tuples and lists = List).  eval() returns (value, aborts: z3 Bool).
"""
from __future__ import annotations

from dataclasses import dataclass, field
from typing import Dict, List, Optional, Tuple

import z3

from uplcsym import values as V

Data, DataList = V.Data, V.DataList
ByteSeq = V.ByteSeq

# ------------------------------------------------------------------------------------------------ types
INT, BOOL, BYTES = ("int",), ("bool",), ("bytes",)


def t_list(t):
    return ("list", t)


def t_opt(t):
    return ("option", t)


def t_tuple(*ts):
    return ("tuple", tuple(ts))


def t_adt(name):
    return ("adt", name)


@dataclass
class Ctor:
    name: str
    fields: List[Tuple[Optional[str], tuple]]  # (label|None, type)


@dataclass
class AdtDecl:
    name: str
    ctors: List[Ctor]

    def show(self):
        out = [f"pub type {self.name} {{"]
        for c in self.ctors:
            if not c.fields:
                out.append(f"  {c.name}")
            elif all(l is None for l, _ in c.fields):
                out.append(f"  {c.name}(" + ", ".join(show_type(t) for _, t in c.fields) + ")")
            else:
                out.append(f"  {c.name} {{ " + ", ".join(f"{l}: {show_type(t)}" for l, t in c.fields) + " }")
        out.append("}")
        return "\n".join(out)


ADTS: Dict[str, AdtDecl] = {}


def declare(d: AdtDecl):
    ADTS[d.name] = d
    return d


declare(AdtDecl("Colour", [Ctor("Red", []), Ctor("Green", []), Ctor("Blue", [])]))
declare(AdtDecl("Shape", [Ctor("Circle", [(None, INT)]), Ctor("Rect", [("w", INT), ("h", INT)]), Ctor("Tri", [(None, INT), (None, INT), (None, INT)])]))
declare(AdtDecl("Acc", [Ctor("Acc", [("owner", BYTES), ("bal", INT), ("flag", BOOL)])]))
declare(AdtDecl("Wrap", [Ctor("W", [(None, t_opt(INT))]), Ctor("V", [(None, t_adt("Shape")), (None, t_adt("Colour"))]), Ctor("Z", [])]))


def show_type(t):
    k = t[0]
    if k == "int":
        return "Int"
    if k == "bool":
        return "Bool"
    if k == "bytes":
        return "ByteArray"
    if k == "list":
        return f"List<{show_type(t[1])}>"
    if k == "option":
        return f"Option<{show_type(t[1])}>"
    if k == "tuple":
        return "(" + ", ".join(show_type(x) for x in t[1]) + ")"
    if k == "adt":
        return t[1]
    if k == "data":
        return "Data"
    raise ValueError(t)


def ctors_of(t):
    """[(name, [field types])] of a constructor type"""
    if t[0] == "adt":
        return [(c.name, [ft for _, ft in c.fields]) for c in ADTS[t[1]].ctors]
    if t[0] == "option":
        return [("Some", [t[1]]), ("None", [])]
    if t[0] == "bool":
        return [("False", []), ("True", [])]
    raise ValueError(t)


# ------------------------------------------------------------------------------------------------ value <-> Data


def to_data(t, v):
    k = t[0]
    if k == "int":
        return Data.I(v)
    if k == "bytes":
        return Data.B(v)
    if k == "bool":
        return Data.Constr(z3.If(v, z3.IntVal(1), z3.IntVal(0)), DataList.dnil)
    return v  # structured values are Data terms already


def from_data(t, d):
    k = t[0]
    if k == "int":
        return Data.ival(d)
    if k == "bytes":
        return Data.bval(d)
    if k == "bool":
        return Data.ctag(d) == 1
    return d


def mk_dl(items):
    l = DataList.dnil
    for x in reversed(items):
        l = DataList.dcons(x, l)
    return l


def dl_nth(l, i):
    for _ in range(i):
        l = DataList.dtail(l)
    return DataList.dhead(l)


def dl_drop(l, i):
    for _ in range(i):
        l = DataList.dtail(l)
    return l


# ------------------------------------------------------------------------------------------------ patterns


@dataclass
class PVar:
    name: str

    def show(self):
        return self.name


@dataclass
class PDiscard:
    def show(self):
        return "_"


@dataclass
class PInt:
    n: int

    def show(self):
        return str(self.n)


@dataclass
class PCtor:
    name: str
    args: list  # sub-patterns (positional)

    def show(self):
        if self.name in ("True", "False") or not self.args:
            return self.name
        return f"{self.name}(" + ", ".join(a.show() for a in self.args) + ")"


@dataclass
class PTuple:
    args: list

    def show(self):
        return "(" + ", ".join(a.show() for a in self.args) + ")"


@dataclass
class PList:
    elems: list
    tail: object = None  # None (exact) | PVar | PDiscard

    def show(self):
        parts = [e.show() for e in self.elems]
        if self.tail is not None:
            parts.append(".." + (self.tail.name if isinstance(self.tail, PVar) else ""))
        return "[" + ", ".join(parts) + "]"


@dataclass
class PAs:
    pat: object
    name: str

    def show(self):
        return f"{self.pat.show()} as {self.name}"


@dataclass
class PBytes:
    bs: bytes

    def show(self):
        return '#"' + self.bs.hex() + '"'


@dataclass
class PRec:
    """record pattern `Ctor { label: pat, label, .. }`; fields: [(label, pattern | None)] (None: punned variable)"""
    name: str
    fields: list
    spread: bool = False

    def show(self):
        parts = [l if sp is None else f"{l}: {sp.show()}" for l, sp in self.fields]
        if self.spread:
            parts.append("..")
        return f"{self.name} {{ " + ", ".join(parts) + " }"


def match(p, t, v, binds: dict):
    """z3 Bool: value v of type t matches pattern p; fills binds name -> (type, value)"""
    if isinstance(p, PDiscard):
        return z3.BoolVal(True)
    if isinstance(p, PAs):
        binds[p.name] = (t, v)
        return match(p.pat, t, v, binds)
    if isinstance(p, PBytes):
        return v == V.bytes_z(p.bs)
    if isinstance(p, PRec):
        decl = ADTS[t[1]]
        idx = [c.name for c in decl.ctors].index(p.name)
        labels = [l for l, _ in decl.ctors[idx].fields]
        fts = [ft for _, ft in decl.ctors[idx].fields]
        fields = Data.cfields(v)
        conds = [Data.ctag(v) == idx]
        for l, sp in p.fields:
            i = labels.index(l)
            conds.append(match(sp if sp is not None else PVar(l), fts[i], from_data(fts[i], dl_nth(fields, i)), binds))
        return z3.And(conds)
    if isinstance(p, PVar):
        binds[p.name] = (t, v)
        return z3.BoolVal(True)
    if isinstance(p, PInt):
        return v == p.n
    if isinstance(p, PTuple):
        items = Data.litems(v)
        return z3.And([match(sp, st, from_data(st, dl_nth(items, i)), binds) for i, (sp, st) in enumerate(zip(p.args, t[1]))] + [z3.BoolVal(True)])
    if isinstance(p, PCtor):
        if t[0] == "bool":
            return v if p.name == "True" else z3.Not(v)
        cs = ctors_of(t)
        idx = [n for n, _ in cs].index(p.name)
        fts = cs[idx][1]
        fields = Data.cfields(v)
        conds = [Data.ctag(v) == idx]
        for i, (sp, ft) in enumerate(zip(p.args, fts)):
            conds.append(match(sp, ft, from_data(ft, dl_nth(fields, i)), binds))
        return z3.And(conds)
    if isinstance(p, PList):
        l = Data.litems(v)
        conds = []
        cur = l
        for sp in p.elems:
            conds.append(DataList.is_dcons(cur))
            conds.append(match(sp, t[1], from_data(t[1], DataList.dhead(cur)), binds))
            cur = DataList.dtail(cur)
        if p.tail is None:
            conds.append(DataList.is_dnil(cur))
        elif isinstance(p.tail, PVar):
            binds[p.tail.name] = (t, Data.List(cur))
        return z3.And(conds + [z3.BoolVal(True)])
    raise ValueError(p)


# ------------------------------------------------------------------------------------------------ expressions


@dataclass
class E:
    """expression node: op + children; ty is the static type"""
    op: str
    ty: tuple
    args: tuple = ()
    extra: object = None


def lit_int(n):
    return E("int", INT, (), n)


def lit_bool(b):
    return E("bool", BOOL, (), b)


def lit_bytes(bs: bytes):
    return E("bytes", BYTES, (), bs)


def var(name, ty):
    return E("var", ty, (), name)


PREC = {"||": 1, "&&": 2, "==": 3, "!=": 3, "<": 4, "<=": 4, ">": 4, ">=": 4, "+": 5, "-": 5, "*": 6, "/": 6, "%": 6}


def show(e: E, ind=1) -> str:
    sp = "  " * ind
    o = e.op
    if o == "int":
        return str(e.extra) if e.extra >= 0 else f"-{-e.extra}"
    if o == "bool":
        return "True" if e.extra else "False"
    if o == "bytes":
        return '#"' + e.extra.hex() + '"'
    if o == "var":
        return e.extra
    if o == "bin":
        a, b = e.args
        return f"( {show(a, ind)} {e.extra} {show(b, ind)} )".replace("( ", "(").replace(" )", ")")
    if o == "not":
        return f"!({show(e.args[0], ind)})"
    if o == "neg":
        return f"-({show(e.args[0], ind)})"
    if o == "if":
        c, a, b = e.args
        if b.op == "if" and getattr(b, "extra", None) == "chain":
            # an `if` directly in the else position marked as a chain link is written `else if` (same meaning)
            return f"if {show(c, ind)} {{\n{sp}  {show(a, ind + 1)}\n{sp}}} else {show(b, ind)}"
        return f"if {show(c, ind)} {{\n{sp}  {show(a, ind + 1)}\n{sp}}} else {{\n{sp}  {show(b, ind + 1)}\n{sp}}}"
    if o == "when":
        scrut = e.args[0]
        lines = [f"when {show(scrut, ind)} is {{"]
        for p, body in e.extra:
            lines.append(f"{sp}  {p.show()} -> {{\n{sp}    {show(body, ind + 2)}\n{sp}  }}")
        lines.append(f"{sp}}}")
        return "\n".join(lines)
    if o == "let":
        name = e.extra
        return f"{{\n{sp}  let {name} = {show(e.args[0], ind + 1)}\n{sp}  {show(e.args[1], ind + 1)}\n{sp}}}"
    if o == "expect_pat":
        p = e.extra
        return f"{{\n{sp}  expect {p.show()} = {show(e.args[0], ind + 1)}\n{sp}  {show(e.args[1], ind + 1)}\n{sp}}}"
    if o == "expect_bool":
        return f"{{\n{sp}  expect {show(e.args[0], ind + 1)}\n{sp}  {show(e.args[1], ind + 1)}\n{sp}}}"
    if o == "fail":
        return "fail"
    if o == "todo":
        return "todo"
    if o == "ctor":
        name = e.extra
        if not e.args:
            return name
        return f"{name}(" + ", ".join(show(a, ind) for a in e.args) + ")"
    if o == "tuple":
        return "(" + ", ".join(show(a, ind) for a in e.args) + ")"
    if o == "list":
        return "[" + ", ".join(show(a, ind) for a in e.args) + "]"
    if o == "cons":
        return f"[{show(e.args[0], ind)}, ..{show(e.args[1], ind)}]"
    if o == "field":
        return f"{show(e.args[0], ind)}.{e.extra}"
    if o == "tupidx":
        return f"{show(e.args[0], ind)}.{['1st', '2nd', '3rd', '4th'][e.extra]}"
    if o == "call":
        return f"{e.extra}(" + ", ".join(show(a, ind) for a in e.args) + ")"
    if o == "builtin":
        return f"builtin.{e.extra}(" + ", ".join(show(a, ind) for a in e.args) + ")"
    if o == "trace":
        return f"{{\n{sp}  trace @\"t\"\n{sp}  {show(e.args[0], ind + 1)}\n{sp}}}"
    if o == "traceif":
        return f"({show(e.args[0], ind)})?"
    if o == "updata":
        return f"{{\n{sp}  let upcast_: Data = {show(e.args[0], ind + 1)}\n{sp}  upcast_\n{sp}}}"
    if o == "downcast":
        return f"{{\n{sp}  expect downcast_: {show_type(e.ty)} = {show(e.args[0], ind + 1)}\n{sp}  downcast_\n{sp}}}"
    raise ValueError(o)


def pat_binders(p) -> set:
    if isinstance(p, PVar):
        return {p.name}
    if isinstance(p, PAs):
        return {p.name} | pat_binders(p.pat)
    if isinstance(p, PRec):
        out = set()
        for l, sp in p.fields:
            out |= {l} if sp is None else pat_binders(sp)
        return out
    if isinstance(p, (PCtor, PTuple)):
        return set().union(*[pat_binders(a) for a in p.args]) if p.args else set()
    if isinstance(p, PList):
        out = set().union(*[pat_binders(a) for a in p.elems]) if p.elems else set()
        if isinstance(p.tail, PVar):
            out.add(p.tail.name)
        return out
    return set()


def free_vars(e: "E") -> set:
    """names referenced by e that e does not bind itself (references inside a binding that is itself unused still count:
    the type checker counts usages before it erases anything)"""
    o = e.op
    if o == "var":
        return {e.extra}
    if o == "when":
        out = free_vars(e.args[0])
        for p, body in e.extra:
            out |= free_vars(body) - pat_binders(p)
        return out
    if o == "let":
        return free_vars(e.args[0]) | (free_vars(e.args[1]) - {e.extra})
    if o == "expect_pat":
        return free_vars(e.args[0]) | (free_vars(e.args[1]) - pat_binders(e.extra))
    out = set()
    for a in e.args:
        out |= free_vars(a)
    return out


@dataclass
class Fn:
    name: str
    params: List[Tuple[str, tuple]]
    ret: tuple
    body: E
    rec_depth: int = 0  # > 0: recursive function, unrolled this many times by the semantics

    def show(self):
        ps = ", ".join(f"{n}: {show_type(t)}" for n, t in self.params)
        return f"pub fn {self.name}({ps}) -> {show_type(self.ret)} {{\n  {show(self.body, 1)}\n}}"


def fdiv(a, b):
    q, r = a / b, a % b
    return z3.If(b > 0, q, z3.If(r == 0, q, q - 1))


def fmod(a, b):
    return a - b * fdiv(a, b)


class Sem:
    """denotational semantics; fns: name -> Fn (user functions, possibly recursive)"""

    def __init__(self, fns: Dict[str, Fn], width: int, unroll_extra: int = 6):
        self.fns = fns
        self.width = width
        self.unroll: Dict[str, int] = {}
        self.unroll_extra = unroll_extra  # lists built by the program itself can be longer than any input list
        self.hit_bound = False

    def eval(self, e: E, env: dict):
        """-> (value, abort)  with env: name -> value"""
        F, T = z3.BoolVal(False), z3.BoolVal(True)
        o = e.op
        if o == "int":
            return z3.IntVal(e.extra), F
        if o == "bool":
            return z3.BoolVal(e.extra), F
        if o == "bytes":
            return V.bytes_z(e.extra), F
        if o == "var":
            return env[e.extra], F
        if o == "bin":
            op = e.extra
            a, aa = self.eval(e.args[0], env)
            if op == "&&":
                b, ab = self.eval(e.args[1], env)
                return z3.And(a, b), z3.Or(aa, z3.And(a, ab))
            if op == "||":
                b, ab = self.eval(e.args[1], env)
                return z3.Or(a, b), z3.Or(aa, z3.And(z3.Not(a), ab))
            b, ab = self.eval(e.args[1], env)
            ab_ = z3.Or(aa, ab)
            if op == "+":
                return a + b, ab_
            if op == "-":
                return a - b, ab_
            if op == "*":
                return a * b, ab_
            if op == "/":
                return fdiv(a, b), z3.Or(ab_, b == 0)
            if op == "%":
                return fmod(a, b), z3.Or(ab_, b == 0)
            if op == "==":
                return a == b, ab_
            if op == "!=":
                return a != b, ab_
            if op == "<":
                return a < b, ab_
            if op == "<=":
                return a <= b, ab_
            if op == ">":
                return a > b, ab_
            if op == ">=":
                return a >= b, ab_
            raise ValueError(op)
        if o == "not":
            a, aa = self.eval(e.args[0], env)
            return z3.Not(a), aa
        if o == "neg":
            a, aa = self.eval(e.args[0], env)
            return -a, aa
        if o == "if":
            c, ac = self.eval(e.args[0], env)
            a, aa = self.eval(e.args[1], env)
            b, ab = self.eval(e.args[2], env)
            return z3.If(c, a, b), z3.Or(ac, z3.If(c, aa, ab))
        if o == "when":
            s, as_ = self.eval(e.args[0], env)
            st = e.args[0].ty
            res, abort = None, T  # no clause matches: cannot happen for an exhaustive when (abort = True is never selected)
            for p, body in reversed(e.extra):
                binds = {}
                c = match(p, st, s, binds)
                env2 = dict(env)
                for n, (bt, bv) in binds.items():
                    env2[n] = bv
                v, av = self.eval(body, env2)
                res = v if res is None else z3.If(c, v, res)
                abort = z3.If(c, av, abort)
            return res, z3.Or(as_, abort)
        if o == "let":
            if e.extra not in free_vars(e.args[1]):
                # Aiken erases a `let` whose variable is never used (tipo/expr.rs infer_seq drops assignments flagged
                # UnusedVariable; pinned by tests/check.rs discarded_let_bindings): its right-hand side is not evaluated.
                # An unused `expect` is kept (unused_expect_bindings_are_not_erased).
                return self.eval(e.args[1], env)
            a, aa = self.eval(e.args[0], env)
            env2 = dict(env)
            env2[e.extra] = a
            b, ab = self.eval(e.args[1], env2)
            return b, z3.Or(aa, ab)
        if o == "expect_pat":
            a, aa = self.eval(e.args[0], env)
            binds = {}
            c = match(e.extra, e.args[0].ty, a, binds)
            env2 = dict(env)
            for n, (bt, bv) in binds.items():
                env2[n] = bv
            b, ab = self.eval(e.args[1], env2)
            return b, z3.Or(aa, z3.Not(c), ab)
        if o == "expect_bool":
            a, aa = self.eval(e.args[0], env)
            b, ab = self.eval(e.args[1], env)
            return b, z3.Or(aa, z3.Not(a), ab)
        if o in ("fail", "todo"):
            return default_value(e.ty), T
        if o == "ctor":
            cs = ctors_of(e.ty)
            idx = [n for n, _ in cs].index(e.extra)
            if e.ty[0] == "bool":
                return z3.BoolVal(e.extra == "True"), F
            vals, ab = [], F
            for a, ft in zip(e.args, cs[idx][1]):
                v, av = self.eval(a, env)
                vals.append(to_data(ft, v))
                ab = z3.Or(ab, av)
            return Data.Constr(z3.IntVal(idx), mk_dl(vals)), ab
        if o in ("tuple", "list"):
            vals, ab = [], F
            for a in e.args:
                v, av = self.eval(a, env)
                vals.append(to_data(a.ty, v))
                ab = z3.Or(ab, av)
            return Data.List(mk_dl(vals)), ab
        if o == "cons":
            h, ah = self.eval(e.args[0], env)
            t, at = self.eval(e.args[1], env)
            return Data.List(DataList.dcons(to_data(e.args[0].ty, h), Data.litems(t))), z3.Or(ah, at)
        if o == "field":
            a, aa = self.eval(e.args[0], env)
            decl = ADTS[e.args[0].ty[1]]
            c = decl.ctors[0]
            i = [l for l, _ in c.fields].index(e.extra)
            return from_data(c.fields[i][1], dl_nth(Data.cfields(a), i)), aa
        if o == "tupidx":
            a, aa = self.eval(e.args[0], env)
            return from_data(e.args[0].ty[1][e.extra], dl_nth(Data.litems(a), e.extra)), aa
        if o == "call":
            fn = self.fns[e.extra]
            vals, ab = [], F
            for a in e.args:
                v, av = self.eval(a, env)
                vals.append(v)
                ab = z3.Or(ab, av)
            depth = self.unroll.get(fn.name, 0)
            if fn.rec_depth and depth >= fn.rec_depth + self.unroll_extra:
                # beyond the unrolling bound: recorded; a disagreement found with this flag set is re-evaluated concretely
                # with a much deeper unrolling before it counts (props/c01.py)
                self.hit_bound = True
                return default_value(fn.ret), T
            self.unroll[fn.name] = depth + 1
            try:
                r, ar = self.eval(fn.body, {n: v for (n, _), v in zip(fn.params, vals)})
            finally:
                self.unroll[fn.name] = depth
            return r, z3.Or(ab, ar)
        if o == "builtin":
            vals, ab = [], F
            for a in e.args:
                v, av = self.eval(a, env)
                vals.append(v)
                ab = z3.Or(ab, av)
            b = e.extra
            if b == "length_of_bytearray":
                return z3.Length(vals[0]), ab
            if b == "append_bytearray":
                return z3.Concat(vals[0], vals[1]), ab
            if b == "index_bytearray":
                ok = z3.And(vals[1] >= 0, vals[1] < z3.Length(vals[0]))
                return z3.BV2Int(vals[0][vals[1]], False), z3.Or(ab, z3.Not(ok))
            raise ValueError(b)
        if o == "trace":
            return self.eval(e.args[0], env)
        if o == "traceif":
            return self.eval(e.args[0], env)
        if o == "updata":
            a, aa = self.eval(e.args[0], env)
            return to_data(e.args[0].ty, a), aa
        if o == "downcast":
            d, ad = self.eval(e.args[0], env)
            ok = conforms_ty(e.ty, d, 6)
            return from_data(e.ty, d), z3.Or(ad, z3.Not(ok))
        raise ValueError(o)


def default_value(t):
    k = t[0]
    if k == "int":
        return z3.IntVal(0)
    if k == "bool":
        return z3.BoolVal(False)
    if k == "bytes":
        return z3.Empty(ByteSeq)
    return Data.I(z3.IntVal(0))


def conforms_ty(t, d, depth, width=4):
    """d is the Data representation of a value of type t (lists up to `width`; deeper/longer: False)"""
    k = t[0]
    if k == "int":
        return Data.is_I(d)
    if k == "bytes":
        return Data.is_B(d)
    if k == "bool":
        return z3.And(Data.is_Constr(d), z3.Or(Data.ctag(d) == 0, Data.ctag(d) == 1), DataList.is_dnil(Data.cfields(d)))
    if k == "data":
        return z3.BoolVal(True)
    if depth <= 0:
        return z3.BoolVal(False)
    if k == "list":
        def each(l, n):
            if n == 0:
                return DataList.is_dnil(l)
            return z3.Or(DataList.is_dnil(l), z3.And(DataList.is_dcons(l), conforms_ty(t[1], DataList.dhead(l), depth - 1, width), each(DataList.dtail(l), n - 1)))
        return z3.And(Data.is_List(d), each(Data.litems(d), width))
    if k == "tuple":
        cs, cur = [Data.is_List(d)], Data.litems(d)
        for st in t[1]:
            cs += [DataList.is_dcons(cur), conforms_ty(st, DataList.dhead(cur), depth - 1, width)]
            cur = DataList.dtail(cur)
        cs.append(DataList.is_dnil(cur))
        return z3.And(cs)
    alts = []
    for i, (_, fts) in enumerate(ctors_of(t)):
        cs, cur = [Data.ctag(d) == i], Data.cfields(d)
        for ft in fts:
            cs += [DataList.is_dcons(cur), conforms_ty(ft, DataList.dhead(cur), depth - 1, width)]
            cur = DataList.dtail(cur)
        cs.append(DataList.is_dnil(cur))
        alts.append(z3.And(cs))
    return z3.And(Data.is_Constr(d), z3.Or(alts))


def module_source(fns: List[Fn], extra_types=()) -> str:
    out = ["use aiken/builtin", ""]
    for d in list(ADTS.values()) + list(extra_types):
        out.append(d.show())
        out.append("")
    for f in fns:
        out.append(f.show())
        out.append("")
    return "\n".join(out)
