"""Symbolic CEK evaluator for Untyped Plutus Core (see README.md): machine.Machine / parse_term, values.*, compare.equivalent."""
