"""Symbolic CEK evaluator for Untyped Plutus Core (see README.md)."""
