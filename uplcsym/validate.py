"""Validation of uplcsym against the native evaluator (JSON-lines driver):  python3-vt -m uplcsym.validate [--limit N] [--seed S]

1. conformance: every *.uplc of /repo/crates/uplc/test_data/conformance in concrete mode,
2. random closed terms (differential),
3. symbolic programs: every path's condition is solved, the model replayed natively, outcomes compared.
"""
from __future__ import annotations

import argparse
import glob
import json
import os
import random
import sys
import time

import z3

sys.path.insert(0, os.path.dirname(os.path.dirname(os.path.abspath(__file__))))
from vlib import driver as D  # noqa: E402

from . import values as V  # noqa: E402
from .builtins import UNINTERPRETED_ALWAYS  # noqa: E402
from .compare import equivalent  # noqa: E402
from .machine import Machine, parse_term  # noqa: E402

CONF = "/repo/crates/uplc/test_data/conformance"
STRUCTURAL = {"OpenTermEvaluated", "NonPolymorphicInstantiation", "NonFunctionalApplication", "NonConstrScrutinized", "MissingCaseBranch",
              "TypeMismatch", "ListTypeMismatch", "PairTypeMismatch", "UnexpectedBuiltinTermArgument", "BuiltinTermArgumentExpected",
              "NotAConstant"}


def native_class(variant):
    return "user" if variant == "EvaluationFailure" else "structural" if variant in STRUCTURAL else "builtin"


def class_agrees(mine, variant):
    """native DeserialisationError is raised both for a wrong Data constructor and for a non-data constant"""
    return native_class(variant) == mine or (variant == "DeserialisationError" and mine == "structural")


DEVIATIONS = []  # native results that contradict the specification (reported, not counted as failures of this evaluator)


def native_deviation(res, o, lang):
    if "Err" in res and res["Err"]["variant"] == "OutsideNaturalBounds" and o[-1] != "expModInteger":
        return "constrData with a tag outside 0..2^64-1 fails natively (specification: any integer)"
    if lang == "v2" and "Ok" in res and o[0] == "error" and o[2] in ("shiftByteString", "rotateByteString"):
        return "shift/rotateByteString by an amount outside Int64 succeeds natively under v1/v2 semantics (fails under v3)"
    return None


def norm(j):
    """ints -> decimal strings (bools untouched), so that both sides' JSON can be compared with =="""
    if isinstance(j, bool) or j is None or isinstance(j, str):
        return j
    if isinstance(j, int):
        return str(j)
    if isinstance(j, list):
        return [norm(x) for x in j]
    return {k: norm(v) for k, v in j.items()}


def native_eval(term, lang="v3"):
    return D.get("drv-uplc").call("eval", term=term, lang=lang, protocol=None)


def compare_outcome(resp, path, model=None, lang="v3"):
    """-> ('ok'|'bad'|'skip', message, class_note)"""
    if "result" not in resp:
        return "skip", f"native gave no result: {str(resp)[:120]}", None
    o = path.outcome
    if "Err" in resp["result"] and resp["result"]["Err"]["variant"] == "OutOfExError":
        return "skip", "native ran out of budget (budget is not modelled)", None
    if o[0] == "undecided" or path.uninterp:
        return "skip", f"undecided/uninterpreted: {o[1:] if o[0] == 'undecided' else path.uninterp}", None
    res = resp["result"]
    dev = native_deviation(res, o, lang)
    if dev:
        DEVIATIONS.append(dev)
        return "skip", "NATIVE DEVIATION: " + dev, None
    if o[0] == "error":
        if "Err" not in res:
            return "bad", f"mine {o} native Ok {str(res['Ok'])[:150]}", None
        return "ok", "", None if class_agrees(o[1], res["Err"]["variant"]) else f"class mine={o[1]}/{o[2]} native={res['Err']['variant']}"
    if "Err" in res:
        return "bad", f"mine value native Err {res['Err']['variant']}: {res['Err']['text'][:100]}", None
    try:
        mine = norm(V.value_to_json(model, o[1]))
    except V.NotConcrete as ex:
        return "bad", f"value not concrete: {ex}", None
    nat = norm(res["Ok"])
    return ("ok", "", None) if mine == nat else ("bad", f"mine {str(mine)[:200]} native {str(nat)[:200]}", None)


class Tally:
    def __init__(self, name):
        self.name, self.ok, self.bad, self.skipped, self.notes, self.class_notes = name, 0, 0, 0, [], []

    def add(self, status, label, msg, cnote=None):
        if status == "ok":
            self.ok += 1
        elif status == "bad":
            self.bad += 1
            self.notes.append(f"BAD {self.name} {label}: {msg}")
        else:
            self.skipped += 1
            self.notes.append(f"skip {self.name} {label}: {msg}")
        if cnote:
            self.class_notes.append(f"{label}: {cnote}")


# ------------------------------------------------------------------------------------------------ 1. conformance
def run_conformance(limit=None):
    t = Tally("conformance")
    d = D.get("drv-uplc")
    files = sorted(glob.glob(CONF + "/**/*.uplc", recursive=True))
    for f in files[:limit]:
        label = f[len(CONF) + 1:]
        lang = "v2" if label.startswith("v2/") else "v3"
        p = d.call("parse", text=open(f).read())
        if "Ok" not in p:
            exp = f.replace(".uplc", ".uplc.expected")
            want = os.path.exists(exp) and "parse error" in open(exp).read()
            t.add("skip", label, "native parser rejects the file" + (" (as expected)" if want else " (UNEXPECTEDLY)"))
            continue
        text = json.dumps(p["Ok"]).replace('"verifySignature"', '"verifyEd25519Signature"')  # driver: Display name is not accepted back
        c = d.call("convert", program=json.loads(text))
        if "Ok" not in c:
            t.add("skip", label, f"not convertible to de Bruijn: {str(c)[:80]}")
            continue
        term = json.loads(json.dumps(c["Ok"]["term"]).replace('"verifySignature"', '"verifyEd25519Signature"'))
        resp = native_eval(term, lang)
        try:
            paths = Machine(semantics="D" if lang == "v2" else "E", max_steps=2_000_000).run(parse_term(term))
        except Exception as ex:  # noqa: BLE001
            t.add("bad", label, f"exception {type(ex).__name__}: {ex}")
            continue
        if len(paths) != 1:
            un = sorted({u for p in paths for u in p.uninterp})
            t.add("skip" if un else "bad", label, f"undecided/uninterpreted: {un}" if un else f"{len(paths)} paths for a closed constant program")
            continue
        st, msg, cn = compare_outcome(resp, paths[0], lang=lang)
        if st == "bad":
            exp = f.replace(".uplc", ".uplc.expected")
            msg += " | expected: " + (open(exp).read().strip()[:150] if os.path.exists(exp) else "?")
        t.add(st, label, msg, cn)
    return t


# ---------------------------------------------------------------------------------------------- 2. random terms
T_ANY = ["int", "bytes", "bool", "unit", "data", "ldata", "lint", "pair", "string"]
SIGS = {  # name: (forces, argument types, result type); 'T' = any one type
    "addInteger": (0, ["int", "int"], "int"), "subtractInteger": (0, ["int", "int"], "int"), "multiplyInteger": (0, ["int", "int"], "int"),
    "divideInteger": (0, ["int", "int"], "int"), "quotientInteger": (0, ["int", "int"], "int"), "remainderInteger": (0, ["int", "int"], "int"),
    "modInteger": (0, ["int", "int"], "int"), "equalsInteger": (0, ["int", "int"], "bool"), "lessThanInteger": (0, ["int", "int"], "bool"),
    "lessThanEqualsInteger": (0, ["int", "int"], "bool"), "appendByteString": (0, ["bytes", "bytes"], "bytes"),
    "consByteString": (0, ["int", "bytes"], "bytes"), "sliceByteString": (0, ["int", "int", "bytes"], "bytes"),
    "lengthOfByteString": (0, ["bytes"], "int"), "indexByteString": (0, ["bytes", "int"], "int"), "equalsByteString": (0, ["bytes", "bytes"], "bool"),
    "lessThanByteString": (0, ["bytes", "bytes"], "bool"), "lessThanEqualsByteString": (0, ["bytes", "bytes"], "bool"),
    "sha2_256": (0, ["bytes"], "bytes"), "blake2b_224": (0, ["bytes"], "bytes"), "appendString": (0, ["string", "string"], "string"),
    "equalsString": (0, ["string", "string"], "bool"), "encodeUtf8": (0, ["string"], "bytes"), "decodeUtf8": (0, ["bytes"], "string"),
    "ifThenElse": (1, ["bool", "T", "T"], "T"), "chooseUnit": (1, ["unit", "T"], "T"), "trace": (1, ["string", "T"], "T"),
    "fstPair": (2, ["pair"], "int"), "sndPair": (2, ["pair"], "ldata"), "chooseList": (2, ["ldata", "T", "T"], "T"),
    "mkCons": (1, ["data", "ldata"], "ldata"), "headList": (1, ["ldata"], "data"), "tailList": (1, ["ldata"], "ldata"),
    "nullList": (1, ["lint"], "bool"), "chooseData": (1, ["data", "T", "T", "T", "T", "T"], "T"), "constrData": (0, ["int", "ldata"], "data"),
    "listData": (0, ["ldata"], "data"), "iData": (0, ["int"], "data"), "bData": (0, ["bytes"], "data"), "unConstrData": (0, ["data"], "pair"),
    "unListData": (0, ["data"], "ldata"), "unIData": (0, ["data"], "int"), "unBData": (0, ["data"], "bytes"), "equalsData": (0, ["data", "data"], "bool"),
    "mkNilData": (0, ["unit"], "ldata"), "dropList": (1, ["int", "ldata"], "ldata"), "integerToByteString": (0, ["bool", "int", "int"], "bytes"),
    "byteStringToInteger": (0, ["bool", "bytes"], "int"), "andByteString": (0, ["bool", "bytes", "bytes"], "bytes"),
    "xorByteString": (0, ["bool", "bytes", "bytes"], "bytes"), "shiftByteString": (0, ["bytes", "int"], "bytes"),
    "rotateByteString": (0, ["bytes", "int"], "bytes"), "countSetBits": (0, ["bytes"], "int"), "findFirstSetBit": (0, ["bytes"], "int"),
    "replicateByte": (0, ["int", "int"], "bytes"), "readBit": (0, ["bytes", "int"], "bool"), "complementByteString": (0, ["bytes"], "bytes"),
    "expModInteger": (0, ["int", "int", "int"], "int"),
}
SIGS["headList#i"] = (1, ["lint"], "int")
SIGS["tailList#i"] = (1, ["lint"], "lint")
SIGS["mkCons#i"] = (1, ["int", "lint"], "lint")
SIGS["dropList#i"] = (1, ["int", "lint"], "lint")
SIGS["writeBits"] = (0, ["bytes", "lint", "bool"], "bytes")
BY_RET = {}
for _n, (_f, _a, _r) in SIGS.items():
    BY_RET.setdefault(_r, []).append(_n)


class Gen:
    def __init__(self, rng):
        self.r = rng

    def int_(self):
        r = self.r
        return r.choice([0, 1, 2, 3, -1, -7, 5, 8, 255, 256, r.randint(-20, 20), r.randint(-2**70, 2**70)])

    def data(self, d=2):
        r = self.r
        k = r.randrange(5 if d > 0 else 2)
        if k == 0:
            return {"i": str(self.int_())}
        if k == 1:
            return {"b": r.randbytes(r.randrange(3)).hex()}
        if k == 2:
            return {"list": [self.data(d - 1) for _ in range(r.randrange(3))]}
        if k == 3:
            return {"constr": [r.randrange(4), [self.data(d - 1) for _ in range(r.randrange(3))]]}
        return {"map": [[self.data(d - 1), self.data(d - 1)] for _ in range(r.randrange(3))]}

    def const(self, ty):
        r = self.r
        if ty == "int":
            return {"int": str(self.int_())}
        if ty == "bytes":
            return {"bytes": r.randbytes(r.randrange(4)).hex()}
        if ty == "string":
            return {"string": r.choice(["", "a", "hé", "xyz"])}
        if ty == "bool":
            return {"bool": r.random() < 0.5}
        if ty == "unit":
            return {"unit": None}
        if ty == "data":
            return {"data": self.data()}
        if ty == "ldata":
            return {"list": ["data", [{"data": self.data(1)} for _ in range(r.randrange(3))]]}
        if ty == "lint":
            return {"list": ["integer", [{"int": str(r.randrange(12))} for _ in range(r.randrange(3))]]}
        return {"pair": ["integer", {"list": "data"}, {"int": str(r.randrange(3))}, self.const("ldata")]}

    def term(self, ty, depth, env):
        r = self.r
        if r.random() < 0.04:
            ty = r.choice(T_ANY)  # deliberately ill-typed now and then
        vars_ = [i + 1 for i, t in enumerate(env) if t == ty]
        if vars_ and r.random() < 0.3:
            return {"var": r.choice(vars_)}
        if depth <= 0 or r.random() < 0.15:
            return {"var": r.choice(vars_)} if vars_ and r.random() < 0.6 else {"con": self.const(ty)}
        k = r.random()
        if k < 0.5 and ty in BY_RET or ty == "T":
            name = r.choice(BY_RET[ty] + BY_RET["T"]) if ty != "T" else r.choice(list(SIGS))
            forces, args, ret = SIGS[name]
            tv = ty if ret == "T" else r.choice(T_ANY)
            if r.random() < 0.03:
                forces += r.choice([-1, 1])
            t = {"builtin": name.split("#")[0]}
            for _ in range(max(forces, 0)):
                t = {"force": t}
            if r.random() < 0.03:
                args = args[:-1]
            for a in args:
                t = {"app": [t, self.term(tv if a == "T" else a, depth - 1, env)]}
            return t
        if k < 0.6:
            aty = r.choice(T_ANY)
            return {"app": [{"lam": self.term(ty, depth - 1, [aty] + env)}, self.term(aty, depth - 1, env)]}
        if k < 0.68:
            return {"force": {"delay": self.term(ty, depth - 1, env)}}
        if k < 0.8:  # case (constr i fields) branches
            nb = r.randrange(1, 4)
            i = r.randrange(nb + (r.random() < 0.1))
            ftys = [r.choice(T_ANY) for _ in range(r.randrange(3))]
            branches = []
            for _ in range(nb):
                b = self.term(ty, depth - 1, ftys[::-1] + env)
                for _ in ftys:
                    b = {"lam": b}
                branches.append(b)
            return {"case": [{"constr": [i, [self.term(f, depth - 1, env) for f in ftys]]}, branches]}
        if k < 0.86:  # case on a constant
            sty = r.choice(["bool", "int", "unit", "ldata", "lint", "pair"])
            nargs = {"ldata": 2, "lint": 2, "pair": 2}.get(sty, 0)
            branches = []
            for bi_ in range(r.randrange(1, 4)):
                n = nargs if bi_ == 0 else 0
                b = self.term(ty, depth - 1, ["data"] * n + env)
                for _ in range(n):
                    b = {"lam": b}
                branches.append(b)
            return {"case": [self.term(sty, depth - 1, env), branches]}
        if k < 0.9:
            return {"constr": [r.randrange(3), [self.term(r.choice(T_ANY), depth - 1, env) for _ in range(r.randrange(3))]]}
        if k < 0.93:
            return {"lam": self.term(ty, depth - 1, [r.choice(T_ANY)] + env)}
        if k < 0.95:
            return {"delay": self.term(ty, depth - 1, env)}
        if k < 0.97:
            return {"error": None}
        return {"con": self.const(ty)}


def run_random(n, seed):
    t = Tally("random")
    g = Gen(random.Random(seed))
    for i in range(n):
        term = g.term(g.r.choice(T_ANY), g.r.randrange(2, 6), [])
        lang = "v3" if i % 4 else "v2"
        resp = native_eval(term, lang)
        try:
            paths = Machine(semantics="E" if lang == "v3" else "D").run(parse_term(term))
        except Exception as ex:  # noqa: BLE001
            t.add("bad", f"#{i}", f"exception {type(ex).__name__}: {ex} on {term}")
            continue
        if len(paths) != 1:
            un = sorted({u for p in paths for u in p.uninterp})
            t.add("skip" if un else "bad", f"#{i}", f"undecided/uninterpreted: {un}" if un else f"{len(paths)} paths for a closed term {term}")
            continue
        st, msg, cn = compare_outcome(resp, paths[0], lang=lang)
        t.add(st, f"#{i} ({lang})", msg + (f" TERM {term}" if st == "bad" else ""), cn)
    return t


# ------------------------------------------------------------------------------------------ 3. symbolic programs
def db(t, env=()):
    """named mini-syntax -> TERM JSON (de Bruijn).  ('lam', x, body) ('var', x) ('app', f, a..) ('force', t) ('delay', t)
    ('b', name) = builtin with its forces, ('i', n) ('bs', bytes) ('con', CONST) ('constr', tag, [..]) ('case', t, [..]) ('error',)"""
    from specs.cek import BUILTINS
    k = t[0]
    if k == "lam":
        return {"lam": db(t[2], (t[1],) + env)}
    if k == "var":
        return {"var": env.index(t[1]) + 1}
    if k == "app":
        f = db(t[1], env)
        for a in t[2:]:
            f = {"app": [f, db(a, env)]}
        return f
    if k in ("force", "delay"):
        return {k: db(t[1], env)}
    if k == "b":
        r = {"builtin": t[1]}
        for _ in range(BUILTINS[t[1]][2]):
            r = {"force": r}
        return r
    if k == "i":
        return {"con": {"int": str(t[1])}}
    if k == "bs":
        return {"con": {"bytes": t[1].hex()}}
    if k == "con":
        return {"con": t[1]}
    if k == "constr":
        return {"constr": [t[1], [db(x, env) for x in t[2]]]}
    if k == "case":
        return {"case": [db(t[1], env), [db(x, env) for x in t[2]]]}
    return {"error": None}


def _another_model(conjuncts, sym_args, prev):
    """a model of the conjuncts, preferably far from the previous one (integers of the other sign, longer byte strings)"""
    wish = []
    for a in sym_args:
        if prev is not None and a.ty == "integer" and not isinstance(a.v, int):
            wish.append(a.v < 0 if prev.eval(a.v, model_completion=True).as_long() >= 0 else a.v > 0)
        elif prev is not None and a.ty == "bytestring" and not isinstance(a.v, bytes):
            wish.append(z3.Length(a.v) >= 2)
    for extra in ([wish, []] if wish else [[]]):
        s = z3.SimpleSolver()
        s.set("timeout", 20000)
        s.add(*conjuncts)
        s.add(*extra)
        if s.check() == z3.sat:
            return s.model()
    return None


def check_paths_against_native(term_json, sym_args, paths, lang="v3", models_per_path=2, tally=None, label="", strict_class=True):
    """For every path: solve its condition, concretise the symbolic arguments under the model, run `term args` natively and
    compare with the path's outcome under that model.  Returns a Tally (ok/bad/skipped + notes)."""
    t = tally or Tally("symbolic")
    for pi, p in enumerate(paths):
        blocks, prev = [], None
        for mi in range(models_per_path):
            lab = f"{label} path {pi} model {mi}"
            m = p.model if mi == 0 else None
            if m is None:
                m = _another_model(p.pc + blocks, sym_args, prev)
                if m is None:
                    if mi == 0:
                        t.add("bad" if not (p.approx or p.uninterp) else "skip", lab, "path condition has no model")
                    break
            prev = m
            try:
                args = [V.value_to_json(m, a) for a in sym_args]
            except V.NotConcrete as ex:
                t.add("skip", lab, f"argument not concretisable: {ex}")
                break
            full = term_json
            for a in args:
                full = {"app": [full, a]}
            st, msg, cn = compare_outcome(native_eval(full, lang), p, m, lang)
            if st == "ok" and cn and strict_class:  # hand-written programs: the error class must agree as well
                st, msg = "bad", cn
            t.add(st, lab, msg + (f" ARGS {args} TERM {term_json}" if st == "bad" else ""))
            block = [V.values_equal(a, parse_term(j)[1]) for a, j in zip(sym_args, args)]
            blocks.append(z3.Not(z3.And(*block)) if block else z3.BoolVal(False))
    return t


def symbolic_programs():
    L, A, B, Vr, I_ = (lambda x, b: ("lam", x, b)), (lambda *a: ("app",) + a), (lambda n: ("b", n)), (lambda x: ("var", x)), (lambda n: ("i", n))
    ite = lambda c, a, b: ("force", A(B("ifThenElse"), c, ("delay", a), ("delay", b)))  # noqa: E731
    zcomb = L("f", A(L("x", A(Vr("f"), L("v", A(Vr("x"), Vr("x"), Vr("v"))))), L("x", A(Vr("f"), L("v", A(Vr("x"), Vr("x"), Vr("v")))))))
    length = A(zcomb, L("self", L("l", ("force", A(B("chooseList"), Vr("l"), ("delay", I_(0)),
                                                  ("delay", A(B("addInteger"), I_(1), A(Vr("self"), A(B("tailList"), Vr("l"))))))))))
    sumlist = A(zcomb, L("self", L("l", ("case", Vr("l"), [L("h", L("t", A(B("addInteger"), A(B("unIData"), Vr("h")), A(Vr("self"), Vr("t"))))), I_(0)]))))
    d, e, n, k, b, c, l, pl, b2 = (V.sym_data("d"), V.sym_data("e"), V.sym_int("n"), V.sym_int("k"), V.sym_bytes("b"), V.sym_bool("c"),
                                   V.sym_datalist("l"), V.sym_pairlist("pl"), V.sym_bytes("b2"))
    small = [n.v >= -6, n.v <= 6, k.v >= -3, k.v <= 3]
    progs = [
        ("ite-unIData", L("d", A(B("ifThenElse"), A(B("equalsInteger"), A(B("unIData"), Vr("d")), I_(1)), I_(10), I_(20))), [d], [V.bounded_data(d.v, 2, 2)]),
        ("z-length", length, [l], [V.bounded_datalist(l.v, 1, 3)]),
        ("case-sum", sumlist, [l], [V.bounded_datalist(l.v, 1, 3)]),
        ("divmod-mix", L("a", L("b", A(B("addInteger"), A(B("multiplyInteger"), A(B("quotientInteger"), Vr("a"), Vr("b")), Vr("b")),
                                      A(B("modInteger"), Vr("a"), Vr("b"))))), [n, k], small + [n.v < 0, k.v < 0]),
        ("constr-fields", L("d", A(B("headList"), A(B("tailList"), A(B("sndPair"), A(B("unConstrData"), Vr("d")))))), [d], [V.bounded_data(d.v, 2, 3)]),
        ("constr-tag", L("d", ite(A(B("equalsInteger"), A(B("fstPair"), A(B("unConstrData"), Vr("d"))), I_(1)),
                                 A(B("unBData"), A(B("headList"), A(B("sndPair"), A(B("unConstrData"), Vr("d"))))), ("error",))), [d], [V.bounded_data(d.v, 2, 2)]),
        ("chooseData", L("d", A(B("chooseData"), Vr("d"), I_(0), I_(1), I_(2), I_(3), I_(4))), [d], [V.bounded_data(d.v, 1, 1)]),
        ("map-head", L("d", A(B("sndPair"), A(B("headList"), A(B("unMapData"), Vr("d"))))), [d], [V.bounded_data(d.v, 2, 2)]),
        ("pairlist", L("p", A(B("mapData"), A(B("mkCons"), A(B("mkPairData"), A(B("iData"), I_(1)), A(B("fstPair"), A(B("headList"), Vr("p")))), A(B("tailList"), Vr("p"))))),
         [pl], [V.bounded_pairlist(pl.v, 1, 2)]),
        ("equalsData", L("d", L("e", ite(A(B("equalsData"), Vr("d"), Vr("e")), Vr("d"), A(B("listData"), A(B("mkCons"), Vr("e"), A(B("mkNilData"), ("con", {"unit": None}))))))),
         [d, e], [V.bounded_data(d.v, 1, 1), V.bounded_data(e.v, 1, 1)]),
        ("bytes-index", L("b", L("i", A(B("indexByteString"), Vr("b"), Vr("i")))), [b, n], [z3.Length(b.v) <= 3] + small),
        ("bytes-slice", L("b", L("i", L("j", A(B("appendByteString"), A(B("sliceByteString"), Vr("i"), Vr("j"), Vr("b")), ("bs", b"\x01"))))), [b, n, k],
         [z3.Length(b.v) <= 4] + small),
        ("bytes-slice-neg", L("b", L("i", L("j", A(B("sliceByteString"), Vr("i"), Vr("j"), Vr("b"))))), [b, n, k], [z3.Length(b.v) >= 2, z3.Length(b.v) <= 4, n.v < 0, n.v > -4, k.v > 0, k.v < 4]),
        ("nullList", L("l", ite(A(B("nullList"), Vr("l")), I_(1), A(B("unIData"), A(B("headList"), Vr("l"))))), [l], [V.bounded_datalist(l.v, 0, 2)]),
        ("chooseList", L("l", A(B("chooseList"), Vr("l"), I_(1), I_(2))), [l], [V.bounded_datalist(l.v, 0, 2)]),
        ("bytes-append", L("b", L("c", A(B("appendByteString"), Vr("b"), Vr("c")))), [b, b2], [z3.Length(b.v) == 2, z3.Length(b2.v) == 1, b.v[0] != b2.v[0]]),
        ("int-order", L("a", L("b", ite(A(B("lessThanInteger"), Vr("a"), Vr("b")), A(B("subtractInteger"), Vr("a"), Vr("b")),
                                       ite(A(B("lessThanEqualsInteger"), Vr("a"), Vr("b")), I_(0), A(B("multiplyInteger"), Vr("a"), A(B("addInteger"), Vr("b"), I_(1))))))), [n, k], small),
        ("bytes-cons", L("b", L("i", ite(A(B("lessThanInteger"), A(B("lengthOfByteString"), Vr("b")), I_(2)), A(B("consByteString"), Vr("i"), Vr("b")), Vr("b")))), [b, n],
         [z3.Length(b.v) <= 3, n.v >= -2, n.v <= 300]),
        ("bytes-eq", L("b", ite(A(B("equalsByteString"), Vr("b"), ("bs", b"ab")), A(B("bData"), Vr("b")), A(B("iData"), A(B("lengthOfByteString"), Vr("b"))))), [b],
         [z3.Length(b.v) <= 3]),
        ("case-bool", L("c", L("i", ("case", Vr("c"), [I_(7), ("case", Vr("i"), [I_(0), I_(1), ("error",)])]))), [c, n], small),
        ("case-constr", L("d", ("case", ("constr", 1, [A(B("unIData"), Vr("d")), Vr("d")]), [("error",), L("x", L("y", A(B("mkPairData"), Vr("y"), A(B("iData"), A(B("addInteger"), Vr("x"), I_(1))))))])),
         [d], [V.bounded_data(d.v, 1, 1)]),
        ("structural", L("d", L("c", ite(Vr("c"), A(B("addInteger"), Vr("d"), I_(1)), A(Vr("d"), I_(1))))), [d, c], [V.bounded_data(d.v, 0, 0)]),
        ("droplist", L("l", A(B("headList"), A(B("dropList"), I_(2), Vr("l")))), [l], [V.bounded_datalist(l.v, 0, 3)]),
        ("closure-result", L("d", L("c", ite(Vr("c"), L("z", A(B("addInteger"), Vr("z"), A(B("unIData"), Vr("d")))), ("delay", Vr("d"))))), [d, c], [V.bounded_data(d.v, 0, 0)]),
    ]
    for op in ("divideInteger", "modInteger", "quotientInteger", "remainderInteger"):  # every sign combination, inexact division
        for sa, sb in ((1, 1), (1, -1), (-1, 1), (-1, -1)):
            progs.append((f"{op}{sa:+d}{sb:+d}", L("a", L("b", A(B(op), Vr("a"), Vr("b")))), [n, k],
                          [n.v * sa > 0, n.v * sa < 20, k.v * sb >= 0, k.v * sb < 6, z3.Or(k.v == 0, n.v % k.v != 0)]))
    return [(name, db(t), args, assume) for name, t, args, assume in progs]


def run_symbolic():
    t = Tally("symbolic")
    info = []
    for name, tj, args, assume in symbolic_programs():
        m = Machine(max_paths=200)
        t0 = time.time()
        paths = m.run(parse_term(tj), args, assume)
        info.append(f"{name}: {len(paths)} paths, {m.stats['queries']} queries, {time.time() - t0:.2f}s")
        if not paths:
            t.add("bad", name, "no path")
        check_paths_against_native(tj, args, paths, tally=t, label=name)
        # a program must be equivalent to itself, and path conditions must cover the assumptions
        rep = equivalent(paths, paths, args=args)
        if len(rep) or rep.undecided and not any(p.uninterp for p in paths):
            t.add("bad", name, f"self-equivalence: {list(rep)[:2]} undecided {rep.undecided[:2]}")
        s = z3.SimpleSolver()
        s.add(*assume)
        s.add(z3.Not(z3.Or(*[z3.And(*p.pc) if p.pc else z3.BoolVal(True) for p in paths])))
        if s.check() != z3.unsat:
            t.add("bad", name, "path conditions do not cover the assumptions")
    return t, info


def run_symbolic_random(n, seed, t):
    """random programs over lambda-bound *symbolic* arguments; every path is replayed natively under a model"""
    g = Gen(random.Random(seed + 1000))
    mk = {"int": V.sym_int, "bytes": V.sym_bytes, "bool": V.sym_bool, "data": V.sym_data, "ldata": V.sym_datalist}
    npaths = 0
    for i in range(n):
        tys = [g.r.choice(list(mk)) for _ in range(g.r.randrange(1, 4))]
        args = [mk[ty](f"x{k}") for k, ty in enumerate(tys)]
        assume = []
        for a in args:
            assume += {"integer": lambda v: [v >= -300, v <= 300], "bytestring": lambda v: [z3.Length(v) <= 3], "bool": lambda v: [],
                       "data": lambda v: [V.bounded_data(v, 2, 2)]}.get(a.ty, lambda v: [V.bounded_datalist(v, 1, 2)])(a.v)
        body = g.term(g.r.choice(T_ANY), g.r.randrange(2, 5), tys[::-1])
        tj = body
        for _ in tys:
            tj = {"lam": tj}
        try:
            paths = Machine(max_paths=40, max_steps=5000).run(parse_term(tj), args, assume)
        except Exception as ex:  # noqa: BLE001
            t.add("bad", f"symrandom #{i}", f"exception {type(ex).__name__}: {ex} on {tj}")
            continue
        npaths += len(paths)
        check_paths_against_native(tj, args, paths, models_per_path=2, tally=t, label=f"symrandom #{i}", strict_class=False)
    return npaths


AIKEN_SRC = """
pub type Shape { Circle(Int) Rect { w: Int, h: Int } }
pub fn area(s: Shape) -> Int { when s is { Circle(r) -> 3 * r * r  Rect { w, h } -> w * h } }
pub fn sum(xs: List<Int>) -> Int { when xs is { [] -> 0  [x, ..rest] -> x + sum(rest) } }
pub fn clamp(x: Int, lo: Int, hi: Int) -> Int { if x < lo { lo } else if x > hi { hi } else { x } }
pub fn lookup(xs: Pairs<ByteArray, Int>, k: ByteArray) -> Option<Int> {
  when xs is { [] -> None  [Pair(a, b), ..rest] -> if a == k { Some(b) } else { lookup(rest, k) } } }
"""


def run_aiken(t):
    """end-to-end use: compile with the real compiler (drv-lang), run the pre- and post-optimisation programs on symbolic
    Data arguments, replay every path natively, and compare pre with post (differences are printed, not counted)."""
    r = D.get("drv-lang").call("compile", src=AIKEN_SRC, tracing="silent")
    for f in r["Ok"]["functions"]:
        args = [V.sym_data(f"a{i}") for i in range(len(f["params"]))]
        assume = [V.bounded_data(a.v, 2, 3) for a in args]
        paths = {}
        for which in ("pre", "post"):
            tj = f[which]["term"]
            paths[which] = Machine().run(parse_term(tj), args, assume)
            check_paths_against_native(tj, args, paths[which], models_per_path=1, tally=t, label=f"aiken {f['name']} {which}")
        rep = equivalent(paths["pre"], paths["post"], args=args)
        print(f"aiken {f['name']}: paths pre={len(paths['pre'])} post={len(paths['post'])} pairs={rep.pairs} agreed={rep.agreed} "
              f"disagreements={len(rep)} undecided={len(rep.undecided)}" + (f"  e.g. {rep[0]['outcomes']} on {rep[0]['args']}" if rep else ""))


def main():
    ap = argparse.ArgumentParser()
    ap.add_argument("--limit", type=int, default=None, help="only the first N conformance files")
    ap.add_argument("--seed", type=int, default=1)
    ap.add_argument("--random", type=int, default=200)
    ap.add_argument("--symrandom", type=int, default=60, help="number of random programs over symbolic arguments")
    ap.add_argument("--aiken", action="store_true", help="also compile a small Aiken module (drv-lang) and validate its programs")
    ap.add_argument("-v", "--verbose", action="store_true")
    a = ap.parse_args()
    t0 = time.time()
    c = run_conformance(a.limit)
    r = run_random(a.random, a.seed)
    s, info = run_symbolic()
    info.append(f"symbolic random programs: {run_symbolic_random(a.symrandom, a.seed, s)} paths")
    if a.aiken:
        run_aiken(s)
    for t in (c, r, s):
        for n in t.notes:
            if a.verbose or n.startswith("BAD"):
                print(n)
        for n in t.class_notes:
            print(f"note {t.name} error class differs: {n}")
    if a.verbose:
        print("\n".join(info))
    skipped_why = {}
    for n in c.notes:
        if n.startswith("skip"):
            k = n.split(": ", 1)[1][:60]
            skipped_why[k] = skipped_why.get(k, 0) + 1
    print("conformance skip reasons:", dict(sorted(skipped_why.items(), key=lambda kv: -kv[1])[:12]))
    for dv in sorted(set(DEVIATIONS)):
        print(f"native deviation from the specification ({DEVIATIONS.count(dv)}x): {dv}")
    print(f"always-uninterpreted builtins: {sorted(UNINTERPRETED_ALWAYS)}")
    print(f"VALIDATE conformance ok={c.ok} bad={c.bad} skipped={c.skipped} ; random ok={r.ok} bad={r.bad} skipped={r.skipped} ; "
          f"symbolic ok={s.ok} bad={s.bad} skipped={s.skipped}   ({time.time() - t0:.0f}s)")
    sys.exit(1 if c.bad or r.bad or s.bad else 0)


if __name__ == "__main__":
    main()
