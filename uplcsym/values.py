"""Values of the symbolic CEK machine, the z3 encoding of constants, and JSON conversion.

Constant `Con(ty, v)`: ty is 'integer'|'bytestring'|'string'|'unit'|'bool'|'data'|'g1'|'g2'|'ml'|('list',T)|('pair',A,B);
the payload v depends on ty:
  integer: python int | z3 Int          bytestring: python bytes | z3 Seq(BitVec 8)
  string : UTF-8 bytes, python bytes | z3 Seq(BitVec 8)           bool: python bool | z3 Bool      unit: None
  data: z3 Data     ('list','data'): z3 DataList     ('list',('pair','data','data')): z3 PairList
  other lists: python tuple of payloads      pair: python 2-tuple of payloads      g1/g2/ml: z3 const of an opaque sort
"""
from __future__ import annotations

import sys

import z3

from .term import APP, BUILTIN, CASE, CON, CONSTR, DELAY, ERROR, FORCE, LAM, VAR

if hasattr(sys, "set_int_max_str_digits"):
    sys.set_int_max_str_digits(0)  # integer constants may have thousands of digits
BV8 = z3.BitVecSort(8)
ByteSeq = z3.SeqSort(BV8)


def _mk_datatypes():
    D, L, P = z3.Datatype("Data"), z3.Datatype("DataList"), z3.Datatype("PairList")
    D.declare("Constr", ("ctag", z3.IntSort()), ("cfields", L))
    D.declare("Map", ("mentries", P))
    D.declare("List", ("litems", L))
    D.declare("I", ("ival", z3.IntSort()))
    D.declare("B", ("bval", ByteSeq))
    L.declare("dnil")
    L.declare("dcons", ("dhead", D), ("dtail", L))
    P.declare("pnil")
    P.declare("pcons", ("pkey", D), ("pval", D), ("ptail", P))
    return z3.CreateDatatypes(D, L, P)


Data, DataList, PairList = _mk_datatypes()
OPAQUE = {"g1": z3.DeclareSort("G1"), "g2": z3.DeclareSort("G2"), "ml": z3.DeclareSort("ML")}
T_LD = ("list", "data")
T_PDD = ("pair", "data", "data")
T_LPDD = ("list", T_PDD)


class Con:
    __slots__ = ("ty", "v")

    def __init__(self, ty, v):
        self.ty, self.v = ty, v

    def __repr__(self):
        return f"Con({self.ty}, {self.v!r})"


class VLam:
    __slots__ = ("body", "env")

    def __init__(self, body, env):
        self.body, self.env = body, env


class VDelay:
    __slots__ = ("body", "env")

    def __init__(self, body, env):
        self.body, self.env = body, env


class VBuiltin:
    __slots__ = ("name", "forces", "args")

    def __init__(self, name, forces, args):
        self.name, self.forces, self.args = name, forces, args


class VConstr:
    __slots__ = ("tag", "fields")

    def __init__(self, tag, fields):
        self.tag, self.fields = tag, fields


class NotConcrete(ValueError):
    pass


# ------------------------------------------------------------------------------------------- python <-> z3 payloads
_BZ = {}


def bytes_z(b):
    if not isinstance(b, (bytes, bytearray)):
        return b
    e = _BZ.get(b)
    if e is None:
        us = [z3.Unit(z3.BitVecVal(x, 8)) for x in b]
        e = z3.Empty(ByteSeq) if not us else us[0] if len(us) == 1 else z3.Concat(*us)
        if len(b) <= 64:
            _BZ[b] = e
    return e


def int_z(i):
    return z3.IntVal(i) if isinstance(i, int) else i


def bool_z(b):
    return z3.BoolVal(b) if isinstance(b, bool) else b


def seq_to_bytes(e):
    out, work = bytearray(), [e]
    while work:
        x = work.pop()
        k = x.decl().kind()
        if k == z3.Z3_OP_SEQ_CONCAT:
            work.extend(reversed(x.children()))
        elif k == z3.Z3_OP_SEQ_UNIT:
            c = x.arg(0)
            if not z3.is_bv_value(c):
                return None
            out.append(c.as_long())
        elif k != z3.Z3_OP_SEQ_EMPTY:
            return None
    return bytes(out)


def norm_int(e):
    if isinstance(e, int):
        return e
    e = z3.simplify(e)
    return e.as_long() if z3.is_int_value(e) else e


def norm_bytes(e):
    if isinstance(e, bytes):
        return e
    e = z3.simplify(e)
    b = seq_to_bytes(e)
    return e if b is None else b


def norm_bool(e):
    if isinstance(e, bool):
        return e
    e = z3.simplify(e)
    return True if z3.is_true(e) else False if z3.is_false(e) else e


def sort_of(ty):
    if ty == "integer":
        return z3.IntSort()
    if ty in ("bytestring", "string"):
        return ByteSeq
    if ty == "bool":
        return z3.BoolSort()
    if ty == "data":
        return Data
    if ty == T_LD:
        return DataList
    if ty == T_LPDD:
        return PairList
    return OPAQUE.get(ty) if isinstance(ty, str) else None


def payload_z(ty, v):
    """The payload as one z3 expression, or None when the type has no single-term encoding."""
    if ty == "integer":
        return int_z(v)
    if ty in ("bytestring", "string"):
        return bytes_z(v)
    if ty == "bool":
        return bool_z(v)
    return v if sort_of(ty) is not None else None


def is_concrete(ty, v):
    if ty == "integer":
        return isinstance(v, int)
    if ty in ("bytestring", "string"):
        return isinstance(v, bytes)
    if ty == "bool":
        return isinstance(v, bool)
    if ty == "unit":
        return True
    if isinstance(ty, tuple) and ty not in (T_LD, T_LPDD):
        return all(is_concrete(ty[1], x) for x in v) if ty[0] == "list" else is_concrete(ty[1], v[0]) and is_concrete(ty[2], v[1])
    return False


def head_of(e):
    """Name of the datatype constructor at the head of e, or None if e is not a constructor application."""
    d = e.decl()
    return d.name() if d.kind() == z3.Z3_OP_DT_CONSTRUCTOR else None


def sym_data(name):
    return Con("data", z3.Const(name, Data))


def sym_int(name):
    return Con("integer", z3.Int(name))


def sym_bytes(name):
    return Con("bytestring", z3.Const(name, ByteSeq))


def sym_bool(name):
    return Con("bool", z3.Bool(name))


def sym_datalist(name):
    return Con(T_LD, z3.Const(name, DataList))


def sym_pairlist(name):
    return Con(T_LPDD, z3.Const(name, PairList))


# ------------------------------------------------------------------------------------------------------ JSON -> Con
def ty_from_json(j):
    if isinstance(j, str):
        return j
    (k, v), = j.items()
    return ("list", ty_from_json(v)) if k == "list" else ("pair", ty_from_json(v[0]), ty_from_json(v[1]))


def ty_to_json(t):
    if isinstance(t, str):
        return t
    return {"list": ty_to_json(t[1])} if t[0] == "list" else {"pair": [ty_to_json(t[1]), ty_to_json(t[2])]}


def mk_datalist(items):
    e = DataList.dnil
    for x in reversed(items):
        e = DataList.dcons(x, e)
    return e


def mk_pairlist(items):
    e = PairList.pnil
    for k, v in reversed(items):
        e = PairList.pcons(k, v, e)
    return e


def data_from_json(j):
    (k, v), = j.items()
    if k == "i":
        return Data.I(z3.IntVal(int(v)))
    if k == "b":
        return Data.B(bytes_z(bytes.fromhex(v)))
    if k == "list":
        return Data.List(mk_datalist([data_from_json(x) for x in v]))
    if k == "map":
        return Data.Map(mk_pairlist([(data_from_json(a), data_from_json(b)) for a, b in v]))
    if k == "constr":
        return Data.Constr(z3.IntVal(int(v[0])), mk_datalist([data_from_json(x) for x in v[1]]))
    raise ValueError(f"unsupported data node {k!r}")


def list_payload(ety, items):
    return mk_datalist(items) if ety == "data" else mk_pairlist(items) if ety == T_PDD else tuple(items)


def con_from_json(c) -> Con:
    (k, v), = c.items()
    if k == "int":
        return Con("integer", int(v))
    if k == "bytes":
        return Con("bytestring", bytes.fromhex(v))
    if k == "string":
        return Con("string", v.encode("utf-8"))
    if k == "unit":
        return Con("unit", None)
    if k == "bool":
        return Con("bool", bool(v))
    if k == "data":
        return Con("data", data_from_json(v))
    if k == "list":
        ety = ty_from_json(v[0])
        return Con(("list", ety), list_payload(ety, [con_from_json(x).v for x in v[1]]))
    if k == "pair":
        return Con(("pair", ty_from_json(v[0]), ty_from_json(v[1])), (con_from_json(v[2]).v, con_from_json(v[3]).v))
    if k in ("g1", "g2"):
        return Con(k, z3.Const(f"{k}_{v}", OPAQUE[k]))
    if k == "ml":
        return Con("ml", z3.Const("ml_const", OPAQUE["ml"]))
    raise ValueError(f"unsupported constant {k!r}")


# ------------------------------------------------------------------------------------------------------ Con -> JSON
def dl_items(e):
    out = []
    while head_of(e) == "dcons":
        out.append(e.arg(0))
        e = e.arg(1)
    if head_of(e) != "dnil":
        raise NotConcrete(str(e)[:80])
    return out


def pl_items(e):
    out = []
    while head_of(e) == "pcons":
        out.append((e.arg(0), e.arg(1)))
        e = e.arg(2)
    if head_of(e) != "pnil":
        raise NotConcrete(str(e)[:80])
    return out


def _int(e):
    if not z3.is_int_value(e):
        raise NotConcrete(str(e)[:80])
    return e.as_long()


def _bytes(e):
    b = seq_to_bytes(e)
    if b is None:
        raise NotConcrete(str(e)[:80])
    return b


def data_to_json(e):
    h = head_of(e)
    if h == "I":
        return {"i": str(_int(e.arg(0)))}
    if h == "B":
        return {"b": _bytes(e.arg(0)).hex()}
    if h == "List":
        return {"list": [data_to_json(x) for x in dl_items(e.arg(0))]}
    if h == "Map":
        return {"map": [[data_to_json(k), data_to_json(v)] for k, v in pl_items(e.arg(0))]}
    if h == "Constr":
        return {"constr": [_int(e.arg(0)), [data_to_json(x) for x in dl_items(e.arg(1))]]}
    raise NotConcrete(str(e)[:80])


def payload_to_json(ty, v, model=None):
    def ev(e):
        return model.eval(e, model_completion=True) if model is not None else z3.simplify(e)

    if ty == "integer":
        return {"int": str(v if isinstance(v, int) else _int(ev(v)))}
    if ty == "bytestring":
        return {"bytes": (v if isinstance(v, bytes) else _bytes(ev(v))).hex()}
    if ty == "string":
        return {"string": (v if isinstance(v, bytes) else _bytes(ev(v))).decode("utf-8", errors="replace")}
    if ty == "bool":
        if not isinstance(v, bool):
            e = ev(v)
            if not (z3.is_true(e) or z3.is_false(e)):
                raise NotConcrete(str(e)[:80])
            v = z3.is_true(e)
        return {"bool": v}
    if ty == "unit":
        return {"unit": None}
    if ty == "data":
        return {"data": data_to_json(ev(v))}
    if ty in ("g1", "g2"):
        name = str(v)  # only literal group elements (named after their compressed hex) can be written back
        if not (z3.is_const(v) and name.startswith(ty + "_")):
            raise NotConcrete(name[:80])
        return {ty: name[3:]}
    if ty == "ml":
        return {"ml": None}
    if ty[0] == "pair":
        return {"pair": [ty_to_json(ty[1]), ty_to_json(ty[2]), payload_to_json(ty[1], v[0], model), payload_to_json(ty[2], v[1], model)]}
    items = dl_items(ev(v)) if ty == T_LD else pl_items(ev(v)) if ty == T_LPDD else v
    return {"list": [ty_to_json(ty[1]), [payload_to_json(ty[1], x, model) for x in items]]}


def discharge(value, conv):
    """Read a value back as a TERM JSON tree (iteratively); constants become conv(Con)."""
    out, work = [], [(0, value)]
    while work:
        it = work.pop()
        k = it[0]
        if k == 0:
            v = it[1]
            tv = type(v)
            if tv is Con:
                out.append(conv(v))
            elif tv is VLam:
                work.append((2, "lam")); work.append((1, v.body, v.env, 1))
            elif tv is VDelay:
                work.append((2, "delay")); work.append((1, v.body, v.env, 0))
            elif tv is VConstr:
                work.append((3, v.tag, len(v.fields))); work.extend((0, f) for f in reversed(v.fields))
            else:
                work.append((4, v.name, v.forces, len(v.args))); work.extend((0, a) for a in reversed(v.args))
        elif k == 1:
            _, t, env, d = it
            tag = t[0]
            if tag == VAR:
                i, e = t[1], env
                if i > d:
                    for _ in range(i - d - 1):
                        if e is None:
                            break
                        e = e[1]
                if i <= d or e is None:
                    out.append({"var": i})
                else:
                    work.append((0, e[0]))
            elif tag == LAM:
                work.append((2, "lam")); work.append((1, t[1], env, d + 1))
            elif tag == DELAY or tag == FORCE:
                work.append((2, "delay" if tag == DELAY else "force")); work.append((1, t[1], env, d))
            elif tag == APP:
                work.append((5,)); work.append((1, t[2], env, d)); work.append((1, t[1], env, d))
            elif tag == CON:
                out.append(conv(t[1]))
            elif tag == BUILTIN:
                out.append({"builtin": t[1]})
            elif tag == ERROR:
                out.append({"error": None})
            elif tag == CONSTR:
                work.append((3, t[1], len(t[2]))); work.extend((1, x, env, d) for x in reversed(t[2]))
            elif tag == CASE:
                work.append((6, len(t[2]))); work.extend((1, x, env, d) for x in reversed(t[2])); work.append((1, t[1], env, d))
        elif k == 2:
            out.append({it[1]: out.pop()})
        elif k == 3:
            n = it[2]
            kids = out[len(out) - n:] if n else []
            del out[len(out) - n:]
            out.append({"constr": [it[1], kids]})
        elif k == 4:
            n = it[3]
            kids = out[len(out) - n:] if n else []
            del out[len(out) - n:]
            t = {"builtin": it[1]}
            for _ in range(it[2]):
                t = {"force": t}
            for a in kids:
                t = {"app": [t, a]}
            out.append(t)
        elif k == 5:
            a = out.pop(); f = out.pop()
            out.append({"app": [f, a]})
        elif k == 6:
            n = it[1]
            kids = out[len(out) - n:] if n else []
            del out[len(out) - n:]
            out.append({"case": [out.pop(), kids]})
    return out[0]


def value_to_json(model, v):
    """TERM JSON of a value, constants concretised under the z3 model (model None: must already be concrete)."""
    return discharge(v, lambda c: {"con": payload_to_json(c.ty, c.v, model)})


# ------------------------------------------------------------------------------------------------- equality, bounds
def payload_eq(ty, a, b):
    """python bool or z3 Bool"""
    if ty == "unit":
        return True
    za, zb = payload_z(ty, a), payload_z(ty, b)
    if za is not None:
        return a == b if is_concrete(ty, a) and is_concrete(ty, b) else norm_bool(za == zb)
    if ty[0] == "pair":
        return _and([payload_eq(ty[1], a[0], b[0]), payload_eq(ty[2], a[1], b[1])])
    return False if len(a) != len(b) else _and([payload_eq(ty[1], x, y) for x, y in zip(a, b)])


def _and(cs):
    if any(c is False for c in cs):
        return False
    cs = [c for c in cs if c is not True]
    return True if not cs else cs[0] if len(cs) == 1 else z3.And(*cs)


def values_equal(v1, v2):
    """z3 Bool stating v1 == v2, or None when they cannot be compared (read-back terms of different shape).  For values
    that are not `is_first_order` the Bool is only a sufficient condition (same closure code, equal constants)."""
    t1, t2 = discharge(v1, lambda c: c), discharge(v2, lambda c: c)
    eqs, work = [], [(t1, t2)]
    while work:
        a, b = work.pop()
        if type(a) is Con or type(b) is Con:
            if type(a) is not type(b):
                return None
            eqs.append(payload_eq(a.ty, a.v, b.v) if a.ty == b.ty else False)
        elif isinstance(a, dict):
            if not isinstance(b, dict) or a.keys() != b.keys():
                return None
            work.extend((a[k], b[k]) for k in a)
        elif isinstance(a, list):
            if not isinstance(b, list) or len(a) != len(b):
                return None
            work.extend(zip(a, b))
        elif a != b:
            return None
    return bool_z(_and(eqs))


def is_first_order(v):
    """constants and constr values made of constants (no closures / partial builtins inside)"""
    work = [v]
    while work:
        x = work.pop()
        if type(x) is VConstr:
            work.extend(x.fields)
        elif type(x) is not Con:
            return False
    return True


def bounded_data(d, depth, width):
    """Nesting depth of d <= depth (I/B have depth 0), every list/map/fields length <= width, constructor tags >= 0."""
    alts = [Data.is_I(d), Data.is_B(d)]
    if depth > 0:
        alts.append(z3.And(Data.is_Constr(d), Data.ctag(d) >= 0, bounded_datalist(Data.cfields(d), depth - 1, width)))
        alts.append(z3.And(Data.is_List(d), bounded_datalist(Data.litems(d), depth - 1, width)))
        alts.append(z3.And(Data.is_Map(d), bounded_pairlist(Data.mentries(d), depth - 1, width)))
    return z3.Or(*alts)


def bounded_datalist(l, depth, width):
    """length of l <= width and every element satisfies bounded_data(., depth, width)."""
    if width <= 0:
        return DataList.is_dnil(l)
    return z3.Or(DataList.is_dnil(l), z3.And(DataList.is_dcons(l), bounded_data(DataList.dhead(l), depth, width),
                                             bounded_datalist(DataList.dtail(l), depth, width - 1)))


def bounded_pairlist(l, depth, width):
    if width <= 0:
        return PairList.is_pnil(l)
    return z3.Or(PairList.is_pnil(l), z3.And(PairList.is_pcons(l), bounded_data(PairList.pkey(l), depth, width),
                                             bounded_data(PairList.pval(l), depth, width),
                                             bounded_pairlist(PairList.ptail(l), depth, width - 1)))
