"""Built-in functions of Plutus Core over symbolic constants (written from the specification's denotations).

An implementation takes (ctx, args) and returns a value, an `Err`, or a list of alternatives [(cond, value|Err)] whose
z3 conditions are exhaustive and mutually exclusive (the machine forks on them).  `Structural` is raised on ill-typed
arguments, `Undecided` when the symbolic model cannot express the call.
"""
from __future__ import annotations

import hashlib

import z3

from .values import (T_LD, T_LPDD, T_PDD, ByteSeq, Con, Data, DataList, PairList, bytes_z, head_of, int_z, is_concrete,
                     norm_bool, norm_bytes, norm_int, payload_z, sort_of)


class Err:
    __slots__ = ("cls", "detail")

    def __init__(self, cls, detail):
        self.cls, self.detail = cls, detail


class Structural(Exception):
    pass


class Undecided(Exception):
    pass


class Fail(Exception):
    """raised by concrete python models of partial builtins"""


class Ctx:
    """per-call side channel: semantics variant in, traces / uninterpreted names / extra facts out"""
    __slots__ = ("sem", "traces", "uninterp", "facts")

    def __init__(self, sem):
        self.sem, self.traces, self.uninterp, self.facts = sem, [], [], []


IMPL = {}
UNIT = Con("unit", None)
bs_lt = z3.Function("bs_lt", ByteSeq, ByteSeq, z3.BoolSort())


def bi(*names):
    def deco(f):
        for n in names:
            IMPL[n] = f
        return f
    return deco


def arg(a, ty):
    if type(a) is not Con:
        raise Structural("NotAConstant")
    if a.ty != ty:
        raise Structural("TypeMismatch")
    return a.v


def arg_kind(a, kind):
    if type(a) is not Con:
        raise Structural("NotAConstant")
    if not isinstance(a.ty, tuple) or a.ty[0] != kind:
        raise Structural("TypeMismatch")
    return a


def I(v):
    return Con("integer", v)


def BS(v):
    return Con("bytestring", v)


def BOOL(v):
    return Con("bool", v)


def both(cond, ok, name):
    """alternatives of a partial builtin: succeeds with `ok` iff cond"""
    cond = norm_bool(cond)
    if cond is True:
        return ok
    if cond is False:
        return Err("builtin", name)
    return [(cond, ok), (z3.Not(cond), Err("builtin", name))]


# ------------------------------------------------------------------------------------------------------- integers
def _int2(name, pyf, zf, wrap=I, norm=norm_int):
    @bi(name)
    def f(ctx, A):
        a, b = arg(A[0], "integer"), arg(A[1], "integer")
        if isinstance(a, int) and isinstance(b, int):
            return wrap(pyf(a, b))
        return wrap(norm(zf(int_z(a), int_z(b))))


_int2("addInteger", lambda a, b: a + b, lambda a, b: a + b)
_int2("subtractInteger", lambda a, b: a - b, lambda a, b: a - b)
_int2("multiplyInteger", lambda a, b: a * b, lambda a, b: a * b)
_int2("equalsInteger", lambda a, b: a == b, lambda a, b: a == b, BOOL, norm_bool)
_int2("lessThanInteger", lambda a, b: a < b, lambda a, b: a < b, BOOL, norm_bool)
_int2("lessThanEqualsInteger", lambda a, b: a <= b, lambda a, b: a <= b, BOOL, norm_bool)


# z3's `/` and `%` on Int are Euclidean (0 <= a % b < |b|)
def z_floordiv(a, b):
    return z3.If(z3.Or(b > 0, a % b == 0), a / b, a / b - 1)


def z_truncdiv(a, b):
    q = a / b
    return z3.If(z3.Or(a % b == 0, a >= 0), q, z3.If(b > 0, q + 1, q - 1))


def py_truncdiv(a, b):
    q = abs(a) // abs(b)
    return q if (a < 0) == (b < 0) else -q


def _div(name, pyf, zf):
    @bi(name)
    def f(ctx, A):
        a, b = arg(A[0], "integer"), arg(A[1], "integer")
        if isinstance(b, int):
            if b == 0:
                return Err("builtin", name)
            return I(pyf(a, b) if isinstance(a, int) else norm_int(zf(a, z3.IntVal(b))))
        return both(b != 0, I(norm_int(zf(int_z(a), b))), name)


_div("divideInteger", lambda a, b: a // b, z_floordiv)
_div("modInteger", lambda a, b: a % b, lambda a, b: a - b * z_floordiv(a, b))
_div("quotientInteger", py_truncdiv, z_truncdiv)
_div("remainderInteger", lambda a, b: a - b * py_truncdiv(a, b), lambda a, b: a - b * z_truncdiv(a, b))


# ----------------------------------------------------------------------------------------------- byte strings, text
def conc(*xs):
    return all(isinstance(x, (bytes, int, bool)) for x in xs)


def _append(ty):
    def f(ctx, A):
        a, b = arg(A[0], ty), arg(A[1], ty)
        return Con(ty, a + b if conc(a, b) else norm_bytes(z3.Concat(bytes_z(a), bytes_z(b))))
    return f


def _equals(ty):
    def f(ctx, A):
        a, b = arg(A[0], ty), arg(A[1], ty)
        return BOOL(a == b if conc(a, b) else norm_bool(bytes_z(a) == bytes_z(b)))
    return f


IMPL["appendByteString"], IMPL["appendString"] = _append("bytestring"), _append("string")
IMPL["equalsByteString"], IMPL["equalsString"] = _equals("bytestring"), _equals("string")


@bi("consByteString")
def _cons_bs(ctx, A):
    n, b = arg(A[0], "integer"), arg(A[1], "bytestring")
    check = ctx.sem in ("C", "E")
    if isinstance(n, int):
        if check and not 0 <= n <= 255:
            return Err("builtin", "consByteString")
        return BS(bytes([n % 256]) + b if isinstance(b, bytes) else norm_bytes(z3.Concat(bytes_z(bytes([n % 256])), b)))
    r = BS(norm_bytes(z3.Concat(z3.Unit(z3.Int2BV(n, 8)), bytes_z(b))))
    return both(z3.And(n >= 0, n <= 255), r, "consByteString") if check else r


@bi("sliceByteString")
def _slice(ctx, A):
    s, k, b = arg(A[0], "integer"), arg(A[1], "integer"), arg(A[2], "bytestring")
    if conc(s, k, b):
        s = max(s, 0)
        return BS(b[s:s + max(k, 0)])
    s, k = int_z(s), int_z(k)
    return BS(norm_bytes(z3.SubSeq(bytes_z(b), z3.If(s < 0, 0, s), z3.If(k < 0, 0, k))))


@bi("lengthOfByteString")
def _len(ctx, A):
    b = arg(A[0], "bytestring")
    return I(len(b) if isinstance(b, bytes) else norm_int(z3.Length(b)))


@bi("indexByteString")
def _index(ctx, A):
    b, i = arg(A[0], "bytestring"), arg(A[1], "integer")
    if conc(b, i):
        return I(b[i]) if 0 <= i < len(b) else Err("builtin", "indexByteString")
    bz, iz = bytes_z(b), int_z(i)
    return both(z3.And(iz >= 0, iz < z3.Length(bz)), I(norm_int(z3.BV2Int(bz[iz]))), "indexByteString")


def _bs_cmp(strict):
    def f(ctx, A):
        a, b = arg(A[0], "bytestring"), arg(A[1], "bytestring")
        if conc(a, b):
            return BOOL(a < b if strict else a <= b)
        ctx.uninterp.append("bs_lt")
        a, b = bytes_z(a), bytes_z(b)
        return BOOL(norm_bool(bs_lt(a, b) if strict else z3.Or(bs_lt(a, b), a == b)))
    return f


IMPL["lessThanByteString"], IMPL["lessThanEqualsByteString"] = _bs_cmp(True), _bs_cmp(False)


@bi("encodeUtf8")
def _enc(ctx, A):
    return BS(arg(A[0], "string"))  # strings are represented by their UTF-8 bytes


@bi("decodeUtf8")
def _dec(ctx, A):
    b = arg(A[0], "bytestring")
    if isinstance(b, bytes):
        try:
            b.decode("utf-8")
        except UnicodeDecodeError:
            return Err("builtin", "decodeUtf8")
        return Con("string", b)
    ctx.uninterp.append("decodeUtf8")
    ff = z3.Function("fails_decodeUtf8", ByteSeq, z3.BoolSort())(b)
    return [(z3.Not(ff), Con("string", b)), (ff, Err("builtin", "decodeUtf8"))]


# ------------------------------------------------------------------------------------------ polymorphic / control
@bi("ifThenElse")
def _ite(ctx, A):
    c = arg(A[0], "bool")
    if isinstance(c, bool):
        return A[1] if c else A[2]
    return [(c, A[1]), (z3.Not(c), A[2])]


@bi("chooseUnit")
def _choose_unit(ctx, A):
    arg(A[0], "unit")
    return A[1]


@bi("trace")
def _trace(ctx, A):
    ctx.traces.append(arg(A[0], "string"))
    return A[1]


def _proj(i):
    def f(ctx, A):
        p = arg_kind(A[0], "pair")
        return Con(p.ty[1 + i], p.v[i])
    return f


IMPL["fstPair"], IMPL["sndPair"] = _proj(0), _proj(1)


def list_view(l: Con):
    """('nil',) | ('cons', head Con, tail Con) | ('sym', is_cons cond, head Con, tail Con)"""
    ety = l.ty[1]
    if l.ty == T_LD:
        h = head_of(l.v)
        if h == "dnil":
            return ("nil",)
        if h == "dcons":
            return ("cons", Con("data", l.v.arg(0)), Con(T_LD, l.v.arg(1)))
        return ("sym", DataList.is_dcons(l.v), Con("data", z3.simplify(DataList.dhead(l.v))), Con(T_LD, z3.simplify(DataList.dtail(l.v))))
    if l.ty == T_LPDD:
        h = head_of(l.v)
        if h == "pnil":
            return ("nil",)
        if h == "pcons":
            return ("cons", Con(T_PDD, (l.v.arg(0), l.v.arg(1))), Con(T_LPDD, l.v.arg(2)))
        return ("sym", PairList.is_pcons(l.v), Con(T_PDD, (z3.simplify(PairList.pkey(l.v)), z3.simplify(PairList.pval(l.v)))),
                Con(T_LPDD, z3.simplify(PairList.ptail(l.v))))
    return ("cons", Con(ety, l.v[0]), Con(l.ty, l.v[1:])) if l.v else ("nil",)


@bi("chooseList")
def _choose_list(ctx, A):
    v = list_view(arg_kind(A[0], "list"))
    if v[0] == "sym":
        return [(z3.Not(v[1]), A[1]), (v[1], A[2])]
    return A[1] if v[0] == "nil" else A[2]


@bi("mkCons")
def _mk_cons(ctx, A):
    l = arg_kind(A[1], "list")
    x = arg(A[0], l.ty[1])
    if l.ty == T_LD:
        return Con(T_LD, DataList.dcons(x, l.v))
    if l.ty == T_LPDD:
        return Con(T_LPDD, PairList.pcons(x[0], x[1], l.v))
    return Con(l.ty, (x,) + l.v)


def _head_tail(name, i):
    @bi(name)
    def f(ctx, A):
        v = list_view(arg_kind(A[0], "list"))
        if v[0] == "nil":
            return Err("builtin", name)
        return v[i] if v[0] == "cons" else [(v[1], v[1 + i]), (z3.Not(v[1]), Err("builtin", name))]


_head_tail("headList", 1)
_head_tail("tailList", 2)


@bi("nullList")
def _null(ctx, A):
    v = list_view(arg_kind(A[0], "list"))
    return BOOL(norm_bool(z3.Not(v[1])) if v[0] == "sym" else v[0] == "nil")


DROP_UNROLL = 256


@bi("dropList")
def _drop(ctx, A):
    n, l = arg(A[0], "integer"), arg_kind(A[1], "list")
    if not isinstance(n, int):  # symbolic count: only on a list with a concrete spine, one alternative per suffix
        if l.ty in (T_LD, T_LPDD):
            sufs, e = [l.v], l.v
            while head_of(e) in ("dcons", "pcons"):
                e = e.arg(e.num_args() - 1)
                sufs.append(e)
            if head_of(e) is None:
                raise Undecided("dropList with a symbolic count on a symbolic list")
        else:
            sufs = [l.v[k:] for k in range(len(l.v) + 1)]
        if len(sufs) > DROP_UNROLL:
            raise Undecided("dropList with a symbolic count on a long list")
        last = len(sufs) - 1
        if last == 0:
            return l
        return [(n <= 0, l)] + [(n == k, Con(l.ty, sufs[k])) for k in range(1, last)] + [(n >= last, Con(l.ty, sufs[last]))]
    if l.ty not in (T_LD, T_LPDD):
        return Con(l.ty, l.v[max(n, 0):])
    nil, cons, tl = ("dnil", "dcons", DataList.dtail) if l.ty == T_LD else ("pnil", "pcons", PairList.ptail)
    is_cons = DataList.is_dcons if l.ty == T_LD else PairList.is_pcons
    e, k = l.v, 0
    while k < n:
        h = head_of(e)
        if h == nil:
            break
        if h == cons:
            e = e.arg(e.num_args() - 1)
        else:
            if n - k > DROP_UNROLL:
                raise Undecided("dropList: large count on a symbolic list")
            e = z3.simplify(z3.If(is_cons(e), tl(e), e))
        k += 1
    return Con(l.ty, e)


# ------------------------------------------------------------------------------------------------------------ data
DATA_KINDS = ("Constr", "Map", "List", "I", "B")


@bi("chooseData")
def _choose_data(ctx, A):
    d = arg(A[0], "data")
    h = head_of(d)
    if h is not None:
        return A[1 + DATA_KINDS.index(h)]
    return [(getattr(Data, "is_" + k)(d), A[1 + i]) for i, k in enumerate(DATA_KINDS)]


def _un(name, kind, mk):
    @bi(name)
    def f(ctx, A):
        d = arg(A[0], "data")
        h = head_of(d)
        if h is not None:
            return mk(*d.children()) if h == kind else Err("builtin", name)
        acc = [z3.simplify(getattr(Data, a)(d)) for a in ACC[kind]]
        return [(getattr(Data, "is_" + kind)(d), mk(*acc)), (z3.Not(getattr(Data, "is_" + kind)(d)), Err("builtin", name))]


ACC = {"Constr": ("ctag", "cfields"), "Map": ("mentries",), "List": ("litems",), "I": ("ival",), "B": ("bval",)}
_un("unConstrData", "Constr", lambda t, f: Con(("pair", "integer", T_LD), (norm_int(t), f)))
_un("unMapData", "Map", lambda e: Con(T_LPDD, e))
_un("unListData", "List", lambda e: Con(T_LD, e))
_un("unIData", "I", lambda i: I(norm_int(i)))
_un("unBData", "B", lambda b: BS(norm_bytes(b)))


@bi("constrData")
def _constr_data(ctx, A):
    return Con("data", Data.Constr(int_z(arg(A[0], "integer")), arg(A[1], T_LD)))


@bi("mapData")
def _map_data(ctx, A):
    return Con("data", Data.Map(arg(A[0], T_LPDD)))


@bi("listData")
def _list_data(ctx, A):
    return Con("data", Data.List(arg(A[0], T_LD)))


@bi("iData")
def _i_data(ctx, A):
    return Con("data", Data.I(int_z(arg(A[0], "integer"))))


@bi("bData")
def _b_data(ctx, A):
    return Con("data", Data.B(bytes_z(arg(A[0], "bytestring"))))


@bi("equalsData")
def _eq_data(ctx, A):
    return BOOL(norm_bool(arg(A[0], "data") == arg(A[1], "data")))


@bi("mkPairData")
def _mk_pair(ctx, A):
    return Con(T_PDD, (arg(A[0], "data"), arg(A[1], "data")))


@bi("mkNilData")
def _nil_data(ctx, A):
    arg(A[0], "unit")
    return Con(T_LD, DataList.dnil)


@bi("mkNilPairData")
def _nil_pair(ctx, A):
    arg(A[0], "unit")
    return Con(T_LPDD, PairList.pnil)


# ---------------------------------------------------------- functions modelled concretely in python, else uninterpreted
def _i2bs(big, width, n):
    if n < 0 or width < 0 or width > 8192:
        raise Fail
    need = (n.bit_length() + 7) // 8
    if width == 0:
        if need > 8192:
            raise Fail
        width = need
    if need > width:
        raise Fail
    return n.to_bytes(width, "big" if big else "little")


def _bitop(op):
    def f(pad, a, b):
        if len(a) < len(b):
            a, b = b, a
        head = bytes(op(x, y) for x, y in zip(a, b))
        return head + a[len(b):] if pad else head
    return f


def _read_bit(b, i):
    if not 0 <= i < 8 * len(b):
        raise Fail
    return bool(b[len(b) - 1 - i // 8] >> (i % 8) & 1)


def _write_bits(b, idxs, val):
    out = bytearray(b)
    for i in idxs:
        if not 0 <= i < 8 * len(b):
            raise Fail
        if val:
            out[len(b) - 1 - i // 8] |= 1 << (i % 8)
        else:
            out[len(b) - 1 - i // 8] &= ~(1 << (i % 8)) & 255
    return bytes(out)


def _replicate(n, x):
    if not 0 <= n <= 8192 or not 0 <= x <= 255:
        raise Fail
    return bytes([x]) * n


def _int64(k):  # the reference implementation takes these arguments as Int (pinned by the conformance tests)
    if not -2**63 <= k < 2**63:
        raise Fail


def _shift(b, k):
    _int64(k)
    nbits = 8 * len(b)
    if not b or abs(k) >= nbits:
        return bytes(len(b))
    v = int.from_bytes(b, "big")
    v = (v << k) & ((1 << nbits) - 1) if k >= 0 else v >> -k
    return v.to_bytes(len(b), "big")


def _rotate(b, k):
    _int64(k)
    nbits = 8 * len(b)
    if not b:
        return b
    k %= nbits
    v = int.from_bytes(b, "big")
    return (((v << k) | (v >> (nbits - k))) & ((1 << nbits) - 1)).to_bytes(len(b), "big")


def _first_set(b):
    v = int.from_bytes(b, "big")
    return (v & -v).bit_length() - 1 if v else -1


def _expmod(b, e, m):
    if m <= 0:
        raise Fail
    if m == 1:
        return 0
    try:
        return pow(b, e, m)
    except ValueError:
        raise Fail


def _ripemd(b):
    return hashlib.new("ripemd160", b).digest()


_B, _I, _O = "bytestring", "integer", "bool"
# name: (argument types, result type, partial?, python model for concrete arguments | None, fixed result length | None)
MODELLED = {
    "sha2_256": ([_B], _B, False, lambda b: hashlib.sha256(b).digest(), 32),
    "sha3_256": ([_B], _B, False, lambda b: hashlib.sha3_256(b).digest(), 32),
    "blake2b_256": ([_B], _B, False, lambda b: hashlib.blake2b(b, digest_size=32).digest(), 32),
    "blake2b_224": ([_B], _B, False, lambda b: hashlib.blake2b(b, digest_size=28).digest(), 28),
    "keccak_256": ([_B], _B, False, None, 32),
    "ripemd_160": ([_B], _B, False, _ripemd, 20),
    "verifyEd25519Signature": ([_B, _B, _B], _O, True, None, None),
    "verifyEcdsaSecp256k1Signature": ([_B, _B, _B], _O, True, None, None),
    "verifySchnorrSecp256k1Signature": ([_B, _B, _B], _O, True, None, None),
    "serialiseData": (["data"], _B, False, None, None),
    "integerToByteString": ([_O, _I, _I], _B, True, _i2bs, None),
    "byteStringToInteger": ([_O, _B], _I, False, lambda big, b: int.from_bytes(b, "big" if big else "little"), None),
    "andByteString": ([_O, _B, _B], _B, False, _bitop(lambda x, y: x & y), None),
    "orByteString": ([_O, _B, _B], _B, False, _bitop(lambda x, y: x | y), None),
    "xorByteString": ([_O, _B, _B], _B, False, _bitop(lambda x, y: x ^ y), None),
    "complementByteString": ([_B], _B, False, lambda b: bytes(~x & 255 for x in b), None),
    "readBit": ([_B, _I], _O, True, _read_bit, None),
    "writeBits": ([_B, ("list", _I), _O], _B, True, _write_bits, None),
    "replicateByte": ([_I, _I], _B, True, _replicate, None),
    "shiftByteString": ([_B, _I], _B, True, _shift, None),
    "rotateByteString": ([_B, _I], _B, True, _rotate, None),
    "countSetBits": ([_B], _I, False, lambda b: bin(int.from_bytes(b, "big")).count("1"), None),
    "findFirstSetBit": ([_B], _I, False, _first_set, None),
    "expModInteger": ([_I, _I, _I], _I, True, _expmod, None),
    "bls12_381_millerLoop": (["g1", "g2"], "ml", False, None, None),
    "bls12_381_mulMlResult": (["ml", "ml"], "ml", False, None, None),
    "bls12_381_finalVerify": (["ml", "ml"], _O, False, None, None),
}
for _g in ("g1", "g2"):
    _p = "bls12_381_" + _g.upper() + "_"
    MODELLED.update({
        _p + "add": ([_g, _g], _g, False, None, None), _p + "neg": ([_g], _g, False, None, None),
        _p + "scalarMul": ([_I, _g], _g, False, None, None), _p + "equal": ([_g, _g], _O, False, None, None),
        _p + "compress": ([_g], _B, False, None, None), _p + "uncompress": ([_B], _g, True, None, None),
        _p + "hashToGroup": ([_B, _B], _g, True, None, None),
        _p + "multiScalarMul": ([("list", _I), ("list", _g)], _g, True, None, None),
    })


def _modelled(name):
    argtys, retty, partial, model, length = MODELLED[name]

    def f(ctx, A):
        vals = [arg(a, t) for a, t in zip(A, argtys)]
        if model is not None and all(is_concrete(t, v) for t, v in zip(argtys, vals)):
            try:
                return Con(retty, model(*vals))
            except Fail:
                return Err("builtin", name)
        zs = [payload_z(t, v) for t, v in zip(argtys, vals)]
        if any(z is None for z in zs):
            raise Undecided(f"{name}: argument without a term encoding")
        ctx.uninterp.append(name)
        sorts = [sort_of(t) for t in argtys]
        r = z3.Function("uf_" + name, *sorts, sort_of(retty))(*zs)
        if length is not None:
            ctx.facts.append(z3.Length(r) == length)
        if not partial:
            return Con(retty, r)
        ff = z3.Function("fails_" + name, *sorts, z3.BoolSort())(*zs)
        return [(z3.Not(ff), Con(retty, r)), (ff, Err("builtin", name))]
    return f


for _n in MODELLED:
    IMPL[_n] = _modelled(_n)
UNINTERPRETED_ALWAYS = {n for n, s in MODELLED.items() if s[3] is None}
try:
    _ripemd(b"")
except Exception:  # hashlib without ripemd160
    UNINTERPRETED_ALWAYS.add("ripemd_160")
    MODELLED["ripemd_160"] = MODELLED["ripemd_160"][:3] + (None, 20)
    IMPL["ripemd_160"] = _modelled("ripemd_160")
