"""Forking CEK machine for UPLC (Plutus Core specification 1.1.0, incl. constr/case) over symbolic constants.

Iterative: the continuation is a persistent linked list of frames, environments are linked pairs (value, parent), so
forking a state is O(1).  Every fork asks an incremental z3 solver which alternatives are feasible under the path
condition; infeasible ones are dropped, `unknown` is kept and marks the path `approx`.
"""
from __future__ import annotations

import os
import sys
import time

import z3

from .builtins import IMPL, Ctx, Err, Structural, Undecided, list_view
from .term import APP, BUILTIN, CASE, CON, CONSTR, DELAY, FORCE, LAM, VAR, parse_term  # noqa: F401  (parse_term re-exported)
from .values import Con, VBuiltin, VConstr, VDelay, VLam

sys.path.insert(0, os.path.dirname(os.path.dirname(os.path.abspath(__file__))))
from specs.cek import BUILTINS  # noqa: E402  name -> (tag, arity, forces), written from the specification

K_ARG, K_FUN, K_APPV, K_FORCE, K_CONSTR, K_CASE = range(6)


class Path:
    __slots__ = ("pc", "outcome", "traces", "steps", "uninterp", "approx", "model")

    def __init__(self, pc, outcome, traces, steps, uninterp, approx, model=None):
        self.pc, self.outcome, self.traces, self.steps, self.uninterp, self.approx = list(pc), outcome, list(traces), steps, list(uninterp), approx
        self.model = model  # a z3 model of pc when one is at hand (witness of feasibility), else None

    def __repr__(self):
        return f"Path({self.outcome[:2] if self.outcome[0] == 'value' else self.outcome}, |pc|={len(self.pc)}, steps={self.steps})"


class State:
    """a suspended machine: computing (term, env) when term is not None, else returning value; kont = frames"""
    __slots__ = ("term", "env", "value", "kont", "pc", "known", "model", "traces", "steps", "uninterp", "approx")

    def __init__(self, term, env, value, kont, pc, known, model, traces, steps, uninterp, approx):
        self.term, self.env, self.value, self.kont, self.pc, self.known, self.model = term, env, value, kont, pc, known, model
        self.traces, self.steps, self.uninterp, self.approx = traces, steps, uninterp, approx


class Machine:
    def __init__(self, semantics="E", max_steps=20000, max_paths=2000, solver_timeout_ms=10000, incremental=False, deadline_s=None):
        """incremental=False: every feasibility query goes to a fresh solver loaded with the path condition (in practice far
        faster and more predictable than one long-lived push/pop solver, whose state degrades); True: push/pop solver."""
        self.sem, self.max_steps, self.max_paths = semantics, max_steps, max_paths
        self.deadline_s = deadline_s  # wall-clock budget of one run(); states left when it expires end as `undecided`
        self.timeout, self.incremental = solver_timeout_ms, incremental
        self.solver = z3.SimpleSolver()
        self.solver.set("timeout", solver_timeout_ms)
        self._asserted = []
        self.stats = {"queries": 0, "solver_s": 0.0, "forks": 0, "steps": 0, "model_hits": 0}

    # ---------------------------------------------------------------------------------------------------- solver
    def _sync(self, pc):
        a, s, n = self._asserted, self.solver, 0
        m = min(len(a), len(pc))
        while n < m and a[n] is pc[n]:
            n += 1
        for _ in range(len(a) - n):
            s.pop()
        del a[n:]
        for c in pc[n:]:
            s.push()
            s.add(c)
            a.append(c)

    def _check(self, pc, extra=None):
        """-> (z3 result, model | None) for pc /\ extra"""
        t = time.time()
        if self.incremental:
            s = self.solver
            self._sync(pc)
            s.push()
        else:
            s = z3.SimpleSolver()
            s.set("timeout", self.timeout)
            s.add(*pc)
        if extra is not None:
            s.add(extra)
        r = s.check()
        model = s.model() if r == z3.sat else None
        if self.incremental:
            s.pop()
        self.stats["queries"] += 1
        self.stats["solver_s"] += time.time() - t
        return r, model

    @staticmethod
    def _lookup(known, c):
        k = known.get(c.get_id())
        if k is None and z3.is_not(c):
            k = known.get(c.arg(0).get_id())
            k = None if k is None else not k
        return k

    # ------------------------------------------------------------------------------------------------------- run
    def run(self, term, args=(), assumptions=()):
        kont = None
        for a in reversed(list(args)):
            kont = (K_APPV, a, kont)
        pc, model = tuple(assumptions), None
        if pc:
            r, model = self._check(pc)
            if r == z3.unsat:
                return []
        self._paths, self._work = [], [State(term, None, None, kont, pc, {}, model, (), 0, (), False)]
        import time as _time
        t_end = _time.time() + self.deadline_s if self.deadline_s else None
        while self._work:
            st = self._work.pop()
            if len(self._paths) >= self.max_paths:
                self._finish(st, ("undecided", "path cap"))
                continue
            if t_end is not None and _time.time() > t_end:
                self._finish(st, ("undecided", "time budget of the exploration"))
                continue
            self._exec(st)
        self._sync(())
        return self._paths

    def _finish(self, st, outcome):
        self.stats["steps"] += st.steps
        self._paths.append(Path(st.pc, outcome, st.traces, st.steps, dict.fromkeys(st.uninterp), st.approx, st.model))

    def _fork(self, st, alts):
        """alts: [(cond, kind, payload)], kind 'ret' (value) | 'err' (Err) | 'go' ((term, env, kont)); cond z3 Bool | True.
        Feasible alternatives become pending states (explored depth first, in order) or finished error paths."""
        feas, n = [], len(alts)
        for i, (cond, kind, payload) in enumerate(alts):
            approx, model = False, st.model
            if cond is not True:
                cond = z3.simplify(cond)
                if z3.is_false(cond):
                    continue
                k = True if z3.is_true(cond) else self._lookup(st.known, cond)
                if k is False:
                    continue
                if k is True:
                    cond = True
                elif model is not None and z3.is_true(model.eval(cond, model_completion=True)):
                    self.stats["model_hits"] += 1  # the cached model of the path condition already witnesses this alternative
                elif i == n - 1 and not feas:
                    model = None  # the last alternative of an exhaustive split needs no query
                else:
                    r, model = self._check(st.pc, cond)
                    if r == z3.unsat:
                        continue
                    approx = r != z3.sat
            feas.append((cond, kind, payload, approx, model))
            if cond is True:
                break
        if len(feas) > 1:
            self.stats["forks"] += 1
        if not feas:
            return self._finish(st, ("undecided", "no feasible alternative (solver gave up earlier?)"))
        for cond, kind, payload, approx, model in reversed(feas):
            pc, known = st.pc, st.known
            if cond is not True:
                pc, known = pc + (cond,), dict(known)
                known[cond.get_id()] = True
                if z3.is_not(cond):
                    known[cond.arg(0).get_id()] = False
            s2 = State(None, None, None, st.kont, pc, known, model, st.traces, st.steps, st.uninterp, st.approx or approx)
            if kind == "err":
                self._finish(s2, ("error", payload.cls, payload.detail))
                continue
            if kind == "ret":
                s2.value = payload
            else:
                s2.term, s2.env, s2.kont = payload
            self._work.append(s2)

    def _case_const(self, c: Con, branches, env, kont):
        """alternatives of `case` on a constant (specification: casing on bool, unit, integer, list, pair)"""
        nb, ty, v = len(branches), c.ty, c.v
        bad = Err("structural", "MissingCaseBranch")

        def go(i, args=()):
            k = kont
            for a in reversed(args):
                k = (K_APPV, a, k)
            return ("go", (branches[i], env, k)) if i < nb else ("err", bad)

        if ty == "bool" and 1 <= nb <= 2:
            if isinstance(v, bool):
                return [(True,) + go(int(v))]
            return [(z3.Not(v),) + go(0), (v,) + go(1)]
        if ty == "unit" and nb == 1:
            return [(True,) + go(0)]
        if ty == "integer":
            if isinstance(v, int):
                return [(True,) + (go(v) if v >= 0 else ("err", bad))]
            return [(v == i,) + go(i) for i in range(nb)] + [(z3.Or(v < 0, v >= nb), "err", bad)]
        if isinstance(ty, tuple) and ty[0] == "list" and 1 <= nb <= 2:
            lv = list_view(c)
            if lv[0] == "nil":
                return [(True,) + go(1)]
            if lv[0] == "cons":
                return [(True,) + go(0, lv[1:])]
            return [(lv[1],) + go(0, lv[2:]), (z3.Not(lv[1]),) + go(1)]
        if isinstance(ty, tuple) and ty[0] == "pair" and nb == 1:
            return [(True,) + go(0, (Con(ty[1], v[0]), Con(ty[2], v[1])))]
        if ty in ("bool", "unit") or isinstance(ty, tuple):
            return [(True, "err", bad)]
        return [(True, "err", Err("structural", "NonConstrScrutinized"))]

    def _exec(self, st: State):
        """run one state until its path ends or forks"""
        term, env, value, kont, steps = st.term, st.env, st.value, st.kont, st.steps
        max_steps, sem = self.max_steps, self.sem

        while True:
            steps += 1
            if steps > max_steps:
                outcome = ("undecided", "step cap")
                break
            if term is not None:  # ------------------------------------------------------------------- compute
                tag = term[0]
                if tag == VAR:
                    e = env
                    try:
                        for _ in range(term[1] - 1):
                            e = e[1]
                        value = e[0]
                    except TypeError:
                        outcome = ("error", "structural", "OpenTermEvaluated")
                        break
                    term = None
                elif tag == APP:
                    kont = (K_ARG, term[2], env, kont)
                    term = term[1]
                elif tag == LAM:
                    value, term = VLam(term[1], env), None
                elif tag == FORCE:
                    kont = (K_FORCE, kont)
                    term = term[1]
                elif tag == DELAY:
                    value, term = VDelay(term[1], env), None
                elif tag == CON:
                    value, term = term[1], None
                elif tag == BUILTIN:
                    if term[1] not in BUILTINS:
                        outcome = ("undecided", f"unknown builtin {term[1]}")
                        break
                    value, term = VBuiltin(term[1], 0, ()), None
                elif tag == CONSTR:
                    if term[2]:
                        kont = (K_CONSTR, term[1], term[2], 1, (), env, kont)
                        term = term[2][0]
                    else:
                        value, term = VConstr(term[1], ()), None
                elif tag == CASE:
                    kont = (K_CASE, term[2], env, kont)
                    term = term[1]
                else:
                    outcome = ("error", "user", "error")
                    break
                continue
            if kont is None:  # ------------------------------------------------------------------------ return
                outcome = ("value", value)
                break
            fr = kont
            k = fr[0]
            fun = arg = None
            if k == K_ARG:
                kont = (K_FUN, value, fr[3])
                term, env = fr[1], fr[2]
                continue
            elif k == K_FUN:
                fun, arg, kont = fr[1], value, fr[2]
            elif k == K_APPV:
                fun, arg, kont = value, fr[1], fr[2]
            elif k == K_FORCE:
                kont = fr[1]
                tv = type(value)
                if tv is VDelay:
                    term, env = value.body, value.env
                elif tv is VBuiltin:
                    if value.forces >= BUILTINS[value.name][2]:
                        outcome = ("error", "structural", "BuiltinTermArgumentExpected")
                        break
                    value = VBuiltin(value.name, value.forces + 1, value.args)
                else:
                    outcome = ("error", "structural", "NonPolymorphicInstantiation")
                    break
                continue
            elif k == K_CONSTR:
                _, ctag, fields, nxt, acc, cenv, parent = fr
                acc = acc + (value,)
                if nxt < len(fields):
                    kont = (K_CONSTR, ctag, fields, nxt + 1, acc, cenv, parent)
                    term, env = fields[nxt], cenv
                else:
                    kont, value = parent, VConstr(ctag, acc)
                continue
            else:  # K_CASE
                _, branches, cenv, kont = fr
                tv = type(value)
                if tv is VConstr:
                    if value.tag >= len(branches):
                        outcome = ("error", "structural", "MissingCaseBranch")
                        break
                    for a in reversed(value.fields):
                        kont = (K_APPV, a, kont)
                    term, env = branches[value.tag], cenv
                    continue
                if tv is not Con or sem != "E":
                    outcome = ("error", "structural", "NonConstrScrutinized")
                    break
                alts = self._case_const(value, branches, cenv, kont)
                if len(alts) == 1 and alts[0][1] == "go":
                    term, env, kont = alts[0][2]
                    continue
                st.steps, st.kont = steps, kont
                return self._fork(st, alts)
            # ------------------------------------------------------------------------------------- application
            tf = type(fun)
            if tf is VLam:
                term, env = fun.body, (arg, fun.env)
                continue
            if tf is not VBuiltin:
                outcome = ("error", "structural", "NonFunctionalApplication")
                break
            _, arity, forces = BUILTINS[fun.name]
            if fun.forces < forces:
                outcome = ("error", "structural", "UnexpectedBuiltinTermArgument")
                break
            args = fun.args + (arg,)
            if len(args) < arity:
                value = VBuiltin(fun.name, fun.forces, args)
                continue
            impl = IMPL.get(fun.name)
            if impl is None:
                outcome = ("undecided", f"builtin {fun.name} is not modelled")
                break
            ctx = Ctx(sem)
            try:
                r = impl(ctx, args)
            except Structural as ex:
                outcome = ("error", "structural", str(ex))
                break
            except Undecided as ex:
                outcome = ("undecided", str(ex))
                break
            if ctx.traces:
                st.traces = st.traces + tuple(ctx.traces)
            if ctx.uninterp:
                st.uninterp = st.uninterp + tuple(ctx.uninterp)
            if ctx.facts:
                st.pc, st.model = st.pc + tuple(ctx.facts), None
            tr = type(r)
            if tr is list:
                st.steps, st.kont = steps, kont
                return self._fork(st, [(c, "err" if type(x) is Err else "ret", x) for c, x in r])
            if tr is Err:
                outcome = ("error", r.cls, r.detail)
                break
            value = r
        st.steps = steps
        self._finish(st, outcome)
