"""Compare two path sets (of two programs run on the same symbolic arguments) for all arguments."""
from __future__ import annotations

import z3

from .values import NotConcrete, is_first_order, value_to_json, values_equal


class Report(list):
    """list of disagreements (dicts) + bookkeeping: .pairs (jointly satisfiable pairs), .agreed, .undecided (list of dicts),
    .queries (solver calls)"""

    def __init__(self):
        super().__init__()
        self.pairs, self.agreed, self.undecided, self.queries = 0, 0, [], 0

    @property
    def ok(self):
        return not self and not self.undecided


def _args_json(model, args):
    out = []
    for a in args:
        try:
            out.append(value_to_json(model, a))
        except NotConcrete as ex:
            out.append({"not_concrete": str(ex)})
    return out


def _literals(p):
    """{id of atom: polarity} of the path condition's conjuncts (syntactic, for cheap disjointness tests)"""
    out = {}
    for c in p.pc:
        neg = z3.is_not(c)
        out[(c.arg(0) if neg else c).get_id()] = not neg
    return out


def _sat_in(model, conjuncts):
    return model is not None and all(z3.is_true(model.eval(c, model_completion=True)) for c in conjuncts)


def equivalent(paths1, paths2, solver=None, args=(), timeout_ms=10000) -> Report:
    """For every pair of paths with jointly satisfiable path conditions: both errors -> agree; both values -> must be equal
    under pc1 /\\ pc2; value vs error -> disagreement (with the arguments `args` concretised under a model).  Pairs
    involving undecided paths, uninterpreted functions (a counterexample may be spurious), solver `unknown`, or closures
    that are not syntactically equal go to `.undecided`.  solver: optional push/pop solver to reuse; by default every
    query runs in a fresh solver (faster in practice)."""
    rep = Report()

    def check(conjuncts):
        rep.queries += 1
        s = solver or z3.SimpleSolver()
        s.set("timeout", timeout_ms)
        if solver is not None:
            s.push()
        s.add(*conjuncts)
        r = s.check()
        m = s.model() if r == z3.sat else None
        if solver is not None:
            s.pop()
        return r, m

    lits2 = [_literals(p) for p in paths2]
    for i, p1 in enumerate(paths1):
        l1 = _literals(p1)
        for j, p2 in enumerate(paths2):
            l2 = lits2[j]
            if any(l2.get(k, v) != v for k, v in l1.items()):
                continue  # a condition of one path is negated in the other
            joint = p1.pc + [c for c in p2.pc if (c.arg(0) if z3.is_not(c) else c).get_id() not in l1]
            r, model = z3.sat, None
            if _sat_in(p1.model, p2.pc):
                model = p1.model
            elif _sat_in(p2.model, p1.pc):
                model = p2.model
            else:
                r, model = check(joint)
                if r == z3.unsat:
                    continue
            rep.pairs += 1
            o1, o2 = p1.outcome, p2.outcome
            soft = bool(p1.uninterp or p2.uninterp or p1.approx or p2.approx or r != z3.sat)
            info = {"paths": (i, j), "outcomes": (_short(o1), _short(o2))}
            if o1[0] == "undecided" or o2[0] == "undecided":
                rep.undecided.append(dict(info, reason="undecided path"))
            elif o1[0] == "error" and o2[0] == "error":
                rep.agreed += 1
            elif o1[0] != o2[0]:
                if soft:
                    rep.undecided.append(dict(info, reason="value vs error under uninterpreted functions / unknown"))
                else:
                    rep.append(dict(info, kind="value-vs-error", args=_args_json(model, args)))
            else:
                eq = values_equal(o1[1], o2[1])
                if eq is None:
                    rep.undecided.append(dict(info, reason="values of different shape (closures?)"))
                    continue
                eq = z3.simplify(eq)
                r2, m2 = (z3.unsat, None) if z3.is_true(eq) else check(joint + [z3.Not(eq)])
                if r2 == z3.unsat:
                    rep.agreed += 1
                elif r2 == z3.sat and not soft and is_first_order(o1[1]) and is_first_order(o2[1]):
                    rep.append(dict(info, kind="different-values", args=_args_json(m2, args), values=_args_json(m2, [o1[1], o2[1]])))
                else:
                    rep.undecided.append(dict(info, reason="not provably equal (uninterpreted / unknown / closures)"))
    return rep


def _short(o):
    return (o[0], type(o[1]).__name__) if o[0] == "value" else o
