"""Compare two path sets (of two programs run on the same symbolic arguments) for all arguments."""
from __future__ import annotations

import z3

from .values import NotConcrete, is_first_order, value_to_json, values_equal


class Report(list):
    """list of disagreements (dicts) + bookkeeping: .pairs (jointly satisfiable pairs), .agreed, .undecided (list of dicts)"""

    def __init__(self):
        super().__init__()
        self.pairs, self.agreed, self.undecided = 0, 0, []

    @property
    def ok(self):
        return not self and not self.undecided


def _args_json(model, args):
    out = []
    for a in args:
        try:
            out.append(value_to_json(model, a))
        except NotConcrete as ex:
            out.append({"not_concrete": str(ex)})
    return out


def equivalent(paths1, paths2, solver=None, args=(), timeout_ms=10000) -> Report:
    """For every pair of paths with jointly satisfiable path conditions: both errors -> agree; both values -> must be equal
    under pc1 /\\ pc2; value vs error -> disagreement.  Pairs involving undecided paths, uninterpreted functions whose
    counterexample may be spurious, solver `unknown`, or closures that differ are reported in `.undecided`."""
    s = solver or z3.Solver()
    s.set("timeout", timeout_ms)
    rep = Report()
    for i, p1 in enumerate(paths1):
        s.push()
        s.add(*p1.pc)
        if s.check() == z3.unsat:
            s.pop()
            continue
        for j, p2 in enumerate(paths2):
            s.push()
            s.add(*p2.pc)
            r = s.check()
            if r == z3.unsat:
                s.pop()
                continue
            rep.pairs += 1
            o1, o2 = p1.outcome, p2.outcome
            soft = bool(p1.uninterp or p2.uninterp or p1.approx or p2.approx or r != z3.sat)
            info = {"paths": (i, j), "outcomes": (_short(o1), _short(o2))}
            if o1[0] == "undecided" or o2[0] == "undecided":
                rep.undecided.append(dict(info, reason="undecided path"))
            elif o1[0] == "error" and o2[0] == "error":
                rep.agreed += 1
            elif o1[0] != o2[0]:
                if soft:
                    rep.undecided.append(dict(info, reason="value vs error under uninterpreted functions / unknown"))
                else:
                    rep.append(dict(info, kind="value-vs-error", args=_args_json(s.model(), args)))
            else:
                eq = values_equal(o1[1], o2[1])
                if eq is None:
                    rep.undecided.append(dict(info, reason="values of different shape (closures?)"))
                else:
                    s.push()
                    s.add(z3.Not(eq))
                    r2 = s.check()
                    if r2 == z3.unsat:
                        rep.agreed += 1
                    elif r2 == z3.sat and not soft and is_first_order(o1[1]) and is_first_order(o2[1]):
                        m = s.model()
                        rep.append(dict(info, kind="different-values", args=_args_json(m, args),
                                        values=_args_json(m, [o1[1], o2[1]])))
                    else:
                        rep.undecided.append(dict(info, reason="not provably equal (uninterpreted / unknown / closures)"))
                    s.pop()
            s.pop()
        s.pop()
    return rep


def _short(o):
    return (o[0], type(o[1]).__name__) if o[0] == "value" else o
