"""UPLC terms as light tuples `(TAG, ...)` in de Bruijn form, parsed (iteratively) from the TERM JSON.

(VAR, i) (LAM, body) (APP, f, a) (DELAY, t) (FORCE, t) (ERROR,) (BUILTIN, name) (CONSTR, tag, (t..)) (CASE, t, (t..))
(CON, Con)
"""
from __future__ import annotations

VAR, LAM, APP, DELAY, FORCE, ERROR, BUILTIN, CONSTR, CASE, CON = range(10)
_UNARY = {"lam": LAM, "delay": DELAY, "force": FORCE}


def parse_term(j):
    from .values import con_from_json
    out, work = [], [j]
    while work:
        it = work.pop()
        if type(it) is tuple:  # build marker: (tag, n children, extra)
            tag, n, extra = it
            kids = tuple(out[len(out) - n:]) if n else ()
            if n:
                del out[len(out) - n:]
            if tag == APP:
                out.append((APP, kids[0], kids[1]))
            elif tag == CONSTR:
                out.append((CONSTR, extra, kids))
            elif tag == CASE:
                out.append((CASE, kids[0], kids[1:]))
            else:
                out.append((tag, kids[0]))
            continue
        (k, v), = it.items()
        if k == "var":
            out.append((VAR, int(v["index"] if isinstance(v, dict) else v)))
        elif k in _UNARY:
            work.append((_UNARY[k], 1, None))
            work.append(v[1] if k == "lam" and isinstance(v, list) else v)
        elif k == "app":
            work.append((APP, 2, None))
            work.append(v[1])
            work.append(v[0])
        elif k == "error":
            out.append((ERROR,))
        elif k == "builtin":
            out.append((BUILTIN, v))
        elif k == "con":
            out.append((CON, con_from_json(v)))
        elif k == "constr":
            work.append((CONSTR, len(v[1]), int(v[0])))
            work.extend(reversed(v[1]))
        elif k == "case":
            work.append((CASE, 1 + len(v[1]), None))
            work.extend(reversed(v[1]))
            work.append(v[0])
        else:
            raise ValueError(f"unknown term node {k!r}")
    return out[0]


def term_size(t) -> int:
    n, work = 0, [t]
    while work:
        t = work.pop()
        n += 1
        tag = t[0]
        if tag in (LAM, DELAY, FORCE):
            work.append(t[1])
        elif tag == APP:
            work.append(t[1]); work.append(t[2])
        elif tag == CONSTR:
            work.extend(t[2])
        elif tag == CASE:
            work.append(t[1]); work.extend(t[2])
    return n
