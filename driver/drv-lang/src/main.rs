//! drv-lang: compile Aiken source text to UPLC through the public API of `aiken-lang`
//! (see ../PROTOCOL.md). Mirrors `aiken-project`'s `TestProject` (src/tests/mod.rs) without
//! depending on `aiken-project`.

mod typedesc;

use aiken_lang::{
    IdGenerator,
    ast::{
        DataTypeKey, Definition, FunctionAccessKey, ModuleKind, TraceLevel, Tracing, TypedArg,
        TypedDataType, TypedFunction, TypedModule,
    },
    builtins,
    expr::TypedExpr,
    gen_uplc::{CodeGenerator, verif_hooks},
    line_numbers::LineNumbers,
    parser,
    plutus_version::PlutusVersion,
    tipo::{self, TypeInfo, error::Warning},
};
use drv_common::{
    json,
    ops::{self, debug_limited, display_limited, field, str_field, variant_name},
    server::{self, OpResult, UNKNOWN_OP, guarded},
};
use indexmap::IndexMap;
use miette::Diagnostic;
use serde_json::{Value, json};
use std::collections::HashMap;
use typedesc::Describer;
use uplc::{
    ast::{DeBruijn, Name, Program},
    optimize::{interner::CodeGenInterner, shrinker::NO_INLINE},
};

const STACK_MIB: usize = 256;
const PACKAGE: &str = "test/project";
const DEFAULT_MODULE: &str = "test/mod";
const TEXT_LIMIT: usize = 4000;

fn main() {
    server::serve(STACK_MIB, handle);
}

fn handle(op: &str, req: &Value) -> OpResult {
    match op {
        "ping" => Ok(json!({"pong": "drv-lang"})),
        "eval" => ops::op_eval(req),
        "compile" => compile(req),
        "check" => check(req),
        _ => Err(UNKNOWN_OP.to_string()),
    }
}

// ---------------------------------------------------------------------------------------------
// request options

fn tracing_of(req: &Value) -> Result<Tracing, String> {
    let level = match str_field(req, "tracing", "silent")? {
        "silent" => TraceLevel::Silent,
        "compact" => TraceLevel::Compact,
        "verbose" => TraceLevel::Verbose,
        other => {
            return Err(format!(
                "field \"tracing\": expected silent|compact|verbose, got {other:?}"
            ));
        }
    };
    match str_field(req, "scope", "all")? {
        "all" => Ok(Tracing::All(level)),
        "user" => Ok(Tracing::UserDefined(level)),
        "compiler" => Ok(Tracing::CompilerGenerated(level)),
        other => Err(format!(
            "field \"scope\": expected all|user|compiler, got {other:?}"
        )),
    }
}

fn plutus_of(req: &Value) -> Result<PlutusVersion, String> {
    match str_field(req, "plutus", "v3")? {
        "v1" => Ok(PlutusVersion::V1),
        "v2" => Ok(PlutusVersion::V2),
        "v3" => Ok(PlutusVersion::V3),
        other => Err(format!(
            "field \"plutus\": expected v1|v2|v3, got {other:?}"
        )),
    }
}

// ---------------------------------------------------------------------------------------------
// front-end: parse + infer

/// Everything the code generator needs, owned (the generator only borrows).
struct World {
    module_name: String,
    ast: TypedModule,
    warnings: Vec<Warning>,
    functions: IndexMap<FunctionAccessKey, TypedFunction>,
    constants: IndexMap<FunctionAccessKey, TypedExpr>,
    data_types: IndexMap<DataTypeKey, TypedDataType>,
    module_types: HashMap<String, TypeInfo>,
    module_sources: HashMap<String, (String, LineNumbers)>,
}

/// `help` text of a miette diagnostic, if any.
fn help_of(d: &dyn Diagnostic) -> Option<String> {
    d.help().map(|h| display_limited(&h, TEXT_LIMIT))
}

/// Parse and type-check `src`; `Err(json)` is the `{"stage":..}` error object of the protocol.
fn front_end(req: &Value, tracing: Tracing) -> Result<Result<World, Value>, String> {
    let src = field(req, "src")?
        .as_str()
        .ok_or_else(|| "field \"src\": expected a string".to_string())?
        .to_string();
    let module_name = str_field(req, "module", DEFAULT_MODULE)?.to_string();
    let kind = match str_field(req, "kind", "validator")? {
        "validator" => ModuleKind::Validator,
        "lib" => ModuleKind::Lib,
        other => {
            return Err(format!(
                "field \"kind\": expected validator|lib, got {other:?}"
            ));
        }
    };

    // -- parse
    let (mut untyped, _extra) = match parser::module(&src, kind) {
        Ok(ok) => ok,
        Err(errs) => {
            let text = errs
                .iter()
                .map(|e| {
                    let mut t = display_limited(e, TEXT_LIMIT);
                    if let Some(h) = help_of(e) {
                        t.push_str("\nhelp: ");
                        t.push_str(&h);
                    }
                    t
                })
                .collect::<Vec<_>>()
                .join("\n");
            let kind = errs
                .first()
                .map(|e| variant_name(&*e.kind))
                .unwrap_or_default();
            return Ok(Err(json!({
                "stage": "parse",
                "kind": kind,
                "text": text,
                "count": errs.len(),
            })));
        }
    };
    untyped.name.clone_from(&module_name);

    // -- the world before this module: prelude + builtins
    let id_gen = IdGenerator::new();
    let mut module_types = HashMap::new();
    module_types.insert(builtins::PRELUDE.to_string(), builtins::prelude(&id_gen));
    module_types.insert(builtins::BUILTIN.to_string(), builtins::plutus(&id_gen));
    let mut functions = builtins::prelude_functions(&id_gen, &module_types);
    let mut data_types = builtins::prelude_data_types(&id_gen);
    let mut constants = IndexMap::new();

    // -- type-check
    let mut warnings = vec![];
    let ast = match untyped.infer(
        &id_gen,
        kind,
        PACKAGE,
        &module_types,
        tracing,
        &mut warnings,
        None,
    ) {
        Ok(ast) => ast,
        Err(e) => {
            let mut err = json!({
                "stage": "check",
                "kind": variant_name(&e),
                "text": display_limited(&e, TEXT_LIMIT),
                "help": help_of(&e),
                "debug": debug_limited(&e, TEXT_LIMIT),
            });
            match &e {
                tipo::error::Error::NotExhaustivePatternMatch {
                    unmatched, is_let, ..
                } => {
                    err["unmatched"] = json!(unmatched);
                    err["is_let"] = json!(is_let);
                }
                tipo::error::Error::RedundantMatchClause { .. } => {
                    err["redundant"] = json!(true);
                }
                _ => {}
            }
            return Ok(Err(err));
        }
    };

    // -- register this module's definitions, sources and types (as `TestProject::check` does)
    ast.register_definitions(&mut functions, &mut constants, &mut data_types);

    let mut module_sources = HashMap::new();
    module_sources.insert(
        module_name.clone(),
        (src.clone(), LineNumbers::new(&src)),
    );
    module_types.insert(module_name.clone(), ast.type_info.clone());

    Ok(Ok(World {
        module_name,
        ast,
        warnings,
        functions,
        constants,
        data_types,
        module_types,
        module_sources,
    }))
}

fn warnings_json(ws: &[Warning]) -> Value {
    Value::Array(
        ws.iter()
            .map(|w| {
                json!({
                    "kind": variant_name(w),
                    "text": display_limited(w, TEXT_LIMIT),
                    "help": help_of(w),
                })
            })
            .collect(),
    )
}

// ---------------------------------------------------------------------------------------------
// check

fn check(req: &Value) -> OpResult {
    let tracing = tracing_of(req)?;
    Ok(match front_end(req, tracing)? {
        Ok(world) => json!({"Ok": {"warnings": warnings_json(&world.warnings)}}),
        Err(e) => json!({"Err": e}),
    })
}

// ---------------------------------------------------------------------------------------------
// compile

fn new_generator<'a>(
    world: &'a World,
    plutus: PlutusVersion,
    tracing: Tracing,
) -> CodeGenerator<'a> {
    CodeGenerator::new(
        plutus,
        world.functions.iter().collect(),
        world.constants.iter().collect(),
        world.data_types.iter().collect(),
        world
            .module_types
            .iter()
            .map(|(k, v)| (k.as_str(), v))
            .collect(),
        world
            .module_sources
            .iter()
            .map(|(k, v)| (k.as_str(), v))
            .collect(),
        tracing,
    )
}

fn params_json(describer: &Describer, args: &[TypedArg]) -> Value {
    Value::Array(
        args.iter()
            .map(|a| {
                json!({
                    "name": a.arg_name.get_name(),
                    "discarded": a.arg_name.get_variable_name().is_none(),
                    "type": describer.describe(&a.tipo),
                })
            })
            .collect(),
    )
}

/// JSON for the two programs of one definition.
///
/// `post`: what the generator returned, converted with uplc's own `to_debruijn`.
///
/// `pre`: the last program the verif hook captured (= the input of the optimiser), with the
/// `__no_inline__` marker lambdas removed (see `ops::strip_marker_lambdas`). It is not interned
/// yet, so it goes through `CodeGenInterner` first (exactly what the optimiser does before its
/// own conversions), then `to_debruijn`. Our independent lexical conversion is a cross-check.
fn programs_json(
    entry: &mut Value,
    post: Program<Name>,
    drained: Vec<Program<Name>>,
    emit_named: bool,
) {
    entry["hooked"] = json!(drained.len());

    if emit_named {
        entry["post_named"] = json::program_to_json::<Name>(&post);
    }
    match post.to_debruijn() {
        Ok(p) => entry["post"] = json::program_to_json::<DeBruijn>(&p),
        Err(e) => {
            entry["post"] = Value::Null;
            entry["post_err"] = ops::error_to_json(&e);
        }
    }

    let Some(raw) = drained.into_iter().last() else {
        entry["pre"] = Value::Null;
        entry["pre_err"] = json!({"variant": "NoHook", "text": "verif_hooks::drain() was empty"});
        return;
    };
    if emit_named {
        entry["pre_named"] = json::program_to_json::<Name>(&raw);
    }

    let mut markers = 0;
    let pre = Program {
        version: raw.version,
        term: ops::strip_marker_lambdas(&raw.term, NO_INLINE, &mut markers),
    };
    entry["pre_markers"] = json!(markers);

    let lexical = ops::program_to_debruijn_lexical(&pre);

    let mut interned = pre;
    CodeGenInterner::new().program(&mut interned);
    match interned.to_debruijn() {
        Ok(p) => {
            entry["pre_lexical_agrees"] = json!(matches!(&lexical, Ok(l) if *l == p));
            entry["pre"] = json::program_to_json::<DeBruijn>(&p);
        }
        Err(e) => {
            entry["pre"] = Value::Null;
            entry["pre_err"] = ops::error_to_json(&e);
            if let Ok(l) = &lexical {
                entry["pre_lexical"] = json::program_to_json::<DeBruijn>(l);
            }
        }
    }
}

fn compile(req: &Value) -> OpResult {
    let tracing = tracing_of(req)?;
    let plutus = plutus_of(req)?;
    let emit_named = ops::opt_field(req, "emit_named").and_then(|v| v.as_bool()).unwrap_or(false);

    let world = match front_end(req, tracing)? {
        Ok(w) => w,
        Err(e) => return Ok(json!({"Err": e})),
    };
    let describer = Describer {
        data_types: &world.data_types,
    };
    let module_name = world.module_name.as_str();

    // One generator per request, shared by all definitions (as `aiken check` does); it is only
    // replaced after a panic, since a panic may leave it half-updated.
    let mut generator = new_generator(&world, plutus, tracing);
    let _ = verif_hooks::drain();

    let mut entries = vec![];

    for def in world.ast.definitions() {
        match def {
            Definition::Fn(func) => {
                let mut entry = json!({
                    "kind": "fn",
                    "name": func.name,
                    "public": func.public,
                    "params": params_json(&describer, &func.arguments),
                    "ret": describer.describe(&func.return_type),
                    "pre": null,
                    "post": null,
                    "gen_panic": null,
                });
                if let Some(reason) = func
                    .arguments
                    .iter()
                    .find_map(|a| typedesc::not_first_order(&a.tipo))
                {
                    entry["skipped"] = json!(reason);
                } else {
                    match guarded(|| generator.generate_raw(&func.body, &func.arguments, module_name))
                    {
                        Ok(post) => programs_json(&mut entry, post, verif_hooks::drain(), emit_named),
                        Err(panic) => {
                            entry["gen_panic"] = json!(panic);
                            let _ = verif_hooks::drain();
                            generator = new_generator(&world, plutus, tracing);
                        }
                    }
                }
                entries.push(entry);
            }

            Definition::Test(test) => {
                // Unit tests have no parameter. Property tests have exactly one (`x via fuzzer`):
                // like `Test::from_function_definition`, compile the body as a function of that
                // parameter, with opaque wrappers stripped from its type.
                let args: Vec<TypedArg> = test
                    .arguments
                    .iter()
                    .map(|a| TypedArg {
                        tipo: tipo::convert_opaque_type(&a.arg.tipo, generator.data_types(), true),
                        ..a.arg.clone()
                    })
                    .collect();
                let mut entry = json!({
                    "kind": "test",
                    "name": test.name,
                    "public": test.public,
                    "params": params_json(&describer, &args),
                    "ret": describer.describe(&test.return_type),
                    "on_test_failure": format!("{:?}", test.on_test_failure),
                    "pre": null,
                    "post": null,
                    "gen_panic": null,
                });
                match guarded(|| generator.generate_raw(&test.body, &args, module_name)) {
                    Ok(post) => programs_json(&mut entry, post, verif_hooks::drain(), emit_named),
                    Err(panic) => {
                        entry["gen_panic"] = json!(panic);
                        let _ = verif_hooks::drain();
                        generator = new_generator(&world, plutus, tracing);
                    }
                }
                entries.push(entry);
            }

            Definition::Validator(validator) => {
                let mut entry = json!({
                    "kind": "validator",
                    "name": validator.name,
                    "params": params_json(&describer, &validator.params),
                    "ret": {"k": "void"},
                    "handlers": validator.handlers.iter().map(|h| json!({
                        "name": h.name,
                        "params": params_json(&describer, &h.arguments),
                    })).collect::<Vec<_>>(),
                    "pre": null,
                    "post": null,
                    "gen_panic": null,
                });
                match guarded(|| generator.generate(validator, module_name)) {
                    Ok(post) => programs_json(&mut entry, post, verif_hooks::drain(), emit_named),
                    Err(panic) => {
                        entry["gen_panic"] = json!(panic);
                        let _ = verif_hooks::drain();
                        generator = new_generator(&world, plutus, tracing);
                    }
                }
                entries.push(entry);
            }

            _ => {}
        }
    }

    Ok(json!({"Ok": {
        "module": module_name,
        "functions": entries,
        "warnings": world.warnings.len(),
        "warning_list": warnings_json(&world.warnings),
    }}))
}
