//! TYPEDESC: a JSON description of an `Rc<aiken_lang::tipo::Type>` that is sufficient to build
//! the Plutus `Data` representation of any value of that type (see ../PROTOCOL.md).
//!
//! This is a plain structural walk over the public `Type` / `TypedDataType` definitions. Generic
//! parameters of data types are substituted here (not with the compiler's own
//! `find_and_replace_generics`), so the description does not depend on code-generation internals.

use aiken_lang::{
    ast::{DataTypeKey, Decorator, DecoratorKind, TypedDataType},
    tipo::{Type, TypeVar},
};
use indexmap::IndexMap;
use serde_json::{Value, json};
use std::{collections::HashMap, rc::Rc};

const MAX_DEPTH: usize = 48;

/// Follow `Var -> Link` chains.
pub fn resolve(t: &Rc<Type>) -> Rc<Type> {
    let mut cur = t.clone();
    loop {
        let next = match cur.as_ref() {
            Type::Var { tipo, .. } => match &*tipo.borrow() {
                TypeVar::Link { tipo } => Some(tipo.clone()),
                _ => None,
            },
            _ => None,
        };
        match next {
            Some(n) => cur = n,
            None => return cur,
        }
    }
}

/// Id of a generic / unbound type variable (after resolving links).
fn var_id(t: &Type) -> Option<u64> {
    match t {
        Type::Var { tipo, .. } => match &*tipo.borrow() {
            TypeVar::Generic { id } | TypeVar::Unbound { id } => Some(*id),
            TypeVar::Link { .. } => None,
        },
        _ => None,
    }
}

/// Does the type mention a function type, or a generic/unbound variable, anywhere?
/// Returns the reason if so.
pub fn not_first_order(t: &Rc<Type>) -> Option<&'static str> {
    let t = resolve(t);
    match t.as_ref() {
        Type::Fn { .. } => Some("function-typed parameter"),
        Type::Var { .. } => Some("generic parameter"),
        Type::App { args, .. } => args.iter().find_map(not_first_order),
        Type::Tuple { elems, .. } => elems.iter().find_map(not_first_order),
        Type::Pair { fst, snd, .. } => not_first_order(fst).or_else(|| not_first_order(snd)),
    }
}

/// Substitute type variables by id.
fn subst(t: &Rc<Type>, map: &HashMap<u64, Rc<Type>>) -> Rc<Type> {
    let t = resolve(t);
    match t.as_ref() {
        Type::Var { .. } => match var_id(&t).and_then(|id| map.get(&id)) {
            Some(r) => r.clone(),
            None => t.clone(),
        },
        Type::App {
            public,
            module,
            name,
            args,
            alias,
        } => Rc::new(Type::App {
            public: *public,
            module: module.clone(),
            name: name.clone(),
            args: args.iter().map(|a| subst(a, map)).collect(),
            alias: alias.clone(),
        }),
        Type::Fn { args, ret, alias } => Rc::new(Type::Fn {
            args: args.iter().map(|a| subst(a, map)).collect(),
            ret: subst(ret, map),
            alias: alias.clone(),
        }),
        Type::Tuple { elems, alias } => Rc::new(Type::Tuple {
            elems: elems.iter().map(|a| subst(a, map)).collect(),
            alias: alias.clone(),
        }),
        Type::Pair { fst, snd, alias } => Rc::new(Type::Pair {
            fst: subst(fst, map),
            snd: subst(snd, map),
            alias: alias.clone(),
        }),
    }
}

/// A stable textual key for a type, e.g. `my/mod.Tree<Int>`; used for `{"k":"ref"}`.
pub fn type_key(t: &Rc<Type>) -> String {
    let t = resolve(t);
    let join = |ts: &[Rc<Type>]| ts.iter().map(type_key).collect::<Vec<_>>().join(",");
    match t.as_ref() {
        Type::App {
            module, name, args, ..
        } => {
            let mut s = if module.is_empty() {
                name.clone()
            } else {
                format!("{module}.{name}")
            };
            if !args.is_empty() {
                s.push_str(&format!("<{}>", join(args)));
            }
            s
        }
        Type::Fn { args, ret, .. } => format!("fn({}) -> {}", join(args), type_key(ret)),
        Type::Var { .. } => match var_id(&t) {
            Some(id) => format!("?{id}"),
            None => "?".to_string(),
        },
        Type::Tuple { elems, .. } => format!("({})", join(elems)),
        Type::Pair { fst, snd, .. } => format!("Pair<{},{}>", type_key(fst), type_key(snd)),
    }
}

fn decorators_json(ds: &[Decorator]) -> Value {
    Value::Array(
        ds.iter()
            .map(|d| match &d.kind {
                DecoratorKind::Tag { value, .. } => json!(format!("tag({value})")),
                DecoratorKind::List => json!("list"),
                #[allow(unreachable_patterns)]
                other => json!(format!("{other:?}")),
            })
            .collect(),
    )
}

pub struct Describer<'a> {
    pub data_types: &'a IndexMap<DataTypeKey, TypedDataType>,
}

impl Describer<'_> {
    pub fn describe(&self, t: &Rc<Type>) -> Value {
        self.go(t, &mut Vec::new())
    }

    fn go(&self, t: &Rc<Type>, stack: &mut Vec<String>) -> Value {
        let t = resolve(t);
        match t.as_ref() {
            Type::Fn { .. } => json!({"k": "fn"}),
            Type::Var { .. } => json!({"k": "var", "id": var_id(&t)}),
            Type::Tuple { elems, .. } => json!({
                "k": "tuple",
                "elems": elems.iter().map(|e| self.go(e, stack)).collect::<Vec<_>>(),
            }),
            Type::Pair { fst, snd, .. } => json!({
                "k": "pair",
                "fst": self.go(fst, stack),
                "snd": self.go(snd, stack),
            }),
            Type::App {
                module, name, args, ..
            } => {
                if module.is_empty() {
                    let prim = match (name.as_str(), args.len()) {
                        ("Int", 0) => Some("int"),
                        ("ByteArray", 0) => Some("bytes"),
                        ("Bool", 0) => Some("bool"),
                        ("String", 0) => Some("string"),
                        ("Void", 0) => Some("void"),
                        ("Data", 0) => Some("data"),
                        ("G1Element", 0) => Some("g1"),
                        ("G2Element", 0) => Some("g2"),
                        ("MillerLoopResult", 0) => Some("ml"),
                        _ => None,
                    };
                    if let Some(k) = prim {
                        return json!({"k": k});
                    }
                    if name == "List" && args.len() == 1 {
                        return json!({"k": "list", "elem": self.go(&args[0], stack)});
                    }
                }
                self.adt(&t, module, name, args, stack)
            }
        }
    }

    fn adt(
        &self,
        t: &Rc<Type>,
        module: &str,
        name: &str,
        args: &[Rc<Type>],
        stack: &mut Vec<String>,
    ) -> Value {
        let key = type_key(t);
        if stack.contains(&key) {
            return json!({"k": "ref", "name": key});
        }
        if stack.len() >= MAX_DEPTH {
            // polymorphic recursion (`type T<a> { T(T<List<a>>) }`) never repeats a key
            return json!({"k": "ref", "name": key, "truncated": true});
        }

        let Some(dt) = self.data_types.get(&DataTypeKey {
            module_name: module.to_string(),
            defined_type: name.to_string(),
        }) else {
            return json!({
                "k": "adt_unknown",
                "module": module,
                "name": name,
                "args": args.iter().map(|a| self.go(a, stack)).collect::<Vec<_>>(),
            });
        };

        // type parameters of the definition -> type arguments at this use site
        let mut map = HashMap::new();
        for (param, arg) in dt.typed_parameters.iter().zip(args.iter()) {
            if let Some(id) = var_id(&resolve(param)) {
                map.insert(id, resolve(arg));
            }
        }

        let args_json = args.iter().map(|a| self.go(a, stack)).collect::<Vec<_>>();

        stack.push(key);
        let constructors = dt
            .constructors
            .iter()
            .enumerate()
            .map(|(index, c)| {
                json!({
                    "name": c.name,
                    "index": index,
                    "decorators": decorators_json(&c.decorators),
                    "fields": c.arguments.iter().map(|f| json!({
                        "label": f.label,
                        "type": self.go(&subst(&f.tipo, &map), stack),
                    })).collect::<Vec<_>>(),
                })
            })
            .collect::<Vec<_>>();
        stack.pop();

        // Same condition as the compiler's `check_replaceable_opaque_type`: such a type has no
        // representation of its own, values are represented as their single field.
        let transparent = dt.opaque
            && dt.decorators.is_empty()
            && dt.constructors.len() == 1
            && dt.constructors[0].arguments.len() == 1;

        json!({
            "k": "adt",
            "module": module,
            "name": name,
            "args": args_json,
            "opaque": dt.opaque,
            "transparent": transparent,
            "decorators": decorators_json(&dt.decorators),
            "constructors": constructors,
        })
    }
}
