//! drv-project: the blueprint layer of `aiken-project` (src/blueprint/{mod,schema,definitions,
//! parameter,validator}.rs) over ONE Aiken module given as source text (see ../PROTOCOL.md).
//!
//! The module is compiled exactly like drv-lang's `compile` does; on top of that a
//! `CheckedModule` / `CheckedModules` is built the way `aiken-project/src/tests/mod.rs::TestProject`
//! does it (that helper is `#[cfg(test)]`; everything it needs is public).

// TYPEDESC is shared with drv-lang at the source level (drv-lang stays untouched).
#[allow(dead_code)]
#[path = "../../drv-lang/src/typedesc.rs"]
mod typedesc;

use aiken_lang::{
    IdGenerator,
    ast::{
        DataTypeKey, Definition, FunctionAccessKey, ModuleKind, TraceLevel, Tracing,
        TypedDataType, TypedFunction,
    },
    builtins,
    expr::TypedExpr,
    gen_uplc::{CodeGenerator, verif_hooks},
    line_numbers::LineNumbers,
    parser,
    plutus_version::PlutusVersion,
    tipo::{self, Type, TypeInfo},
};
use aiken_project::{
    blueprint::{
        self,
        definitions::{Definitions, Reference},
        parameter::Parameter,
        schema::{self, Annotated, Schema},
        validator::Validator,
    },
    module::{CheckedModule, CheckedModules},
};
use drv_common::{
    json,
    ops::{self, debug_limited, display_limited, field, str_field, variant_name},
    server::{self, OpResult, UNKNOWN_OP, guarded},
};
use indexmap::IndexMap;
use miette::Diagnostic;
use serde_json::{Value, json};
use std::{collections::HashMap, path::PathBuf, rc::Rc};
use typedesc::Describer;
use uplc::ast::{DeBruijn, SerializableProgram};

const STACK_MIB: usize = 256;
const PACKAGE: &str = "test/project";
const DEFAULT_MODULE: &str = "test/mod";
const TEXT_LIMIT: usize = 4000;

fn main() {
    server::serve(STACK_MIB, handle);
}

fn handle(op: &str, req: &Value) -> OpResult {
    match op {
        "ping" => Ok(json!({"pong": true})),
        "blueprint" => op_blueprint(req),
        "schema" => op_schema(req),
        "apply" => op_apply(req),
        "validate_param" => op_validate_param(req),
        _ => Err(UNKNOWN_OP.to_string()),
    }
}

// ---------------------------------------------------------------------------------------------
// request options (same fields, defaults and messages as drv-lang)

fn tracing_of(req: &Value) -> Result<Tracing, String> {
    let level = match str_field(req, "tracing", "silent")? {
        "silent" => TraceLevel::Silent,
        "compact" => TraceLevel::Compact,
        "verbose" => TraceLevel::Verbose,
        other => {
            return Err(format!(
                "field \"tracing\": expected silent|compact|verbose, got {other:?}"
            ));
        }
    };
    match str_field(req, "scope", "all")? {
        "all" => Ok(Tracing::All(level)),
        "user" => Ok(Tracing::UserDefined(level)),
        "compiler" => Ok(Tracing::CompilerGenerated(level)),
        other => Err(format!(
            "field \"scope\": expected all|user|compiler, got {other:?}"
        )),
    }
}

fn plutus_of(req: &Value) -> Result<PlutusVersion, String> {
    match str_field(req, "plutus", "v3")? {
        "v1" => Ok(PlutusVersion::V1),
        "v2" => Ok(PlutusVersion::V2),
        "v3" => Ok(PlutusVersion::V3),
        other => Err(format!(
            "field \"plutus\": expected v1|v2|v3, got {other:?}"
        )),
    }
}

// ---------------------------------------------------------------------------------------------
// front-end: parse + infer + CheckedModule(s)

/// Everything the code generator and the blueprint code need, owned.
struct World {
    module_name: String,
    /// The one checked module, inside the collection the blueprint code wants. Its `ast` is the
    /// typed module.
    modules: CheckedModules,
    warnings: usize,
    functions: IndexMap<FunctionAccessKey, TypedFunction>,
    constants: IndexMap<FunctionAccessKey, TypedExpr>,
    data_types: IndexMap<DataTypeKey, TypedDataType>,
    module_types: HashMap<String, TypeInfo>,
    module_sources: HashMap<String, (String, LineNumbers)>,
}

impl World {
    fn checked(&self) -> &CheckedModule {
        self.modules
            .get(&self.module_name)
            .expect("the module was inserted under its own name")
    }

    fn modules_map(&self) -> &HashMap<String, CheckedModule> {
        (&self.modules).into()
    }
}

fn help_of(d: &dyn Diagnostic) -> Option<String> {
    d.help().map(|h| display_limited(&h, TEXT_LIMIT))
}

/// Parse and type-check `src`; `Err(json)` is the `{"stage":..}` error object of the protocol
/// (same shape as drv-lang's).
fn front_end(req: &Value, tracing: Tracing) -> Result<Result<World, Value>, String> {
    let src = field(req, "src")?
        .as_str()
        .ok_or_else(|| "field \"src\": expected a string".to_string())?
        .to_string();
    let module_name = str_field(req, "module", DEFAULT_MODULE)?.to_string();
    let kind = ModuleKind::Validator;

    // -- parse
    let (mut untyped, extra) = match parser::module(&src, kind) {
        Ok(ok) => ok,
        Err(errs) => {
            let text = errs
                .iter()
                .map(|e| {
                    let mut t = display_limited(e, TEXT_LIMIT);
                    if let Some(h) = help_of(e) {
                        t.push_str("\nhelp: ");
                        t.push_str(&h);
                    }
                    t
                })
                .collect::<Vec<_>>()
                .join("\n");
            let kind = errs
                .first()
                .map(|e| variant_name(&*e.kind))
                .unwrap_or_default();
            return Ok(Err(json!({
                "stage": "parse",
                "kind": kind,
                "text": text,
                "count": errs.len(),
            })));
        }
    };
    untyped.name.clone_from(&module_name);

    // -- the world before this module: prelude + builtins (`TestProject::new`)
    let id_gen = IdGenerator::new();
    let mut module_types = HashMap::new();
    module_types.insert(builtins::PRELUDE.to_string(), builtins::prelude(&id_gen));
    module_types.insert(builtins::BUILTIN.to_string(), builtins::plutus(&id_gen));
    let mut functions = builtins::prelude_functions(&id_gen, &module_types);
    let mut data_types = builtins::prelude_data_types(&id_gen);
    let mut constants = IndexMap::new();

    // -- type-check (`TestProject::check`)
    let mut warnings = vec![];
    let ast = match untyped.infer(
        &id_gen,
        kind,
        PACKAGE,
        &module_types,
        tracing,
        &mut warnings,
        None,
    ) {
        Ok(ast) => ast,
        Err(e) => {
            let mut err = json!({
                "stage": "check",
                "kind": variant_name(&e),
                "text": display_limited(&e, TEXT_LIMIT),
                "help": help_of(&e),
                "debug": debug_limited(&e, TEXT_LIMIT),
            });
            match &e {
                tipo::error::Error::NotExhaustivePatternMatch {
                    unmatched, is_let, ..
                } => {
                    err["unmatched"] = json!(unmatched);
                    err["is_let"] = json!(is_let);
                }
                tipo::error::Error::RedundantMatchClause { .. } => {
                    err["redundant"] = json!(true);
                }
                _ => {}
            }
            return Ok(Err(err));
        }
    };

    ast.register_definitions(&mut functions, &mut constants, &mut data_types);

    let mut module_sources = HashMap::new();
    module_sources.insert(module_name.clone(), (src.clone(), LineNumbers::new(&src)));
    module_types.insert(module_name.clone(), ast.type_info.clone());

    let mut checked = CheckedModule {
        kind,
        extra,
        name: module_name.clone(),
        code: src,
        package: PACKAGE.to_string(),
        input_path: PathBuf::new(),
        ast,
    };
    checked.attach_doc_and_module_comments();

    Ok(Ok(World {
        module_name,
        modules: CheckedModules::singleton(checked),
        warnings: warnings.len(),
        functions,
        constants,
        data_types,
        module_types,
        module_sources,
    }))
}

fn new_generator<'a>(world: &'a World, plutus: PlutusVersion, tracing: Tracing) -> CodeGenerator<'a> {
    CodeGenerator::new(
        plutus,
        world.functions.iter().collect(),
        world.constants.iter().collect(),
        world.data_types.iter().collect(),
        world
            .module_types
            .iter()
            .map(|(k, v)| (k.as_str(), v))
            .collect(),
        world
            .module_sources
            .iter()
            .map(|(k, v)| (k.as_str(), v))
            .collect(),
        tracing,
    )
}

// ---------------------------------------------------------------------------------------------
// encodings

/// `serde_json::to_value` of a real blueprint value; a failing `Serialize` impl is reported in
/// place rather than hidden.
fn ser<T: serde::Serialize>(x: &T) -> Value {
    match serde_json::to_value(x) {
        Ok(v) => v,
        Err(e) => json!({"serialize_error": e.to_string()}),
    }
}

/// `{variant, text, help}` (+ `context` for `Error::Schema`) of a blueprint error.
fn blueprint_error_json(e: &blueprint::Error) -> Value {
    let mut v = ops::error_to_json(e);
    v["help"] = json!(guarded(|| help_of(e)).unwrap_or_else(|p| Some(format!("<help panicked: {p}>"))));
    if let blueprint::Error::Schema { error, location, .. } = e {
        v["context"] = json!(variant_name(&error.context()));
        v["location"] = json!([location.start, location.end]);
    }
    v
}

/// `{variant, text, help}` of a schema error; `variant` is the `ErrorContext` variant.
fn schema_error_json(e: &schema::Error) -> Value {
    json!({
        "variant": variant_name(&e.context()),
        "text": display_limited(e, ops::ERROR_TEXT_LIMIT),
        "help": guarded(|| display_limited(&e.help(), TEXT_LIMIT))
            .unwrap_or_else(|p| format!("<help panicked: {p}>")),
    })
}

/// `program` / `hex` / `hash` of a `SerializableProgram`: the debruijn TERM JSON plus the two
/// fields its own `Serialize` impl publishes in plutus.json (`compiledCode`, `hash`).
fn program_fields(entry: &mut Value, program: &SerializableProgram) {
    entry["program"] = json::program_to_json::<DeBruijn>(program.inner());
    entry["plutus"] = json!(match program {
        SerializableProgram::PlutusV1Program(_) => "v1",
        SerializableProgram::PlutusV2Program(_) => "v2",
        SerializableProgram::PlutusV3Program(_) => "v3",
    });
    let published = ser(program);
    entry["hex"] = published.get("compiledCode").cloned().unwrap_or(Value::Null);
    entry["hash"] = published.get("hash").cloned().unwrap_or(Value::Null);
    if let Some(e) = published.get("serialize_error") {
        entry["serialize_error"] = e.clone();
    }
}

fn validator_json(v: &Validator<SerializableProgram>) -> Value {
    let mut entry = json!({
        "title": v.title,
        "description": v.description,
        "parameters": v.parameters.iter().map(ser).collect::<Vec<_>>(),
        "datum": v.datum.as_ref().map(ser),
        "redeemer": v.redeemer.as_ref().map(ser),
        "definitions": ser(&v.definitions),
    });
    program_fields(&mut entry, &v.program);
    entry
}

// ---------------------------------------------------------------------------------------------
// blueprint

/// What the real code produced for one `validator` definition.
enum Built {
    Ok(Vec<Validator<SerializableProgram>>),
    Err { title: String, err: Value },
    Panic { title: String, panic: String },
}

/// Runs the real `Validator::from_checked_module` on every `validator` definition of the module,
/// in the order `CheckedModules::validators()` yields them, with one shared code generator (as
/// `Blueprint::new` does).
fn build_validators(world: &World, plutus: PlutusVersion, tracing: Tracing) -> Vec<Built> {
    let mut generator = new_generator(world, plutus, tracing);
    let _ = verif_hooks::drain();
    let mut out = vec![];

    for (module, def) in world.modules.validators() {
        let title = format!("{}.{}", module.name, def.name);
        let result = guarded(|| {
            Validator::from_checked_module(&world.modules, &mut generator, module, def, &plutus)
        });
        let _ = verif_hooks::drain();
        out.push(match result {
            Ok(Ok(vs)) => Built::Ok(vs),
            Ok(Err(e)) => Built::Err {
                title,
                err: blueprint_error_json(&e),
            },
            Err(panic) => {
                // a panic may leave the generator half-updated
                generator = new_generator(world, plutus, tracing);
                Built::Panic { title, panic }
            }
        });
    }
    out
}

/// The blueprint-level definitions, merged exactly like `Blueprint::new` does.
fn merged_definitions(built: &[Built]) -> Definitions<Annotated<Schema>> {
    let mut merged = Definitions::new();
    for b in built {
        if let Built::Ok(vs) = b {
            for v in vs {
                merged.merge(&mut v.definitions.clone());
            }
        }
    }
    merged
}

fn op_blueprint(req: &Value) -> OpResult {
    let tracing = tracing_of(req)?;
    let plutus = plutus_of(req)?;
    let world = match front_end(req, tracing)? {
        Ok(w) => w,
        Err(e) => return Ok(json!({"Err": e})),
    };

    let built = build_validators(&world, plutus, tracing);
    let merged = merged_definitions(&built);

    let mut validators = vec![];
    for b in &built {
        match b {
            Built::Ok(vs) => {
                for v in vs {
                    validators.push(match guarded(|| validator_json(v)) {
                        Ok(j) => j,
                        Err(panic) => json!({"title": v.title, "panic": panic, "panic_stage": "encode"}),
                    });
                }
            }
            Built::Err { title, err } => validators.push(json!({"title": title, "err": err})),
            Built::Panic { title, panic } => {
                validators.push(json!({"title": title, "panic": panic}))
            }
        }
    }

    Ok(json!({"Ok": {
        "module": world.module_name,
        "warnings": world.warnings,
        "validators": validators,
        "definitions": ser(&merged),
    }}))
}

// ---------------------------------------------------------------------------------------------
// schema

/// One call of the real `Annotated::<Schema>::from_type`, reported into `entry`
/// (`schema`, `resolved`, `err`, `panic`).
fn from_type_into(
    entry: &mut Value,
    world: &World,
    tipo: &Type,
    definitions: &mut Definitions<Annotated<Schema>>,
) {
    match guarded(|| Annotated::<Schema>::from_type(world.modules_map(), tipo, definitions)) {
        Ok(Ok(reference)) => {
            entry["schema"] = ser::<Reference>(&reference);
            entry["resolved"] = definitions.try_lookup(&reference).map(ser).unwrap_or(Value::Null);
        }
        Ok(Err(e)) => {
            entry["schema"] = Value::Null;
            entry["err"] = schema_error_json(&e);
        }
        Err(panic) => {
            entry["schema"] = Value::Null;
            entry["panic"] = json!(panic);
        }
    }
}

fn op_schema(req: &Value) -> OpResult {
    let tracing = tracing_of(req)?;
    let isolate = ops::opt_field(req, "isolate")
        .and_then(|v| v.as_bool())
        .unwrap_or(false);
    let finalize = ops::opt_field(req, "finalize")
        .and_then(|v| v.as_bool())
        .unwrap_or(false);
    let world = match front_end(req, tracing)? {
        Ok(w) => w,
        Err(e) => return Ok(json!({"Err": e})),
    };
    let describer = Describer {
        data_types: &world.data_types,
    };
    let module_name = world.module_name.as_str();

    // Shared by every `from_type` call of this request (unless "isolate").
    let mut shared = Definitions::new();

    // One call, either on the shared definitions or on fresh ones (then published in the entry).
    // Every reference handed out, as the parameters `prune_orphan_pairs` starts from ("finalize").
    let mut roots: Vec<Parameter> = vec![];
    let mut call = |entry: &mut Value, tipo: &Type| {
        if isolate {
            let mut own = Definitions::new();
            from_type_into(entry, &world, tipo, &mut own);
            entry["definitions"] = ser(&own);
        } else {
            from_type_into(entry, &world, tipo, &mut shared);
            if let Ok(reference) = serde_json::from_value::<Reference>(entry["schema"].clone()) {
                roots.push(Parameter::from(reference));
            }
        }
    };

    let mut types = vec![];
    let mut functions = vec![];

    for def in world.checked().ast.definitions() {
        match def {
            Definition::DataType(dt) if dt.public && dt.parameters.is_empty() => {
                // The type as `Environment::register_types` builds it for a data-type definition.
                let tipo = Rc::new(Type::App {
                    public: true,
                    module: module_name.to_string(),
                    name: dt.name.clone(),
                    args: vec![],
                    alias: None,
                });
                let registered = world
                    .checked()
                    .ast
                    .type_info
                    .types
                    .get(&dt.name)
                    .map(|c| c.tipo == tipo);
                let mut entry = json!({
                    "name": dt.name,
                    "opaque": dt.opaque,
                    "type": describer.describe(&tipo),
                    "same_as_type_info": registered,
                });
                call(&mut entry, &tipo);
                types.push(entry);
            }

            Definition::Fn(func) => {
                let mut entry = json!({"name": func.name, "public": func.public});
                if let Some(reason) = func
                    .arguments
                    .iter()
                    .find_map(|a| typedesc::not_first_order(&a.tipo))
                {
                    entry["skipped"] = json!(reason);
                } else {
                    let mut params = vec![];
                    for a in &func.arguments {
                        let mut p = json!({
                            "name": a.arg_name.get_name(),
                            "type": describer.describe(&a.tipo),
                        });
                        call(&mut p, &a.tipo);
                        params.push(p);
                    }
                    entry["params"] = Value::Array(params);
                }
                functions.push(entry);
            }

            _ => {}
        }
    }

    let mut ok = json!({
        "module": module_name,
        "types": types,
        "functions": functions,
    });
    if !isolate {
        ok["definitions"] = ser(&shared);
        if finalize {
            // What `Validator::create_validator_blueprint` does to its definitions once all
            // parameters/datum/redeemer went through `from_type`.
            match guarded(|| {
                shared
                    .prune_orphan_pairs(roots.iter().collect())
                    .replace_pairs_with_data_lists();
            }) {
                Ok(()) => ok["definitions_final"] = ser(&shared),
                Err(panic) => ok["finalize_panic"] = json!(panic),
            }
        }
    }
    Ok(json!({"Ok": ok}))
}

// ---------------------------------------------------------------------------------------------
// apply

fn op_apply(req: &Value) -> OpResult {
    let tracing = tracing_of(req)?;
    let plutus = plutus_of(req)?;
    let wanted = field(req, "validator")?
        .as_str()
        .ok_or_else(|| "field \"validator\": expected a string".to_string())?;
    let params = field(req, "params")?
        .as_array()
        .ok_or_else(|| "field \"params\": expected an array of DATA".to_string())?
        .iter()
        .map(json::data_from_json)
        .collect::<Result<Vec<_>, _>>()?;

    let world = match front_end(req, tracing)? {
        Ok(w) => w,
        Err(e) => return Ok(json!({"Err": e})),
    };

    let built = build_validators(&world, plutus, tracing);
    let definitions = merged_definitions(&built);

    let mut known = vec![];
    let mut found = None;
    for b in &built {
        match b {
            Built::Ok(vs) => {
                for v in vs {
                    known.push(v.title.clone());
                    if v.title == wanted && found.is_none() {
                        found = Some(v.clone());
                    }
                }
            }
            Built::Err { title, err } => known.push(format!("{title} (err: {})", err["variant"])),
            Built::Panic { title, .. } => known.push(format!("{title} (panic)")),
        }
    }
    let Some(mut validator) = found else {
        return Err(format!(
            "field \"validator\": no validator titled {wanted:?}; known: {known:?}"
        ));
    };

    let mut steps = vec![];
    for data in &params {
        // `apply` consumes the validator: work on a clone so that a panic loses nothing.
        match guarded(|| validator.clone().apply(&definitions, data)) {
            Ok(Ok(next)) => {
                let mut ok = json!({"remaining_parameters": next.parameters.len()});
                match guarded(|| program_fields(&mut ok, &next.program)) {
                    Ok(()) => steps.push(json!({"Ok": ok})),
                    Err(panic) => {
                        steps.push(json!({"panic": panic, "panic_stage": "encode"}));
                        break;
                    }
                }
                validator = next;
            }
            Ok(Err(e)) => {
                steps.push(json!({"Err": blueprint_error_json(&e)}));
                break;
            }
            Err(panic) => {
                steps.push(json!({"panic": panic}));
                break;
            }
        }
    }

    Ok(json!({"Ok": {"title": validator.title, "steps": steps}}))
}

// ---------------------------------------------------------------------------------------------
// validate_param

fn op_validate_param(req: &Value) -> OpResult {
    let parameter: Parameter = serde_json::from_value(field(req, "parameter")?.clone())
        .map_err(|e| format!("field \"parameter\": {e}"))?;
    let definitions: Definitions<Annotated<Schema>> = match ops::opt_field(req, "definitions") {
        None => Definitions::new(),
        Some(v) => serde_json::from_value(v.clone())
            .map_err(|e| format!("field \"definitions\": {e}"))?,
    };
    let constant = json::constant_from_json(field(req, "constant")?)?;

    Ok(match guarded(|| parameter.validate(&definitions, &constant)) {
        Ok(Ok(())) => json!({"Ok": null}),
        Ok(Err(e)) => json!({"Err": blueprint_error_json(&e)}),
        Err(panic) => json!({"panic": panic}),
    })
}
