#!/usr/bin/env bash
# Builds the driver binaries (offline) and pipes a few requests through each one.
# Responses are printed one per line, long ones cut at $CUT characters (default 900; CUT=0: no cut).
set -euo pipefail

HERE="$(cd "$(dirname "${BASH_SOURCE[0]}")" && pwd)"
TARGET="${CARGO_TARGET_DIR:-/verif/.cache/driver-target}"
CUT="${CUT:-900}"

cd "$HERE"
CARGO_NET_OFFLINE=true cargo build --offline -j "${JOBS:-12}" --target-dir "$TARGET" -p drv-uplc -p drv-lang -p drv-project

UPLC="$TARGET/debug/drv-uplc"
LANG_BIN="$TARGET/debug/drv-lang"
PROJECT_BIN="$TARGET/debug/drv-project"

show() { if [ "$CUT" = 0 ]; then cat; else cut -c1-"$CUT"; fi; }

echo "=== drv-uplc"
"$UPLC" <<'EOF' | show
{"op":"ping","id":0}
{"op":"eval","id":1,"term":{"app":[{"app":[{"builtin":"addInteger"},{"con":{"int":"1"}}]},{"con":{"int":"2"}}]}}
{"op":"eval","id":2,"term":{"app":[{"lam":{"error":null}},{"con":{"unit":null}}]},"lang":"v2","budget":[1000000,1000000]}
{"op":"eval","id":3,"term":{"app":[{"app":[{"builtin_tag":3},{"con":{"int":"1"}}]},{"con":{"int":"0"}}]},"protocol":10}
{"op":"to_flat","id":4,"program":{"version":[1,1,0],"term":{"lam":{"app":[{"app":[{"builtin":"equalsData"},{"var":1}]},{"con":{"data":{"constr":[7,[{"i":"-5"},{"b":"ff"},{"list":[]},{"map":[[{"i":"340282366920938463463374607431768211456"},{"i":"-340282366920938463463374607431768211457"}]]}]]}}}]}}}}
{"op":"from_flat","id":5,"hex":"010000200101","binder":"fake_named_debruijn"}
{"op":"parse","id":6,"text":"(program 1.1.0 (lam x [(builtin addInteger) x (con integer 2)]))"}
{"op":"convert","id":7,"from":"name","to":"debruijn","program":{"version":[1,1,0],"term":{"lam":[{"text":"x","unique":0},{"var":{"text":"y","unique":1}}]}}}
{"op":"pretty","id":8,"binder":"debruijn","program":{"version":[1,0,0],"term":{"lam":{"force":{"delay":{"var":1}}}}}}
{"op":"optimize","id":9,"program":{"version":[1,1,0],"term":{"app":[{"lam":[{"text":"x","unique":0},{"var":{"text":"x","unique":0}}]},{"con":{"int":"7"}}]}}}
{"op":"builtins","id":10}
{"op":"nope","id":11}
this is not json
EOF

echo "=== drv-uplc: from_flat(to_flat(p)) round trip"
P='{"version":[1,1,0],"term":{"lam":{"case":[{"constr":[1,[{"var":1},{"con":{"list":["integer",[{"int":"1"},{"int":"-2"}]]}}]]},[{"error":null},{"lam":{"lam":{"force":{"delay":{"var":2}}}}}]]}}}'
HEX=$(echo "{\"op\":\"to_flat\",\"program\":$P}" | "$UPLC" | python3 -c 'import sys,json; print(json.load(sys.stdin)["hex"])')
BACK=$(echo "{\"op\":\"from_flat\",\"hex\":\"$HEX\"}" | "$UPLC")
echo "hex:  $HEX"
echo "back: $BACK" | show
python3 - "$P" "$BACK" <<'EOF'
import sys, json
p, back = json.loads(sys.argv[1]), json.loads(sys.argv[2])
assert back == {"Ok": p}, "round trip mismatch"
print("round trip OK")
EOF

echo "=== drv-lang"
SRC='pub fn add(a: Int, b: Int) -> Int { a + b }\n\npub type Shape { Circle(Int) Rect { w: Int, h: Int } }\n\npub fn area(s: Shape) -> Int { when s is { Circle(r) -> r * r\n Rect { w, h } -> w * h } }\n\ntest t1() { add(1, 2) == 3 }'
COMPILED=$(echo "{\"op\":\"compile\",\"id\":1,\"src\":\"$SRC\"}" | "$LANG_BIN")
echo "$COMPILED" | show
python3 - "$COMPILED" > /tmp/drv-smoke-reqs.jsonl <<'EOF'
import sys, json
r = json.loads(sys.argv[1])["Ok"]
fs = {f["name"]: f for f in r["functions"]}
print("functions:", [(f["kind"], f["name"], f["pre"] is not None, f["post"] is not None) for f in r["functions"]], file=sys.stderr)
print("area param type:", json.dumps(fs["area"]["params"][0]["type"]), file=sys.stderr)
def app(f, *xs):
    for x in xs:
        f = {"app": [f, x]}
    return f
I = lambda n: {"con": {"data": {"i": str(n)}}}
rect = {"con": {"data": {"constr": [1, [{"i": "6"}, {"i": "7"}]]}}}
reqs = [
    {"op": "eval", "id": "add.post(20,22)", "term": app(fs["add"]["post"]["term"], I(20), I(22))},
    {"op": "eval", "id": "add.pre(20,22)", "term": app(fs["add"]["pre"]["term"], I(20), I(22))},
    {"op": "eval", "id": "add.post(raw ints: wrong calling convention)", "term": app(fs["add"]["post"]["term"], {"con": {"int": "20"}}, {"con": {"int": "22"}})},
    {"op": "eval", "id": "area.post(Rect{6,7})", "term": app(fs["area"]["post"]["term"], rect)},
    {"op": "eval", "id": "area.pre(Rect{6,7})", "term": app(fs["area"]["pre"]["term"], rect)},
    {"op": "eval", "id": "t1.post", "term": fs["t1"]["post"]["term"]},
]
for q in reqs:
    print(json.dumps(q))
EOF
"$LANG_BIN" < /tmp/drv-smoke-reqs.jsonl | show
"$LANG_BIN" <<'EOF' | show
{"op":"check","id":"nonexhaustive","src":"pub type T { A B C }\npub fn f(t: T) -> Int { when t is { A -> 1 } }"}
{"op":"check","id":"redundant","src":"pub fn f(t: Bool) -> Int { when t is { True -> 1\n False -> 0\n True -> 2 } }"}
{"op":"check","id":"parse error","src":"pub fn f( { }"}
{"op":"check","id":"warnings","src":"fn unused() { 1 }\npub fn g(x: Int) { let y = 1\n x }"}
{"op":"compile","id":"kinds","src":"pub type Tree<a> { Leaf Node(Tree<a>, a, Tree<a>) }\npub opaque type Id { inner: ByteArray }\npub fn size(t: Tree<Int>) -> Int { when t is { Leaf -> 0\n Node(l, _, r) -> size(l) + 1 + size(r) } }\npub fn hof(f: fn(Int) -> Int) -> Int { f(1) }\npub fn gen(x: a) -> a { x }\npub fn key(i: Id, o: Option<(Int, ByteArray)>, p: Pair<Int, Bool>) -> ByteArray { i.inner }\nvalidator v(k: Int) { mint(_r: Data, _p: ByteArray, _tx: Data) { k == 1 } else(_) { fail } }"}
EOF

echo "=== drv-project"
PSRC='pub type Colour { Red Green Blue }\npub type Shape { Circle(Int) Rect { w: Int, h: Int } }\npub type Acc { owner: ByteArray, bal: Int, flag: Bool }\npub fn f(a: Shape, b: List<Int>, c: Option<(Int, ByteArray)>) -> Int { 0 }\nvalidator v(p: Int, q: Shape) {\n  spend(_d: Option<Acc>, _r: Colour, _o: Data, _tx: Data) { p > 0 }\n  else(_) { fail }\n}\n'
BLUEPRINT=$(echo "{\"op\":\"blueprint\",\"id\":\"blueprint\",\"src\":\"$PSRC\"}" | "$PROJECT_BIN")
echo "$BLUEPRINT" | show
python3 - "$BLUEPRINT" "$PSRC" > /tmp/drv-smoke-project-reqs.jsonl <<'EOF'
import sys, json
bp = json.loads(sys.argv[1])["Ok"]
src = sys.argv[2].encode().decode("unicode_escape")
vs = bp["validators"]
print("validators:", [(v["title"], len(v.get("parameters", [])), v.get("hash")) for v in vs], file=sys.stderr)
assert [v["title"] for v in vs] == ["test/mod.v.spend", "test/mod.v.else"]
q = vs[0]["parameters"][1]
defs = bp["definitions"]
circle = {"constr": [0, [{"i": "1"}]]}
bad_rect = {"constr": [1, [{"i": "1"}]]}
reqs = [
    {"op": "ping", "id": "ping"},
    {"op": "schema", "id": "schema", "src": src, "finalize": True},
    {"op": "apply", "id": "apply ok", "src": src, "validator": "test/mod.v.spend", "params": [{"i": "3"}, circle]},
    {"op": "apply", "id": "apply Rect with one field (panics in parameter.rs today)", "src": src, "validator": "test/mod.v.spend", "params": [{"i": "3"}, bad_rect]},
    {"op": "apply", "id": "apply bytes for Int", "src": src, "validator": "test/mod.v.else", "params": [{"b": "00"}]},
    {"op": "validate_param", "id": "validate ok", "parameter": q, "definitions": defs, "constant": {"data": circle}},
    {"op": "validate_param", "id": "validate mismatch", "parameter": q, "definitions": defs, "constant": {"data": {"constr": [2, []]}}},
    {"op": "validate_param", "id": "validate inline", "parameter": {"schema": {"dataType": "#integer"}}, "constant": {"int": "1"}},
    {"op": "blueprint", "id": "generic redeemer", "src": "validator g { mint(r: List<a>, _p: ByteArray, _tx: Data) { True } else(_) { fail } }"},
    {"op": "blueprint", "id": "check error", "src": "pub fn f() -> Int { True }"},
]
for r in reqs:
    print(json.dumps(r))
EOF
"$PROJECT_BIN" < /tmp/drv-smoke-project-reqs.jsonl | show
