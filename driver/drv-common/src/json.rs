//! JSON <-> uplc AST conversions (see PROTOCOL.md, "JSON encodings").
//!
//! Everything here is a plain structural walk over the public `uplc::ast` types; no evaluation,
//! no normalisation. Decoders return `Err(String)` on malformed input.

use num_bigint::{BigInt, Sign};
use pallas_primitives::alonzo::{BigInt as PBigInt, Constr, PlutusData};
use serde_json::{Map, Value, json};
use std::{rc::Rc, str::FromStr};
use uplc::{
    ast::{Constant, Data, DeBruijn, Name, NamedDeBruijn, Program, Term, Type, Unique},
    builtins::DefaultFunction,
    machine::runtime::Compressable,
};

pub type R<T> = Result<T, String>;

// ---------------------------------------------------------------------------------------------
// small helpers

pub fn obj1(key: &str, value: Value) -> Value {
    let mut m = Map::with_capacity(1);
    m.insert(key.to_string(), value);
    Value::Object(m)
}

/// The single `(key, value)` of a one-key object.
fn single(v: &Value) -> R<(&str, &Value)> {
    match v {
        Value::Object(m) if m.len() == 1 => {
            let (k, v) = m.iter().next().unwrap();
            Ok((k.as_str(), v))
        }
        _ => Err(format!("expected a one-key object, got {}", preview(v))),
    }
}

fn preview(v: &Value) -> String {
    let mut s = v.to_string();
    if s.len() > 120 {
        let mut cut = 120;
        while !s.is_char_boundary(cut) {
            cut -= 1;
        }
        s.truncate(cut);
        s.push_str("...");
    }
    s
}

fn arr<'a>(v: &'a Value, what: &str) -> R<&'a Vec<Value>> {
    v.as_array()
        .ok_or_else(|| format!("{what}: expected an array, got {}", preview(v)))
}

fn arr_n<'a>(v: &'a Value, n: usize, what: &str) -> R<&'a Vec<Value>> {
    let a = arr(v, what)?;
    if a.len() != n {
        return Err(format!("{what}: expected {n} elements, got {}", a.len()));
    }
    Ok(a)
}

fn string<'a>(v: &'a Value, what: &str) -> R<&'a str> {
    v.as_str()
        .ok_or_else(|| format!("{what}: expected a string, got {}", preview(v)))
}

/// u64 given as a JSON number or as a decimal string.
pub fn u64_of(v: &Value, what: &str) -> R<u64> {
    match v {
        Value::Number(n) => n
            .as_u64()
            .ok_or_else(|| format!("{what}: expected an unsigned 64-bit number, got {n}")),
        Value::String(s) => s
            .parse::<u64>()
            .map_err(|e| format!("{what}: bad u64 {s:?}: {e}")),
        _ => Err(format!("{what}: expected a number, got {}", preview(v))),
    }
}

/// Arbitrary-precision integer given as a decimal string (preferred) or a JSON number.
pub fn bigint_of(v: &Value, what: &str) -> R<BigInt> {
    match v {
        Value::String(s) => {
            BigInt::from_str(s.trim()).map_err(|e| format!("{what}: bad integer {s:?}: {e}"))
        }
        Value::Number(n) => {
            if let Some(i) = n.as_i64() {
                Ok(BigInt::from(i))
            } else if let Some(u) = n.as_u64() {
                Ok(BigInt::from(u))
            } else {
                Err(format!("{what}: non-integral number {n}"))
            }
        }
        _ => Err(format!("{what}: expected a decimal string, got {}", preview(v))),
    }
}

fn hex_of(v: &Value, what: &str) -> R<Vec<u8>> {
    hex::decode(string(v, what)?).map_err(|e| format!("{what}: bad hex: {e}"))
}

// ---------------------------------------------------------------------------------------------
// binders

/// How variables and lambda binders of a given `Term<T>` look in JSON.
pub trait JBinder: Sized + Clone {
    const FORM: &'static str;
    fn var_to_json(&self) -> Value;
    fn var_from_json(v: &Value) -> R<Self>;
    /// `{"lam": <this>}` payload.
    fn lam_to_json(&self, body: Value) -> Value;
    /// Splits a `{"lam": ..}` payload into the binder and the JSON of the body.
    fn lam_from_json(v: &Value) -> R<(Self, &Value)>;
}

impl JBinder for DeBruijn {
    const FORM: &'static str = "debruijn";

    fn var_to_json(&self) -> Value {
        json!(self.inner())
    }

    fn var_from_json(v: &Value) -> R<Self> {
        Ok(DeBruijn::new(u64_of(v, "var")? as usize))
    }

    fn lam_to_json(&self, body: Value) -> Value {
        body
    }

    fn lam_from_json(v: &Value) -> R<(Self, &Value)> {
        // The flat decoder of uplc uses index 0 for every lambda parameter in DeBruijn form.
        Ok((DeBruijn::new(0), v))
    }
}

impl JBinder for NamedDeBruijn {
    const FORM: &'static str = "named_debruijn";

    fn var_to_json(&self) -> Value {
        json!({"text": self.text, "index": self.index.inner()})
    }

    fn var_from_json(v: &Value) -> R<Self> {
        match v {
            // bare index accepted for convenience
            Value::Number(_) => Ok(NamedDeBruijn {
                text: "i".to_string(),
                index: DeBruijn::new(u64_of(v, "var")? as usize),
            }),
            _ => Ok(NamedDeBruijn {
                text: string(v.get("text").unwrap_or(&Value::Null), "var.text")?.to_string(),
                index: DeBruijn::new(
                    u64_of(v.get("index").unwrap_or(&Value::Null), "var.index")? as usize,
                ),
            }),
        }
    }

    fn lam_to_json(&self, body: Value) -> Value {
        json!([self.var_to_json(), body])
    }

    fn lam_from_json(v: &Value) -> R<(Self, &Value)> {
        let a = arr_n(v, 2, "lam (named_debruijn form: [binder, body])")?;
        Ok((Self::var_from_json(&a[0])?, &a[1]))
    }
}

impl JBinder for Name {
    const FORM: &'static str = "name";

    fn var_to_json(&self) -> Value {
        json!({"text": self.text, "unique": isize::from(self.unique)})
    }

    fn var_from_json(v: &Value) -> R<Self> {
        let text = string(v.get("text").unwrap_or(&Value::Null), "var.text")?.to_string();
        let unique = match v.get("unique") {
            None | Some(Value::Null) => 0,
            Some(Value::Number(n)) => n
                .as_i64()
                .ok_or_else(|| format!("var.unique: bad number {n}"))?,
            Some(Value::String(s)) => s
                .parse::<i64>()
                .map_err(|e| format!("var.unique: bad number {s:?}: {e}"))?,
            Some(other) => return Err(format!("var.unique: got {}", preview(other))),
        };
        Ok(Name {
            text,
            unique: Unique::new(unique as isize),
        })
    }

    fn lam_to_json(&self, body: Value) -> Value {
        json!([self.var_to_json(), body])
    }

    fn lam_from_json(v: &Value) -> R<(Self, &Value)> {
        let a = arr_n(v, 2, "lam (name form: [binder, body])")?;
        Ok((Self::var_from_json(&a[0])?, &a[1]))
    }
}

// ---------------------------------------------------------------------------------------------
// terms

pub fn term_to_json<T: JBinder>(t: &Term<T>) -> Value {
    match t {
        Term::Var(n) => obj1("var", n.var_to_json()),
        Term::Delay(b) => obj1("delay", term_to_json(b)),
        Term::Lambda {
            parameter_name,
            body,
        } => obj1("lam", parameter_name.lam_to_json(term_to_json(body))),
        Term::Apply { function, argument } => obj1(
            "app",
            Value::Array(vec![term_to_json(function), term_to_json(argument)]),
        ),
        Term::Constant(c) => obj1("con", constant_to_json(c)),
        Term::Force(b) => obj1("force", term_to_json(b)),
        Term::Error => obj1("error", Value::Null),
        Term::Builtin(f) => obj1("builtin", Value::String(f.to_string())),
        Term::Constr { tag, fields } => obj1(
            "constr",
            json!([*tag as u64, fields.iter().map(term_to_json).collect::<Vec<_>>()]),
        ),
        Term::Case { constr, branches } => obj1(
            "case",
            json!([
                term_to_json(constr),
                branches.iter().map(term_to_json).collect::<Vec<_>>()
            ]),
        ),
    }
}

/// Encode a machine result (always `Term<NamedDeBruijn>`) in the default "debruijn" form:
/// the text is dropped, the index is kept *as is* (no re-indexing pass is run).
pub fn named_debruijn_term_to_debruijn_json(t: &Term<NamedDeBruijn>) -> Value {
    match t {
        Term::Var(n) => obj1("var", json!(n.index.inner())),
        Term::Delay(b) => obj1("delay", named_debruijn_term_to_debruijn_json(b)),
        Term::Lambda { body, .. } => obj1("lam", named_debruijn_term_to_debruijn_json(body)),
        Term::Apply { function, argument } => obj1(
            "app",
            Value::Array(vec![
                named_debruijn_term_to_debruijn_json(function),
                named_debruijn_term_to_debruijn_json(argument),
            ]),
        ),
        Term::Constant(c) => obj1("con", constant_to_json(c)),
        Term::Force(b) => obj1("force", named_debruijn_term_to_debruijn_json(b)),
        Term::Error => obj1("error", Value::Null),
        Term::Builtin(f) => obj1("builtin", Value::String(f.to_string())),
        Term::Constr { tag, fields } => obj1(
            "constr",
            json!([
                *tag as u64,
                fields
                    .iter()
                    .map(named_debruijn_term_to_debruijn_json)
                    .collect::<Vec<_>>()
            ]),
        ),
        Term::Case { constr, branches } => obj1(
            "case",
            json!([
                named_debruijn_term_to_debruijn_json(constr),
                branches
                    .iter()
                    .map(named_debruijn_term_to_debruijn_json)
                    .collect::<Vec<_>>()
            ]),
        ),
    }
}

pub fn term_from_json<T: JBinder>(v: &Value) -> R<Term<T>> {
    let (k, p) = single(v).map_err(|e| format!("term: {e}"))?;
    Ok(match k {
        "var" => Term::Var(Rc::new(T::var_from_json(p)?)),
        "delay" => Term::Delay(Rc::new(term_from_json(p)?)),
        "force" => Term::Force(Rc::new(term_from_json(p)?)),
        "lam" => {
            let (binder, body) = T::lam_from_json(p)?;
            Term::Lambda {
                parameter_name: Rc::new(binder),
                body: Rc::new(term_from_json(body)?),
            }
        }
        "app" => {
            let a = arr_n(p, 2, "app")?;
            Term::Apply {
                function: Rc::new(term_from_json(&a[0])?),
                argument: Rc::new(term_from_json(&a[1])?),
            }
        }
        "con" => Term::Constant(Rc::new(constant_from_json(p)?)),
        "error" => Term::Error,
        "builtin" => {
            let name = string(p, "builtin")?;
            Term::Builtin(
                DefaultFunction::from_str(name)
                    .map_err(|e| format!("builtin: unknown name {name:?}: {e}"))?,
            )
        }
        "builtin_tag" => {
            let tag = u64_of(p, "builtin_tag")?;
            let tag = u8::try_from(tag).map_err(|_| format!("builtin_tag: {tag} > 255"))?;
            Term::Builtin(
                DefaultFunction::try_from(tag)
                    .map_err(|e| format!("builtin_tag: {tag} rejected: {e}"))?,
            )
        }
        "constr" => {
            let a = arr_n(p, 2, "constr")?;
            Term::Constr {
                tag: u64_of(&a[0], "constr tag")? as usize,
                fields: arr(&a[1], "constr fields")?
                    .iter()
                    .map(term_from_json)
                    .collect::<R<Vec<_>>>()?,
            }
        }
        "case" => {
            let a = arr_n(p, 2, "case")?;
            Term::Case {
                constr: Rc::new(term_from_json(&a[0])?),
                branches: arr(&a[1], "case branches")?
                    .iter()
                    .map(term_from_json)
                    .collect::<R<Vec<_>>>()?,
            }
        }
        other => return Err(format!("term: unknown constructor {other:?}")),
    })
}

// ---------------------------------------------------------------------------------------------
// programs

pub fn program_to_json<T: JBinder>(p: &Program<T>) -> Value {
    json!({
        "version": [p.version.0 as u64, p.version.1 as u64, p.version.2 as u64],
        "term": term_to_json(&p.term),
    })
}

pub fn program_from_json<T: JBinder>(v: &Value) -> R<Program<T>> {
    let version = match v.get("version") {
        None | Some(Value::Null) => (1, 1, 0),
        Some(ver) => {
            let a = arr_n(ver, 3, "program.version")?;
            (
                u64_of(&a[0], "version")? as usize,
                u64_of(&a[1], "version")? as usize,
                u64_of(&a[2], "version")? as usize,
            )
        }
    };
    let term = v
        .get("term")
        .ok_or_else(|| "program: missing field \"term\"".to_string())?;
    Ok(Program {
        version,
        term: term_from_json(term)?,
    })
}

// ---------------------------------------------------------------------------------------------
// constants & types

pub fn type_to_json(t: &Type) -> Value {
    match t {
        Type::Bool => json!("bool"),
        Type::Integer => json!("integer"),
        Type::String => json!("string"),
        Type::ByteString => json!("bytestring"),
        Type::Unit => json!("unit"),
        Type::Data => json!("data"),
        Type::Bls12_381G1Element => json!("g1"),
        Type::Bls12_381G2Element => json!("g2"),
        Type::Bls12_381MlResult => json!("ml"),
        Type::List(t) => obj1("list", type_to_json(t)),
        Type::Pair(a, b) => obj1("pair", json!([type_to_json(a), type_to_json(b)])),
    }
}

pub fn type_from_json(v: &Value) -> R<Type> {
    match v {
        Value::String(s) => Ok(match s.as_str() {
            "bool" => Type::Bool,
            "integer" => Type::Integer,
            "string" => Type::String,
            "bytestring" => Type::ByteString,
            "unit" => Type::Unit,
            "data" => Type::Data,
            "g1" => Type::Bls12_381G1Element,
            "g2" => Type::Bls12_381G2Element,
            "ml" => Type::Bls12_381MlResult,
            other => return Err(format!("type: unknown {other:?}")),
        }),
        _ => {
            let (k, p) = single(v).map_err(|e| format!("type: {e}"))?;
            match k {
                "list" => Ok(Type::List(Rc::new(type_from_json(p)?))),
                "pair" => {
                    let a = arr_n(p, 2, "type pair")?;
                    Ok(Type::Pair(
                        Rc::new(type_from_json(&a[0])?),
                        Rc::new(type_from_json(&a[1])?),
                    ))
                }
                other => Err(format!("type: unknown constructor {other:?}")),
            }
        }
    }
}

pub fn constant_to_json(c: &Constant) -> Value {
    match c {
        Constant::Integer(i) => obj1("int", Value::String(i.to_string())),
        Constant::ByteString(b) => obj1("bytes", Value::String(hex::encode(b))),
        Constant::String(s) => obj1("string", Value::String(s.clone())),
        Constant::Unit => obj1("unit", Value::Null),
        Constant::Bool(b) => obj1("bool", Value::Bool(*b)),
        Constant::ProtoList(t, items) => obj1(
            "list",
            json!([
                type_to_json(t),
                items.iter().map(constant_to_json).collect::<Vec<_>>()
            ]),
        ),
        Constant::ProtoPair(t1, t2, a, b) => obj1(
            "pair",
            json!([
                type_to_json(t1),
                type_to_json(t2),
                constant_to_json(a),
                constant_to_json(b)
            ]),
        ),
        Constant::Data(d) => obj1("data", data_to_json(d)),
        Constant::Bls12_381G1Element(p) => obj1("g1", Value::String(hex::encode(p.compress()))),
        Constant::Bls12_381G2Element(p) => obj1("g2", Value::String(hex::encode(p.compress()))),
        Constant::Bls12_381MlResult(_) => obj1("ml", Value::Null),
    }
}

pub fn constant_from_json(v: &Value) -> R<Constant> {
    let (k, p) = single(v).map_err(|e| format!("constant: {e}"))?;
    Ok(match k {
        "int" => Constant::Integer(bigint_of(p, "int")?),
        "bytes" => Constant::ByteString(hex_of(p, "bytes")?),
        "string" => Constant::String(string(p, "string")?.to_string()),
        "unit" => Constant::Unit,
        "bool" => Constant::Bool(
            p.as_bool()
                .ok_or_else(|| format!("bool: expected true/false, got {}", preview(p)))?,
        ),
        "list" => {
            let a = arr_n(p, 2, "list constant ([TYPE, [CONST...]])")?;
            Constant::ProtoList(
                type_from_json(&a[0])?,
                arr(&a[1], "list items")?
                    .iter()
                    .map(constant_from_json)
                    .collect::<R<Vec<_>>>()?,
            )
        }
        "pair" => {
            let a = arr_n(p, 4, "pair constant ([TYPE, TYPE, CONST, CONST])")?;
            Constant::ProtoPair(
                type_from_json(&a[0])?,
                type_from_json(&a[1])?,
                Rc::new(constant_from_json(&a[2])?),
                Rc::new(constant_from_json(&a[3])?),
            )
        }
        "data" => Constant::Data(data_from_json(p)?),
        "g1" => Constant::Bls12_381G1Element(Box::new(
            Compressable::uncompress(&hex_of(p, "g1")?).map_err(|e| format!("g1: {e:?}"))?,
        )),
        "g2" => Constant::Bls12_381G2Element(Box::new(
            Compressable::uncompress(&hex_of(p, "g2")?).map_err(|e| format!("g2: {e:?}"))?,
        )),
        "ml" => return Err("ml: Miller-loop results are opaque and cannot be decoded".to_string()),
        other => return Err(format!("constant: unknown constructor {other:?}")),
    })
}

// ---------------------------------------------------------------------------------------------
// Plutus data

/// JSON -> PlutusData, built with uplc's own `Data::*` helpers (so constructor indices get the
/// ledger tag encoding and non-empty arrays are indefinite, exactly like data produced by aiken).
pub fn data_from_json(v: &Value) -> R<PlutusData> {
    let (k, p) = single(v).map_err(|e| format!("data: {e}"))?;
    Ok(match k {
        "constr" => {
            let a = arr_n(p, 2, "data constr ([INDEX, [DATA...]])")?;
            Data::constr(
                u64_of(&a[0], "data constr index")?,
                arr(&a[1], "data constr fields")?
                    .iter()
                    .map(data_from_json)
                    .collect::<R<Vec<_>>>()?,
            )
        }
        "map" => Data::map(
            arr(p, "data map")?
                .iter()
                .map(|kv| {
                    let kv = arr_n(kv, 2, "data map entry")?;
                    Ok((data_from_json(&kv[0])?, data_from_json(&kv[1])?))
                })
                .collect::<R<Vec<_>>>()?,
        ),
        "list" => Data::list(
            arr(p, "data list")?
                .iter()
                .map(data_from_json)
                .collect::<R<Vec<_>>>()?,
        ),
        "i" => Data::integer(bigint_of(p, "data i")?),
        "b" => Data::bytestring(hex_of(p, "data b")?),
        other => return Err(format!("data: unknown constructor {other:?}")),
    })
}

/// Our own reading of a pallas big integer (deliberately not `uplc::machine::value::
/// from_pallas_bigint`, so that the observer does not share code with the thing observed).
pub fn pallas_bigint_to_bigint(n: &PBigInt) -> BigInt {
    match n {
        PBigInt::Int(i) => BigInt::from(i128::from(*i)),
        PBigInt::BigUInt(bytes) => BigInt::from_bytes_be(Sign::Plus, bytes),
        // CBOR tag 3: value is -1 - n
        PBigInt::BigNInt(bytes) => -BigInt::from_bytes_be(Sign::Plus, bytes) - 1,
    }
}

pub fn data_to_json(d: &PlutusData) -> Value {
    match d {
        PlutusData::Constr(Constr {
            tag,
            any_constructor,
            fields,
        }) => {
            let fields: Vec<Value> = fields.iter().map(data_to_json).collect();
            let index = match (*tag, any_constructor) {
                (121..=127, _) => Some(*tag - 121),
                (1280..=1400, _) => Some(*tag - 1280 + 7),
                (102, Some(ix)) => Some(*ix),
                _ => None,
            };
            match index {
                Some(ix) => obj1("constr", json!([ix, fields])),
                // Not reachable through `Data::constr`; kept total for data decoded from CBOR.
                None => obj1("constr_raw", json!([*tag, any_constructor, fields])),
            }
        }
        PlutusData::Map(kvs) => obj1(
            "map",
            Value::Array(
                kvs.iter()
                    .map(|(k, v)| json!([data_to_json(k), data_to_json(v)]))
                    .collect(),
            ),
        ),
        PlutusData::Array(xs) => obj1("list", Value::Array(xs.iter().map(data_to_json).collect())),
        PlutusData::BigInt(n) => obj1("i", Value::String(pallas_bigint_to_bigint(n).to_string())),
        PlutusData::BoundedBytes(b) => obj1("b", Value::String(hex::encode(b.as_slice()))),
    }
}
