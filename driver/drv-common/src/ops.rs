//! Ops shared by the binaries (`eval`) plus small helpers for encoding errors.

use crate::{
    json::{self, R},
    server::{OpResult, guarded},
};
use pallas_primitives::conway::Language;
use serde_json::{Value, json};
use std::fmt::{self, Debug, Display, Write};
use uplc::{
    ast::{DeBruijn, Name, NamedDeBruijn, Program, Term},
    machine::{
        Machine, Trace,
        cost_model::{
            CostModel, ExBudget, initialize_cost_model, initialize_cost_model_with_protocol,
        },
    },
};

pub const DEFAULT_BUDGET: i64 = 4_000_000_000_000_000;
pub const DEFAULT_SLIPPAGE: u32 = 200;
pub const ERROR_TEXT_LIMIT: usize = 500;

// ---------------------------------------------------------------------------------------------
// error encoding

/// A `fmt::Write` sink that keeps at most `limit` chars and then makes the formatter stop.
struct Limited {
    out: String,
    left: usize,
}

impl Write for Limited {
    fn write_str(&mut self, s: &str) -> fmt::Result {
        for c in s.chars() {
            if self.left == 0 {
                return Err(fmt::Error);
            }
            self.out.push(c);
            self.left -= 1;
        }
        Ok(())
    }
}

/// First `limit` chars of the `Display` text (formatting stops early, it is never fully built).
pub fn display_limited(x: &dyn Display, limit: usize) -> String {
    let mut w = Limited {
        out: String::new(),
        left: limit,
    };
    let _ = write!(w, "{x}");
    w.out
}

pub fn debug_limited(x: &dyn Debug, limit: usize) -> String {
    let mut w = Limited {
        out: String::new(),
        left: limit,
    };
    let _ = write!(w, "{x:?}");
    w.out
}

/// Name of an enum variant: the `Debug` output up to the first '(' , ' ' or '{'.
pub fn variant_name(x: &dyn Debug) -> String {
    let head = debug_limited(x, 200);
    head.split(['(', ' ', '{'])
        .next()
        .unwrap_or_default()
        .to_string()
}

/// `{"variant": .., "text": ..}` for any error that is both `Debug` and `Display`.
/// Some `Display` impls of the machine errors do arithmetic and may themselves panic; in that
/// case the (truncated) `Debug` text is used instead.
pub fn error_to_json<E: Debug + Display>(e: &E) -> Value {
    let variant = guarded(|| variant_name(e)).unwrap_or_else(|p| format!("<Debug panicked: {p}>"));
    let text = guarded(|| display_limited(e, ERROR_TEXT_LIMIT))
        .or_else(|_| guarded(|| debug_limited(e, ERROR_TEXT_LIMIT)))
        .unwrap_or_else(|p| format!("<Display and Debug panicked: {p}>"));
    json!({"variant": variant, "text": text})
}

// ---------------------------------------------------------------------------------------------
// request field helpers

pub fn field<'a>(req: &'a Value, name: &str) -> R<&'a Value> {
    match req.get(name) {
        None | Some(Value::Null) => Err(format!("missing field {name:?}")),
        Some(v) => Ok(v),
    }
}

pub fn opt_field<'a>(req: &'a Value, name: &str) -> Option<&'a Value> {
    match req.get(name) {
        None | Some(Value::Null) => None,
        Some(v) => Some(v),
    }
}

pub fn str_field<'a>(req: &'a Value, name: &str, default: &'a str) -> R<&'a str> {
    match opt_field(req, name) {
        None => Ok(default),
        Some(Value::String(s)) => Ok(s.as_str()),
        Some(other) => Err(format!("field {name:?}: expected a string, got {other}")),
    }
}

fn i64_of(v: &Value, what: &str) -> R<i64> {
    match v {
        Value::Number(n) => n
            .as_i64()
            .ok_or_else(|| format!("{what}: {n} is not an i64")),
        Value::String(s) => s.parse::<i64>().map_err(|e| format!("{what}: {s:?}: {e}")),
        _ => Err(format!("{what}: expected a number, got {v}")),
    }
}

pub fn language_of(req: &Value) -> R<Language> {
    match str_field(req, "lang", "v3")? {
        "v1" => Ok(Language::PlutusV1),
        "v2" => Ok(Language::PlutusV2),
        "v3" => Ok(Language::PlutusV3),
        other => Err(format!("field \"lang\": expected v1|v2|v3, got {other:?}")),
    }
}

// ---------------------------------------------------------------------------------------------
// lexically-scoped Name -> DeBruijn conversion

/// Converts a named term to de Bruijn form by *lexical scoping on (text, unique)*: a variable is
/// bound by the innermost enclosing lambda whose parameter has the same text and the same unique.
/// This is independent of uplc's `debruijn::Converter` (which keys on `unique` alone and hence
/// needs interned programs) and of `CodeGenInterner`; it is what the interner+converter pair
/// computes for well-formed programs.
pub fn name_to_debruijn_lexical(term: &Term<Name>) -> R<Term<DeBruijn>> {
    fn go(t: &Term<Name>, scope: &mut Vec<(String, isize)>) -> R<Term<DeBruijn>> {
        Ok(match t {
            Term::Var(n) => {
                let key = (n.text.as_str(), isize::from(n.unique));
                let pos = scope
                    .iter()
                    .rposition(|(t, u)| t == key.0 && *u == key.1)
                    .ok_or_else(|| format!("free variable {}_{}", n.text, n.unique))?;
                Term::Var(DeBruijn::new(scope.len() - pos).into())
            }
            Term::Delay(b) => Term::Delay(go(b, scope)?.into()),
            Term::Force(b) => Term::Force(go(b, scope)?.into()),
            Term::Lambda {
                parameter_name,
                body,
            } => {
                scope.push((
                    parameter_name.text.clone(),
                    isize::from(parameter_name.unique),
                ));
                let body = go(body, scope);
                scope.pop();
                Term::Lambda {
                    parameter_name: DeBruijn::new(0).into(),
                    body: body?.into(),
                }
            }
            Term::Apply { function, argument } => Term::Apply {
                function: go(function, scope)?.into(),
                argument: go(argument, scope)?.into(),
            },
            Term::Constant(c) => Term::Constant(c.clone()),
            Term::Error => Term::Error,
            Term::Builtin(b) => Term::Builtin(*b),
            Term::Constr { tag, fields } => Term::Constr {
                tag: *tag,
                fields: fields
                    .iter()
                    .map(|f| go(f, scope))
                    .collect::<R<Vec<_>>>()?,
            },
            Term::Case { constr, branches } => Term::Case {
                constr: go(constr, scope)?.into(),
                branches: branches
                    .iter()
                    .map(|f| go(f, scope))
                    .collect::<R<Vec<_>>>()?,
            },
        })
    }
    go(term, &mut Vec::new())
}

/// Replaces every `(lam <marker> body)` by `body` and counts the replacements.
///
/// The aiken code generator wraps some terms in `(lam __no_inline__ body)`; that lambda is not a
/// real binder but a note to the optimiser, which removes it again (`clean_up_no_inlines`). A
/// pre-optimisation program only has its intended meaning once the markers are gone.
pub fn strip_marker_lambdas(term: &Term<Name>, marker: &str, count: &mut usize) -> Term<Name> {
    let go = |t: &Term<Name>, count: &mut usize| strip_marker_lambdas(t, marker, count);
    match term {
        Term::Lambda {
            parameter_name,
            body,
        } if parameter_name.text == marker => {
            *count += 1;
            go(body, count)
        }
        Term::Lambda {
            parameter_name,
            body,
        } => Term::Lambda {
            parameter_name: parameter_name.clone(),
            body: go(body, count).into(),
        },
        Term::Delay(b) => Term::Delay(go(b, count).into()),
        Term::Force(b) => Term::Force(go(b, count).into()),
        Term::Apply { function, argument } => Term::Apply {
            function: go(function, count).into(),
            argument: go(argument, count).into(),
        },
        Term::Constr { tag, fields } => Term::Constr {
            tag: *tag,
            fields: fields.iter().map(|f| go(f, count)).collect(),
        },
        Term::Case { constr, branches } => Term::Case {
            constr: go(constr, count).into(),
            branches: branches.iter().map(|f| go(f, count)).collect(),
        },
        Term::Var(_) | Term::Constant(_) | Term::Error | Term::Builtin(_) => term.clone(),
    }
}

// ---------------------------------------------------------------------------------------------
// eval

/// Decodes `req.term` according to `req.binder` and brings it to the form the machine runs.
/// `Ok(Err(json))` is a conversion failure of the term itself (free variable in "name" form).
fn machine_term_of(req: &Value) -> R<Result<Term<NamedDeBruijn>, Value>> {
    let term = field(req, "term")?;
    match str_field(req, "binder", "debruijn")? {
        "debruijn" => Ok(Ok(json::term_from_json::<DeBruijn>(term)?.into())),
        "named_debruijn" => Ok(Ok(json::term_from_json::<NamedDeBruijn>(term)?)),
        "name" => {
            let t = json::term_from_json::<Name>(term)?;
            Ok(Term::<NamedDeBruijn>::try_from(t).map_err(|e| error_to_json(&e)))
        }
        other => Err(format!(
            "field \"binder\": expected debruijn|named_debruijn|name, got {other:?}"
        )),
    }
}

/// The `eval` op (see PROTOCOL.md).
pub fn op_eval(req: &Value) -> OpResult {
    let term = match machine_term_of(req)? {
        Ok(t) => t,
        Err(e) => return Ok(json!({"convert_err": e})),
    };
    let lang = language_of(req)?;

    let protocol: Option<u16> = match opt_field(req, "protocol") {
        None => None,
        Some(v) => Some(
            u16::try_from(json::u64_of(v, "protocol")?)
                .map_err(|_| "field \"protocol\": does not fit u16".to_string())?,
        ),
    };

    let costs: Option<Vec<i64>> = match opt_field(req, "costs") {
        None => None,
        Some(v) => Some(
            v.as_array()
                .ok_or_else(|| "field \"costs\": expected an array".to_string())?
                .iter()
                .map(|c| i64_of(c, "costs[..]"))
                .collect::<R<Vec<_>>>()?,
        ),
    };

    let initial = match opt_field(req, "budget") {
        None => ExBudget {
            mem: DEFAULT_BUDGET,
            cpu: DEFAULT_BUDGET,
        },
        Some(v) => {
            let a = v
                .as_array()
                .filter(|a| a.len() == 2)
                .ok_or_else(|| "field \"budget\": expected [mem, cpu]".to_string())?;
            ExBudget {
                mem: i64_of(&a[0], "budget mem")?,
                cpu: i64_of(&a[1], "budget cpu")?,
            }
        }
    };

    let slippage: u32 = match opt_field(req, "slippage") {
        None => DEFAULT_SLIPPAGE,
        Some(v) => u32::try_from(json::u64_of(v, "slippage")?)
            .map_err(|_| "field \"slippage\": does not fit u32".to_string())?,
    };

    let mut machine = match (protocol, &costs) {
        (None, None) => Machine::new(lang, CostModel::default(), initial, slippage),
        (None, Some(costs)) => {
            let cm = initialize_cost_model(&lang, costs);
            Machine::new(lang, cm, initial, slippage)
        }
        (Some(p), None) => {
            let cm = CostModel::default_for_language_and_protocol(&lang, p);
            Machine::new_with_protocol(lang, p, cm, initial, slippage)
        }
        (Some(p), Some(costs)) => {
            let cm = initialize_cost_model_with_protocol(&lang, p, costs);
            Machine::new_with_protocol(lang, p, cm, initial, slippage)
        }
    };

    let result = machine.run(term);

    let remaining = machine.ex_budget;
    let mut logs = vec![];
    let mut labels = vec![];
    for t in std::mem::take(&mut machine.traces) {
        match t {
            Trace::Log(s) => logs.push(Value::String(s)),
            Trace::Label(s) => labels.push(Value::String(s)),
        }
    }

    let result = match &result {
        Ok(t) => json::obj1("Ok", json::named_debruijn_term_to_debruijn_json(t)),
        Err(e) => json::obj1("Err", error_to_json(e)),
    };

    Ok(json!({
        "result": result,
        "cost": [initial.mem.wrapping_sub(remaining.mem), initial.cpu.wrapping_sub(remaining.cpu)],
        "remaining": [remaining.mem, remaining.cpu],
        "logs": logs,
        "labels": labels,
    }))
}

/// Convenience for the binaries: `Program<Name>` -> `Program<DeBruijn>` the lexical way.
pub fn program_to_debruijn_lexical(p: &Program<Name>) -> R<Program<DeBruijn>> {
    Ok(Program {
        version: p.version,
        term: name_to_debruijn_lexical(&p.term)?,
    })
}
