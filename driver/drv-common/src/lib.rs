//! Code shared by the driver binaries: JSON encodings, the request loop, and the ops that
//! more than one binary exposes (`eval`).

pub mod json;
pub mod ops;
pub mod server;
