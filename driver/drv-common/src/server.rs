//! The JSON-lines request loop shared by every driver binary.

use serde::Deserialize;
use serde_json::{Map, Value};
use std::{
    cell::RefCell,
    io::{BufRead, Write},
    panic::{AssertUnwindSafe, catch_unwind},
};

thread_local! {
    static LAST_PANIC: RefCell<Option<String>> = const { RefCell::new(None) };
}

/// What an op handler returns: the fields of the response object (without "id"),
/// or `Err(msg)` which becomes `{"id":..,"error":msg}`.
pub type OpResult = Result<Value, String>;

pub const UNKNOWN_OP: &str = "unknown op";

/// Installs a panic hook that records "<message> at <file>:<line>:<col>" in a thread-local
/// and prints nothing (neither to stdout nor to stderr).
pub fn install_panic_hook() {
    std::panic::set_hook(Box::new(|info| {
        let payload = info.payload();
        let msg = if let Some(s) = payload.downcast_ref::<&str>() {
            (*s).to_string()
        } else if let Some(s) = payload.downcast_ref::<String>() {
            s.clone()
        } else {
            "<non-string panic payload>".to_string()
        };
        let full = match info.location() {
            Some(l) => format!("{msg} at {}:{}:{}", l.file(), l.line(), l.column()),
            None => msg,
        };
        LAST_PANIC.with(|p| *p.borrow_mut() = Some(full));
    }));
}

/// Message of the last panic caught on this thread (and forget it).
pub fn take_panic_message() -> String {
    LAST_PANIC
        .with(|p| p.borrow_mut().take())
        .unwrap_or_else(|| "<panic without message>".to_string())
}

/// Runs `f`, turning a panic into `Err(message)`.
pub fn guarded<T>(f: impl FnOnce() -> T) -> Result<T, String> {
    match catch_unwind(AssertUnwindSafe(f)) {
        Ok(v) => Ok(v),
        Err(_) => Err(take_panic_message()),
    }
}

/// JSON parser without serde_json's 128-levels recursion limit (terms are deep).
pub fn parse_json(line: &str) -> Result<Value, String> {
    let mut de = serde_json::Deserializer::from_str(line);
    de.disable_recursion_limit();
    let v = Value::deserialize(&mut de).map_err(|e| e.to_string())?;
    de.end().map_err(|e| e.to_string())?;
    Ok(v)
}

fn respond(out: &mut impl Write, id: Option<Value>, body: Map<String, Value>) {
    let mut m = Map::with_capacity(body.len() + 1);
    if let Some(id) = id {
        m.insert("id".to_string(), id);
    }
    for (k, v) in body {
        m.insert(k, v);
    }
    // `Value`'s serializer is recursive but has no depth limit.
    let text = serde_json::to_string(&Value::Object(m))
        .unwrap_or_else(|e| format!("{{\"error\":\"cannot serialise response: {e}\"}}"));
    let _ = out.write_all(text.as_bytes());
    let _ = out.write_all(b"\n");
    let _ = out.flush();
}

fn one(key: &str, v: Value) -> Map<String, Value> {
    let mut m = Map::new();
    m.insert(key.to_string(), v);
    m
}

fn handle_line(line: &str, handler: &dyn Fn(&str, &Value) -> OpResult) -> (Option<Value>, Map<String, Value>) {
    let req = match parse_json(line) {
        Ok(v) => v,
        Err(e) => return (None, one("error", Value::String(format!("malformed request: {e}")))),
    };
    let id = req.get("id").cloned();
    let Some(op) = req.get("op").and_then(|o| o.as_str()) else {
        return (
            id,
            one(
                "error",
                Value::String("malformed request: expected an object with a string field \"op\"".into()),
            ),
        );
    };
    let body = match guarded(|| handler(op, &req)) {
        Err(panic) => one("panic", Value::String(panic)),
        Ok(Err(e)) => one("error", Value::String(e)),
        Ok(Ok(Value::Object(m))) => m,
        Ok(Ok(other)) => one("result", other),
    };
    (id, body)
}

/// Reads requests from stdin until EOF, one JSON object per line, and answers each with exactly
/// one JSON object on one line on stdout. The whole loop runs on a thread with a
/// `stack_mib` MiB stack (terms, types and the code generator recurse deeply).
pub fn serve<F>(stack_mib: usize, handler: F)
where
    F: Fn(&str, &Value) -> OpResult + Send + 'static,
{
    install_panic_hook();
    let worker = std::thread::Builder::new()
        .name("drv-worker".to_string())
        .stack_size(stack_mib * 1024 * 1024)
        .spawn(move || {
            let stdin = std::io::stdin();
            let stdout = std::io::stdout();
            let mut line = String::new();
            let mut input = stdin.lock();
            loop {
                line.clear();
                match input.read_line(&mut line) {
                    Ok(0) => break,
                    Ok(_) => {}
                    Err(e) if e.kind() != std::io::ErrorKind::InvalidData => break,
                    Err(e) => {
                        // invalid UTF-8: report and carry on with the next line
                        respond(
                            &mut stdout.lock(),
                            None,
                            one("error", Value::String(format!("malformed request: {e}"))),
                        );
                        continue;
                    }
                }
                let text = line.trim();
                if text.is_empty() {
                    continue;
                }
                // The handler is already guarded; this outer guard covers request parsing and
                // the (recursive) drop of big values.
                let (id, body) = guarded(|| handle_line(text, &handler)).unwrap_or_else(|p| (None, one("panic", Value::String(p))));
                respond(&mut stdout.lock(), id, body);
            }
        })
        .expect("cannot spawn worker thread");
    let _ = worker.join();
}
