//! drv-uplc: the public API of the `uplc` crate as a JSON-lines server (see ../PROTOCOL.md).

use drv_common::{
    json::{self, JBinder, R},
    ops::{self, error_to_json, field, str_field},
    server::{self, OpResult, UNKNOWN_OP},
};
use serde_json::{Value, json};
use uplc::{
    ast::{DeBruijn, FakeNamedDeBruijn, Name, NamedDeBruijn, Program},
    builtins::DefaultFunction,
    flat::Binder,
};

const STACK_MIB: usize = 256;

fn main() {
    server::serve(STACK_MIB, handle);
}

fn handle(op: &str, req: &Value) -> OpResult {
    match op {
        "ping" => Ok(json!({"pong": "drv-uplc"})),
        "eval" => ops::op_eval(req),
        "to_flat" => with_binder(req, ToFlat),
        "to_cbor_hex" => with_binder(req, ToCborHex),
        "from_flat" => from_bytes(req, false),
        "from_hex" => from_bytes(req, true),
        "convert" => convert(req),
        "builtins" => builtins(),
        "pretty" => with_binder(req, Pretty),
        "parse" => parse(req),
        "optimize" => optimize(req),
        _ => Err(UNKNOWN_OP.to_string()),
    }
}

// ---------------------------------------------------------------------------------------------
// ops that take {"program":.., "binder":..}

/// A computation generic in the binder type of the request's program.
trait ProgramOp {
    fn run<T>(self, program: Program<T>) -> OpResult
    where
        T: JBinder + std::fmt::Debug + for<'b> Binder<'b>;
}

fn with_binder(req: &Value, op: impl ProgramOp) -> OpResult {
    let program = field(req, "program")?;
    match str_field(req, "binder", "debruijn")? {
        "debruijn" => op.run(json::program_from_json::<DeBruijn>(program)?),
        "named_debruijn" => op.run(json::program_from_json::<NamedDeBruijn>(program)?),
        "name" => op.run(json::program_from_json::<Name>(program)?),
        other => Err(bad_binder(other)),
    }
}

fn bad_binder(other: &str) -> String {
    format!("field \"binder\": expected debruijn|named_debruijn|name, got {other:?}")
}

struct ToFlat;
impl ProgramOp for ToFlat {
    fn run<T>(self, program: Program<T>) -> OpResult
    where
        T: JBinder + std::fmt::Debug + for<'b> Binder<'b>,
    {
        Ok(match program.to_flat() {
            Ok(bytes) => json!({"hex": hex::encode(bytes)}),
            Err(e) => json!({"err": e.to_string()}),
        })
    }
}

struct ToCborHex;
impl ProgramOp for ToCborHex {
    fn run<T>(self, program: Program<T>) -> OpResult
    where
        T: JBinder + std::fmt::Debug + for<'b> Binder<'b>,
    {
        Ok(match program.to_hex() {
            Ok(hex) => json!({"hex": hex}),
            Err(e) => json!({"err": e.to_string()}),
        })
    }
}

struct Pretty;
impl ProgramOp for Pretty {
    fn run<T>(self, program: Program<T>) -> OpResult
    where
        T: JBinder + std::fmt::Debug + for<'b> Binder<'b>,
    {
        Ok(json!({"text": program.to_pretty()}))
    }
}

// ---------------------------------------------------------------------------------------------
// from_flat / from_hex

fn decode<'b, T>(
    text: &str,
    cbor: bool,
    bytes: &'b mut Vec<u8>,
    cbor_buffer: &'b mut Vec<u8>,
    flat_buffer: &'b mut Vec<u8>,
) -> R<Result<Program<T>, String>>
where
    T: Binder<'b> + std::fmt::Debug,
{
    if cbor {
        Ok(Program::<T>::from_hex(text, cbor_buffer, flat_buffer).map_err(|e| e.to_string()))
    } else {
        *bytes = hex::decode(text).map_err(|e| format!("field \"hex\": {e}"))?;
        Ok(Program::<T>::from_flat(bytes).map_err(|e| e.to_string()))
    }
}

fn from_bytes(req: &Value, cbor: bool) -> OpResult {
    let text = field(req, "hex")?
        .as_str()
        .ok_or_else(|| "field \"hex\": expected a string".to_string())?;
    let (mut a, mut b, mut c) = (vec![], vec![], vec![]);

    fn answer<T: JBinder>(r: Result<Program<T>, String>) -> Value {
        match r {
            Ok(p) => json!({"Ok": json::program_to_json(&p)}),
            Err(e) => json!({"Err": e}),
        }
    }

    Ok(match str_field(req, "binder", "debruijn")? {
        "debruijn" => answer(decode::<DeBruijn>(text, cbor, &mut a, &mut b, &mut c)?),
        "named_debruijn" => answer(decode::<NamedDeBruijn>(text, cbor, &mut a, &mut b, &mut c)?),
        "name" => answer(decode::<Name>(text, cbor, &mut a, &mut b, &mut c)?),
        // Decodes plain de Bruijn indices while injecting fake names; answered in
        // named_debruijn form.
        "fake_named_debruijn" => answer(
            decode::<FakeNamedDeBruijn>(text, cbor, &mut a, &mut b, &mut c)?
                .map(Program::<NamedDeBruijn>::from),
        ),
        other => {
            return Err(format!(
                "field \"binder\": expected debruijn|named_debruijn|name|fake_named_debruijn, got {other:?}"
            ));
        }
    })
}

// ---------------------------------------------------------------------------------------------
// convert

fn convert(req: &Value) -> OpResult {
    let program = field(req, "program")?;
    let from = str_field(req, "from", "name")?;
    let to = str_field(req, "to", "debruijn")?;

    fn ok<T: JBinder>(p: Program<T>) -> Value {
        json!({"Ok": json::program_to_json(&p)})
    }
    // (the error type, `uplc::debruijn::Error`, lives in a private module and cannot be named)
    fn res<T: JBinder, E: std::fmt::Debug + std::fmt::Display>(r: Result<Program<T>, E>) -> Value {
        match r {
            Ok(p) => ok(p),
            Err(e) => json!({"Err": error_to_json(&e)}),
        }
    }

    Ok(match from {
        "name" => {
            let p = json::program_from_json::<Name>(program)?;
            match to {
                "name" => ok(p),
                "debruijn" => res(p.to_debruijn()),
                "named_debruijn" => res(p.to_named_debruijn()),
                // our own lexically scoped conversion, independent of uplc::debruijn
                "debruijn_lexical" => match ops::program_to_debruijn_lexical(&p) {
                    Ok(p) => ok(p),
                    Err(e) => json!({"Err": {"variant": "FreeVariable", "text": e}}),
                },
                other => return Err(bad_to(other)),
            }
        }
        "debruijn" => {
            let p = json::program_from_json::<DeBruijn>(program)?;
            match to {
                "name" => res(Program::<Name>::try_from(p)),
                "debruijn" => ok(p),
                "named_debruijn" => ok(Program::<NamedDeBruijn>::from(p)),
                other => return Err(bad_to(other)),
            }
        }
        "named_debruijn" => {
            let p = json::program_from_json::<NamedDeBruijn>(program)?;
            match to {
                "name" => res(Program::<Name>::try_from(p)),
                "debruijn" => ok(Program::<DeBruijn>::from(p)),
                "named_debruijn" => ok(p),
                other => return Err(bad_to(other)),
            }
        }
        other => {
            return Err(format!(
                "field \"from\": expected name|debruijn|named_debruijn, got {other:?}"
            ));
        }
    })
}

fn bad_to(other: &str) -> String {
    format!("field \"to\": expected name|debruijn|named_debruijn, got {other:?}")
}

// ---------------------------------------------------------------------------------------------
// builtins / parse / optimize

fn builtins() -> OpResult {
    let mut all = vec![];
    for tag in 0..=255u8 {
        if let Ok(f) = DefaultFunction::try_from(tag) {
            all.push(json!({
                "name": f.to_string(),
                "tag": tag,
                "arity": f.arity(),
                "force_count": f.force_count(),
            }));
        }
    }
    Ok(json!({"builtins": all}))
}

fn parse(req: &Value) -> OpResult {
    let text = field(req, "text")?
        .as_str()
        .ok_or_else(|| "field \"text\": expected a string".to_string())?;
    Ok(match uplc::parser::program(text) {
        Ok(p) => json!({"Ok": json::program_to_json(&p)}),
        Err(e) => json!({"Err": e.to_string()}),
    })
}

fn optimize(req: &Value) -> OpResult {
    let p = json::program_from_json::<Name>(field(req, "program")?)?;
    let p = uplc::optimize::aiken_optimize_and_intern(p);
    Ok(json!({"Ok": json::program_to_json(&p)}))
}
