"""Tables and rules of the Plutus Core specification's CEK machine used as oracles.

BUILTINS: flat tag, arity (number of term arguments) and number of type-level `force`s for every
built-in function of the specification (Plutus Core spec, "Built-in functions", batches 1-6), keyed by
the specification's name.  Written by hand from the specification, independent of the repository's
own tables (DefaultFunction::arity / force_count / TryFrom<u8> / Display / FromStr).
"""
from __future__ import annotations

import z3

# name: (tag, arity, forces)
BUILTINS = {
    "addInteger": (0, 2, 0), "subtractInteger": (1, 2, 0), "multiplyInteger": (2, 2, 0), "divideInteger": (3, 2, 0),
    "quotientInteger": (4, 2, 0), "remainderInteger": (5, 2, 0), "modInteger": (6, 2, 0), "equalsInteger": (7, 2, 0),
    "lessThanInteger": (8, 2, 0), "lessThanEqualsInteger": (9, 2, 0),
    "appendByteString": (10, 2, 0), "consByteString": (11, 2, 0), "sliceByteString": (12, 3, 0), "lengthOfByteString": (13, 1, 0),
    "indexByteString": (14, 2, 0), "equalsByteString": (15, 2, 0), "lessThanByteString": (16, 2, 0), "lessThanEqualsByteString": (17, 2, 0),
    "sha2_256": (18, 1, 0), "sha3_256": (19, 1, 0), "blake2b_256": (20, 1, 0), "verifyEd25519Signature": (21, 3, 0),
    "appendString": (22, 2, 0), "equalsString": (23, 2, 0), "encodeUtf8": (24, 1, 0), "decodeUtf8": (25, 1, 0),
    "ifThenElse": (26, 3, 1), "chooseUnit": (27, 2, 1), "trace": (28, 2, 1), "fstPair": (29, 1, 2), "sndPair": (30, 1, 2),
    "chooseList": (31, 3, 2), "mkCons": (32, 2, 1), "headList": (33, 1, 1), "tailList": (34, 1, 1), "nullList": (35, 1, 1),
    "chooseData": (36, 6, 1), "constrData": (37, 2, 0), "mapData": (38, 1, 0), "listData": (39, 1, 0), "iData": (40, 1, 0),
    "bData": (41, 1, 0), "unConstrData": (42, 1, 0), "unMapData": (43, 1, 0), "unListData": (44, 1, 0), "unIData": (45, 1, 0),
    "unBData": (46, 1, 0), "equalsData": (47, 2, 0), "mkPairData": (48, 2, 0), "mkNilData": (49, 1, 0), "mkNilPairData": (50, 1, 0),
    "serialiseData": (51, 1, 0), "verifyEcdsaSecp256k1Signature": (52, 3, 0), "verifySchnorrSecp256k1Signature": (53, 3, 0),
    "bls12_381_G1_add": (54, 2, 0), "bls12_381_G1_neg": (55, 1, 0), "bls12_381_G1_scalarMul": (56, 2, 0), "bls12_381_G1_equal": (57, 2, 0),
    "bls12_381_G1_compress": (58, 1, 0), "bls12_381_G1_uncompress": (59, 1, 0), "bls12_381_G1_hashToGroup": (60, 2, 0),
    "bls12_381_G2_add": (61, 2, 0), "bls12_381_G2_neg": (62, 1, 0), "bls12_381_G2_scalarMul": (63, 2, 0), "bls12_381_G2_equal": (64, 2, 0),
    "bls12_381_G2_compress": (65, 1, 0), "bls12_381_G2_uncompress": (66, 1, 0), "bls12_381_G2_hashToGroup": (67, 2, 0),
    "bls12_381_millerLoop": (68, 2, 0), "bls12_381_mulMlResult": (69, 2, 0), "bls12_381_finalVerify": (70, 2, 0),
    "keccak_256": (71, 1, 0), "blake2b_224": (72, 1, 0), "integerToByteString": (73, 3, 0), "byteStringToInteger": (74, 2, 0),
    "andByteString": (75, 3, 0), "orByteString": (76, 3, 0), "xorByteString": (77, 3, 0), "complementByteString": (78, 1, 0),
    "readBit": (79, 2, 0), "writeBits": (80, 3, 0), "replicateByte": (81, 2, 0), "shiftByteString": (82, 2, 0),
    "rotateByteString": (83, 2, 0), "countSetBits": (84, 1, 0), "findFirstSetBit": (85, 1, 0), "ripemd_160": (86, 1, 0),
    "expModInteger": (87, 3, 0), "dropList": (88, 2, 1),
    "lengthOfArray": (89, 1, 1), "listToArray": (90, 1, 1), "indexArray": (91, 2, 1),
    "bls12_381_G1_multiScalarMul": (92, 2, 0), "bls12_381_G2_multiScalarMul": (93, 2, 0),
    "insertCoin": (94, 4, 0), "lookupCoin": (95, 3, 0), "unionValue": (96, 2, 0), "valueContains": (97, 2, 0),
    "valueData": (98, 1, 0), "unValueData": (99, 1, 0), "scaleValue": (100, 2, 0),
}


def variant_of(name: str) -> str:
    """Rust enum variant name used by the repository for a specification name (naming convention only)."""
    parts = name.split("_")
    out = []
    for i, p in enumerate(parts):
        out.append(p[0].upper() + p[1:] if p and not p[0].isdigit() else p)
    return "_".join(out)


VARIANT_TO_NAME = {variant_of(n): n for n in BUILTINS}


def check_builtin_table(table: dict):
    """table: variant -> (arity, forces) as computed by the real code. Returns a description of the first mismatch."""
    bad = {}
    for var, (ar, fc) in table.items():
        name = VARIANT_TO_NAME.get(var)
        if name is None:
            bad[var] = "not a builtin of the specification (or naming convention changed)"
            continue
        _, sa, sf = BUILTINS[name]
        if (ar, fc) != (sa, sf):
            bad[var] = f"arity/forces ({ar},{fc}) but the specification has ({sa},{sf})"
    return bad or None


def case_const_rule(kind: str, nb: int, sem: str, b, n):
    """`case` on a built-in constant with nb branches (Plutus Core spec 1.1.0 + 'casing on constants', enabled from
    the van Rossem protocol version = semantics variant E only).
    Returns ((succeeds: z3 Bool, branch index: z3 Int/BV expr), number of arguments passed to the branch)."""
    F, T = z3.BoolVal(False), z3.BoolVal(True)
    zero = z3.BitVecVal(0, 64)
    if sem != "E":
        return (F, zero), 0
    if kind == "bool":
        # False -> branch 0, True -> branch 1; at most 2 branches; branch must exist
        idx = z3.If(b, z3.BitVecVal(1, 64), zero)
        ok = z3.And(z3.BoolVal(nb <= 2), z3.Or(z3.Not(b), z3.BoolVal(nb >= 2)))
        return (ok, idx), 0
    if kind == "unit":
        return (z3.BoolVal(nb == 1), zero), 0
    if kind == "int":
        ok = z3.And(n >= 0, n < nb)
        return (ok, z3.Int2BV(n, 64)), 0
    if kind == "nil":
        # [] -> branch 1 ; at most two branches
        return (z3.BoolVal(nb == 2), z3.BitVecVal(1, 64)), 0
    if kind == "cons":
        return (z3.BoolVal(1 <= nb <= 2), zero), 2
    if kind == "pair":
        return (z3.BoolVal(nb == 1), zero), 2
    return (F, zero), 0
