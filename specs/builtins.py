"""Specification of the Plutus Core builtins (written from the Plutus Core specification, "Built-in
types and functions"), as z3 terms over symbolic arguments.

Argument kinds: 'int' (z3 Int), 'bytes' (z3 Seq(BitVec 8)), 'str' (UTF-8 bytes as Seq(BitVec 8), valid by assumption),
'bool' (z3 Bool), 'unit', 'any' (opaque value: z3 Obj), 'list:<kind>' (python list of element specs, concrete length),
'pair:<k1>,<k2>', 'data' (specs.data.DataV tree).

A spec returns a list of cases  (cond, result)  where result is FAIL or a spec value:
   ('int', e) ('bytes', s) ('str', s) ('bool', b) ('unit',) ('any', obj) ('list', elem_kind, [vals]) ('pair', a, b) ('data', d)
The cases' conditions are exhaustive and mutually exclusive for the argument kinds given.
"""
from __future__ import annotations

import z3

FAIL = ("fail",)
T = z3.BoolVal(True)
ByteSeq = z3.SeqSort(z3.BitVecSort(8))


def fdiv(a, b):
    q = a / b
    r = a % b
    return z3.If(b > 0, q, z3.If(r == 0, q, q - 1))


def fmod(a, b):
    return a - b * fdiv(a, b)


def tdiv(a, b):
    q = a / b
    r = a % b
    return z3.If(r == 0, q, z3.If(a >= 0, q, z3.If(b > 0, q + 1, q - 1)))


def trem(a, b):
    return a - b * tdiv(a, b)


def seq_lt(a, b):
    """lexicographic < on byte sequences (unsigned bytes): z3 has no built-in for Seq(BV8); quantifier-free
    encoding through a common-prefix witness is given by the caller for bounded lengths."""
    raise NotImplementedError


def bytes_lex_lt(a_bytes, b_bytes):
    """a_bytes, b_bytes: python lists of z3 BitVec8 (concrete lengths). Returns z3 Bool a < b."""
    res = z3.BoolVal(len(a_bytes) < len(b_bytes))  # all common bytes equal: shorter is smaller
    for i in range(min(len(a_bytes), len(b_bytes)) - 1, -1, -1):
        res = z3.If(a_bytes[i] == b_bytes[i], res, z3.ULT(a_bytes[i], b_bytes[i]))
    return res


def clamp0(n, hi):
    return z3.If(n < 0, 0, z3.If(n > hi, hi, n))


# name -> (arg kinds, spec function(sem, *args))
# `sem` is the semantics variant letter 'A'..'E'
SPEC = {}


def spec(name, *kinds):
    def deco(f):
        SPEC[name] = (list(kinds), f)
        return f
    return deco


@spec("addInteger", "int", "int")
def _(sem, a, b):
    return [(T, ("int", a + b))]


@spec("subtractInteger", "int", "int")
def _(sem, a, b):
    return [(T, ("int", a - b))]


@spec("multiplyInteger", "int", "int")
def _(sem, a, b):
    return [(T, ("int", a * b))]


@spec("divideInteger", "int", "int")
def _(sem, a, b):
    return [(b == 0, FAIL), (b != 0, ("int", fdiv(a, b)))]


@spec("modInteger", "int", "int")
def _(sem, a, b):
    return [(b == 0, FAIL), (b != 0, ("int", fmod(a, b)))]


@spec("quotientInteger", "int", "int")
def _(sem, a, b):
    return [(b == 0, FAIL), (b != 0, ("int", tdiv(a, b)))]


@spec("remainderInteger", "int", "int")
def _(sem, a, b):
    return [(b == 0, FAIL), (b != 0, ("int", trem(a, b)))]


@spec("equalsInteger", "int", "int")
def _(sem, a, b):
    return [(T, ("bool", a == b))]


@spec("lessThanInteger", "int", "int")
def _(sem, a, b):
    return [(T, ("bool", a < b))]


@spec("lessThanEqualsInteger", "int", "int")
def _(sem, a, b):
    return [(T, ("bool", a <= b))]


@spec("appendByteString", "bytes", "bytes")
def _(sem, a, b):
    return [(T, ("bytes", z3.Concat(a, b)))]


@spec("consByteString", "int", "bytes")
def _(sem, n, b):
    if sem in ("C", "E"):  # range-checked variant
        ok = z3.And(n >= 0, n <= 255)
        return [(z3.Not(ok), FAIL), (ok, ("bytes", z3.Concat(z3.Unit(z3.Int2BV(n, 8)), b)))]
    return [(T, ("bytes", z3.Concat(z3.Unit(z3.Int2BV(n % 256, 8)), b)))]


@spec("sliceByteString", "int", "int", "bytes")
def _(sem, s, k, b):
    L = z3.Length(b)
    start = clamp0(s, L)
    cnt = z3.If(k < 0, 0, z3.If(k > L - start, L - start, k))
    return [(T, ("bytes", z3.SubSeq(b, start, cnt)))]


@spec("lengthOfByteString", "bytes")
def _(sem, b):
    return [(T, ("int", z3.Length(b)))]


@spec("indexByteString", "bytes", "int")
def _(sem, b, i):
    ok = z3.And(i >= 0, i < z3.Length(b))
    return [(z3.Not(ok), FAIL), (ok, ("int", z3.BV2Int(b[i], False)))]


@spec("equalsByteString", "bytes", "bytes")
def _(sem, a, b):
    return [(T, ("bool", a == b))]


@spec("ifThenElse", "bool", "any", "any")
def _(sem, c, a, b):
    return [(c, ("any", a)), (z3.Not(c), ("any", b))]


@spec("chooseUnit", "unit", "any")
def _(sem, u, a):
    return [(T, ("any", a))]


@spec("trace", "str", "any")
def _(sem, s, a):
    return [(T, ("any", a))]


@spec("appendString", "str", "str")
def _(sem, a, b):
    return [(T, ("str", z3.Concat(a, b)))]


@spec("equalsString", "str", "str")
def _(sem, a, b):
    return [(T, ("bool", a == b))]


@spec("encodeUtf8", "str")
def _(sem, a):
    return [(T, ("bytes", a))]


# list / pair builtins are specified over python-level shapes (concrete length, symbolic elements)
@spec("fstPair", "pair:any,any")
def _(sem, p):
    return [(T, p[0])]


@spec("sndPair", "pair:any,any")
def _(sem, p):
    return [(T, p[1])]


@spec("chooseList", "list:any", "any", "any")
def _(sem, l, a, b):
    return [(T, ("any", a if len(l[1]) == 0 else b))]


@spec("headList", "list:any")
def _(sem, l):
    return [(T, FAIL if len(l[1]) == 0 else l[1][0])]


@spec("tailList", "list:any")
def _(sem, l):
    return [(T, FAIL if len(l[1]) == 0 else ("list", l[0], l[1][1:]))]


@spec("nullList", "list:any")
def _(sem, l):
    return [(T, ("bool", z3.BoolVal(len(l[1]) == 0)))]


@spec("mkCons", "elem", "list:any")
def _(sem, x, l):
    return [(T, ("list", l[0], [x] + l[1]))]


@spec("dropList", "int", "list:any")
def _(sem, n, l):
    k = len(l[1])
    cases = [(n <= 0, ("list", l[0], l[1]))]
    for i in range(1, k):
        cases.append((n == i, ("list", l[0], l[1][i:])))
    if k >= 1:
        cases.append((n >= k, ("list", l[0], [])))
    else:
        cases.append((n > 0, ("list", l[0], [])))
    return cases


@spec("mkNilData", "unit")
def _(sem, u):
    return [(T, ("list", "data", []))]


@spec("mkNilPairData", "unit")
def _(sem, u):
    return [(T, ("list", "pair:data,data", []))]


# ----------------------------------------------------------------------------------------------
# Data builtins.  A data argument is a specs.data.DataV of a concrete top-level shape.


def _dv(d):
    return ("data", d)


@spec("chooseData", "data", "any", "any", "any", "any", "any")
def _(sem, d, c, m, l, i, b):
    pick = {"constr": c, "map": m, "list": l, "i": i, "b": b}[d[0]]
    return [(T, ("any", pick))]


@spec("constrData", "int", "list:data")
def _(sem, i, l):
    return [(T, _dv(("constr", i, [x[1] for x in l[1]])))]


@spec("mapData", "list:pair:data,data")
def _(sem, l):
    return [(T, _dv(("map", [(p[1][1], p[2][1]) for p in l[1]])))]


@spec("listData", "list:data")
def _(sem, l):
    return [(T, _dv(("list", [x[1] for x in l[1]])))]


@spec("iData", "int")
def _(sem, n):
    return [(T, _dv(("i", n)))]


@spec("bData", "bytes")
def _(sem, b):
    return [(T, _dv(("b", b)))]


@spec("unConstrData", "data")
def _(sem, d):
    if d[0] != "constr":
        return [(T, FAIL)]
    return [(T, ("pair", ("int", d[1]), ("list", "data", [_dv(x) for x in d[2]])))]


@spec("unMapData", "data")
def _(sem, d):
    if d[0] != "map":
        return [(T, FAIL)]
    return [(T, ("list", "pair:data,data", [("pair", _dv(k), _dv(v)) for k, v in d[1]]))]


@spec("unListData", "data")
def _(sem, d):
    if d[0] != "list":
        return [(T, FAIL)]
    return [(T, ("list", "data", [_dv(x) for x in d[1]]))]


@spec("unIData", "data")
def _(sem, d):
    if d[0] != "i":
        return [(T, FAIL)]
    return [(T, ("int", d[1]))]


@spec("unBData", "data")
def _(sem, d):
    if d[0] != "b":
        return [(T, FAIL)]
    return [(T, ("bytes", d[1]))]


@spec("equalsData", "data", "data")
def _(sem, a, b):
    from specs import data as SD
    return [(T, ("bool", SD.eq(a, b)))]


@spec("mkPairData", "data", "data")
def _(sem, a, b):
    return [(T, ("pair", _dv(a), _dv(b)))]


@spec("decodeUtf8", "bytes")
def _(sem, b):
    from mirsym.summaries import valid_utf8
    v = valid_utf8()(b)
    return [(v, ("str", b)), (z3.Not(v), FAIL)]


# ----------------------------------------------------------------------------------------------
# argument kinds of builtins without a result specification here (digest / curve arithmetic is not encoded):
# used for the no-panic and ill-typed-argument obligations only.
KINDS_ONLY = {
    "sha2_256": ["bytes"], "sha3_256": ["bytes"], "blake2b_256": ["bytes"], "blake2b_224": ["bytes"], "keccak_256": ["bytes"],
    "ripemd_160": ["bytes"], "verifyEd25519Signature": ["bytes", "bytes", "bytes"],
    "verifyEcdsaSecp256k1Signature": ["bytes", "bytes", "bytes"], "verifySchnorrSecp256k1Signature": ["bytes", "bytes", "bytes"],
    "serialiseData": ["data"],
}

# Per-builtin input regions (each a function from the spec-level arguments to a list of z3 assumptions).  The union of the
# regions is the part of the domain that is claimed; what lies outside is stated in the evidence bounds.
REGIONS = {
    "integerToByteString": [lambda e, w, n: [z3.Or(w < 0, w > 8192)], lambda e, w, n: [w >= 0, w <= 3, n < (1 << 24)]],
    "replicateByte": [lambda n, b: [z3.Or(n < 0, n > 8192)], lambda n, b: [n >= 0, n <= 4]],
}


# ----------------------------------------------------------------------------------------------
# Bitwise and conversion builtins (CIP-121/122/123).  'bytesN' arguments are python lists of z3 BitVec(8)
# (enumerated lengths); results are byte sequences.


def _seq(bs):
    if not bs:
        return z3.Empty(ByteSeq)
    us = [z3.Unit(b) for b in bs]
    return z3.Concat(*us) if len(us) > 1 else us[0]


def _big(bs):
    return z3.Concat(*bs) if len(bs) > 1 else bs[0]


def _split(big, n):
    return [z3.Extract(8 * (n - i) - 1, 8 * (n - i - 1), big) for i in range(n)]


@spec("lessThanByteString", "bytesN", "bytesN")
def _(sem, a, b):
    return [(T, ("bool", bytes_lex_lt(a, b)))]


@spec("lessThanEqualsByteString", "bytesN", "bytesN")
def _(sem, a, b):
    return [(T, ("bool", z3.Not(bytes_lex_lt(b, a))))]


@spec("byteStringToInteger", "bool", "bytesN")
def _(sem, e, bs):
    be = z3.IntVal(0)
    for b in bs:
        be = be * 256 + z3.BV2Int(b, False)
    le = z3.IntVal(0)
    for b in reversed(bs):
        le = le * 256 + z3.BV2Int(b, False)
    return [(T, ("int", z3.If(e, be, le)))]


@spec("integerToByteString", "bool", "int", "int")
def _(sem, e, w, n):
    # region 1 (w outside 0..8192) always fails; region 2: 0 <= w <= 3 and n < 2^24 (see REGIONS)
    cases = [(z3.Or(w < 0, w > 8192), FAIL), (z3.And(w >= 0, w <= 8192, n < 0), FAIL)]
    b24 = z3.Int2BV(n, 24)
    digits = [z3.Extract(23, 16, b24), z3.Extract(15, 8, b24), z3.Extract(7, 0, b24)]  # big-endian, 3 digits
    for L in range(0, 4):
        inL = (n == 0) if L == 0 else z3.And(n >= 256 ** (L - 1), n < 256 ** L)
        sig = digits[3 - L:]  # minimal big-endian digits
        for wv in range(0, 4):
            cond = z3.And(w == wv, inL, n >= 0)
            if wv != 0 and L > wv:
                cases.append((cond, FAIL))
                continue
            width = wv if wv != 0 else L
            pad = [z3.BitVecVal(0, 8)] * (width - L)
            be = pad + sig
            le = list(reversed(sig)) + pad
            cases.append((z3.And(cond, e), ("bytes", _seq(be))))
            cases.append((z3.And(cond, z3.Not(e)), ("bytes", _seq(le))))
    return cases


def _bitop(op, ident):
    def f(sem, pad, a, b):
        n, m = len(a), len(b)
        short = min(n, m)
        both = [op(a[i], b[i]) for i in range(short)]
        longer = a if n >= m else b
        padded = both + list(longer[short:])
        return [(pad, ("bytes", _seq(padded))), (z3.Not(pad), ("bytes", _seq(both)))]
    return f


spec("andByteString", "bool", "bytesN", "bytesN")(_bitop(lambda x, y: x & y, 0xFF))
spec("orByteString", "bool", "bytesN", "bytesN")(_bitop(lambda x, y: x | y, 0))
spec("xorByteString", "bool", "bytesN", "bytesN")(_bitop(lambda x, y: x ^ y, 0))


@spec("complementByteString", "bytesN")
def _(sem, a):
    return [(T, ("bytes", _seq([~b for b in a])))]


@spec("readBit", "bytesN", "int")
def _(sem, bs, i):
    n = len(bs)
    if n == 0:
        return [(T, FAIL)]
    ok = z3.And(i >= 0, i < 8 * n)
    big = _big(bs)
    bit = z3.Extract(0, 0, z3.LShR(big, z3.Int2BV(i, 8 * n))) == 1
    return [(z3.Not(ok), FAIL), (ok, ("bool", bit))]


@spec("writeBits", "bytesN", "list:int", "bool")
def _(sem, bs, idxs, v):
    n = len(bs)
    ixs = [x[1] for x in idxs[1]]
    ok = z3.And([z3.And(i >= 0, i < 8 * n) for i in ixs] + [T])
    if n == 0:
        return [(z3.Not(ok), FAIL), (ok, ("bytes", _seq([])))]
    big = _big(bs)
    out_bits = []
    for p in range(8 * n - 1, -1, -1):  # p = bit position from the least significant end
        hit = z3.Or([i == p for i in ixs] + [z3.BoolVal(False)])
        orig = z3.Extract(p, p, big)
        out_bits.append(z3.If(hit, z3.If(v, z3.BitVecVal(1, 1), z3.BitVecVal(0, 1)), orig))
    res = z3.Concat(*out_bits) if len(out_bits) > 1 else out_bits[0]
    return [(z3.Not(ok), FAIL), (ok, ("bytes", _seq(_split(res, n))))]


@spec("replicateByte", "int", "int")
def _(sem, n, b):
    cases = [(z3.Or(n < 0, n > 8192), FAIL), (z3.And(n >= 0, n <= 8192, z3.Or(b < 0, b > 255)), FAIL)]
    for k in range(0, 5):
        cases.append((z3.And(n == k, b >= 0, b <= 255), ("bytes", _seq([z3.Int2BV(b, 8)] * k))))
    return cases


@spec("shiftByteString", "bytesN", "int")
def _(sem, bs, k):
    n = len(bs)
    if n == 0:
        return [(T, ("bytes", _seq([])))]
    big = _big(bs)
    bits = 8 * n
    zero = z3.BitVecVal(0, bits)
    left = z3.If(k >= bits, zero, big << z3.Int2BV(k, bits))
    right = z3.If(-k >= bits, zero, z3.LShR(big, z3.Int2BV(-k, bits)))
    return [(T, ("bytes", _seq(_split(z3.If(k >= 0, left, right), n))))]


@spec("rotateByteString", "bytesN", "int")
def _(sem, bs, k):
    n = len(bs)
    if n == 0:
        return [(T, ("bytes", _seq([])))]
    big = _big(bs)
    bits = 8 * n
    r = k % bits  # mathematical modulus: 0 <= r < bits, also for negative k
    return [(T, ("bytes", _seq(_split(z3.RotateLeft(big, z3.Int2BV(r, bits)), n))))]


@spec("countSetBits", "bytesN")
def _(sem, bs):
    tot = z3.IntVal(0)
    for b in bs:
        for i in range(8):
            tot = tot + z3.If(z3.Extract(i, i, b) == 1, 1, 0)
    return [(T, ("int", tot))]


@spec("findFirstSetBit", "bytesN")
def _(sem, bs):
    n = len(bs)
    res = z3.IntVal(-1)
    if n:
        big = _big(bs)
        for p in range(8 * n - 1, -1, -1):
            res = z3.If(z3.Extract(p, p, big) == 1, z3.IntVal(p), res)
    return [(T, ("int", res))]


REGIONS.update({
    # shifts/rotations by amounts outside the 64-bit range are outside the claim (the semantics variants disagree on them)
    "shiftByteString": [lambda bs, k: [k > -(1 << 63), k < (1 << 63)]],
    "rotateByteString": [lambda bs, k: [k > -(1 << 63), k < (1 << 63)]],
})
