"""Specification of the Plutus Core builtins (written from the Plutus Core specification, "Built-in
types and functions"), as z3 terms over symbolic arguments.

Argument kinds: 'int' (z3 Int), 'bytes' (z3 Seq(BitVec 8)), 'str' (UTF-8 bytes as Seq(BitVec 8), valid by assumption),
'bool' (z3 Bool), 'unit', 'any' (opaque value: z3 Obj), 'list:<kind>' (python list of element specs, concrete length),
'pair:<k1>,<k2>', 'data' (specs.data.DataV tree).

A spec returns a list of cases  (cond, result)  where result is FAIL or a spec value:
   ('int', e) ('bytes', s) ('str', s) ('bool', b) ('unit',) ('any', obj) ('list', elem_kind, [vals]) ('pair', a, b) ('data', d)
The cases' conditions are exhaustive and mutually exclusive for the argument kinds given.
"""
from __future__ import annotations

import z3

FAIL = ("fail",)
T = z3.BoolVal(True)
ByteSeq = z3.SeqSort(z3.BitVecSort(8))


def fdiv(a, b):
    q = a / b
    r = a % b
    return z3.If(b > 0, q, z3.If(r == 0, q, q - 1))


def fmod(a, b):
    return a - b * fdiv(a, b)


def tdiv(a, b):
    q = a / b
    r = a % b
    return z3.If(r == 0, q, z3.If(a >= 0, q, z3.If(b > 0, q + 1, q - 1)))


def trem(a, b):
    return a - b * tdiv(a, b)


def seq_lt(a, b):
    """lexicographic < on byte sequences (unsigned bytes): z3 has no built-in for Seq(BV8); quantifier-free
    encoding through a common-prefix witness is given by the caller for bounded lengths."""
    raise NotImplementedError


def bytes_lex_lt(a_bytes, b_bytes):
    """a_bytes, b_bytes: python lists of z3 BitVec8 (concrete lengths). Returns z3 Bool a < b."""
    res = z3.BoolVal(len(a_bytes) < len(b_bytes))  # all common bytes equal: shorter is smaller
    for i in range(min(len(a_bytes), len(b_bytes)) - 1, -1, -1):
        res = z3.If(a_bytes[i] == b_bytes[i], res, z3.ULT(a_bytes[i], b_bytes[i]))
    return res


def clamp0(n, hi):
    return z3.If(n < 0, 0, z3.If(n > hi, hi, n))


# name -> (arg kinds, spec function(sem, *args))
# `sem` is the semantics variant letter 'A'..'E'
SPEC = {}


def spec(name, *kinds):
    def deco(f):
        SPEC[name] = (list(kinds), f)
        return f
    return deco


@spec("addInteger", "int", "int")
def _(sem, a, b):
    return [(T, ("int", a + b))]


@spec("subtractInteger", "int", "int")
def _(sem, a, b):
    return [(T, ("int", a - b))]


@spec("multiplyInteger", "int", "int")
def _(sem, a, b):
    return [(T, ("int", a * b))]


@spec("divideInteger", "int", "int")
def _(sem, a, b):
    return [(b == 0, FAIL), (b != 0, ("int", fdiv(a, b)))]


@spec("modInteger", "int", "int")
def _(sem, a, b):
    return [(b == 0, FAIL), (b != 0, ("int", fmod(a, b)))]


@spec("quotientInteger", "int", "int")
def _(sem, a, b):
    return [(b == 0, FAIL), (b != 0, ("int", tdiv(a, b)))]


@spec("remainderInteger", "int", "int")
def _(sem, a, b):
    return [(b == 0, FAIL), (b != 0, ("int", trem(a, b)))]


@spec("equalsInteger", "int", "int")
def _(sem, a, b):
    return [(T, ("bool", a == b))]


@spec("lessThanInteger", "int", "int")
def _(sem, a, b):
    return [(T, ("bool", a < b))]


@spec("lessThanEqualsInteger", "int", "int")
def _(sem, a, b):
    return [(T, ("bool", a <= b))]


@spec("appendByteString", "bytes", "bytes")
def _(sem, a, b):
    return [(T, ("bytes", z3.Concat(a, b)))]


@spec("consByteString", "int", "bytes")
def _(sem, n, b):
    if sem in ("C", "E"):  # range-checked variant
        ok = z3.And(n >= 0, n <= 255)
        return [(z3.Not(ok), FAIL), (ok, ("bytes", z3.Concat(z3.Unit(z3.Int2BV(n, 8)), b)))]
    return [(T, ("bytes", z3.Concat(z3.Unit(z3.Int2BV(n % 256, 8)), b)))]


@spec("sliceByteString", "int", "int", "bytes")
def _(sem, s, k, b):
    L = z3.Length(b)
    start = clamp0(s, L)
    cnt = z3.If(k < 0, 0, z3.If(k > L - start, L - start, k))
    return [(T, ("bytes", z3.SubSeq(b, start, cnt)))]


@spec("lengthOfByteString", "bytes")
def _(sem, b):
    return [(T, ("int", z3.Length(b)))]


@spec("indexByteString", "bytes", "int")
def _(sem, b, i):
    ok = z3.And(i >= 0, i < z3.Length(b))
    return [(z3.Not(ok), FAIL), (ok, ("int", z3.BV2Int(b[i], False)))]


@spec("equalsByteString", "bytes", "bytes")
def _(sem, a, b):
    return [(T, ("bool", a == b))]


@spec("ifThenElse", "bool", "any", "any")
def _(sem, c, a, b):
    return [(c, ("any", a)), (z3.Not(c), ("any", b))]


@spec("chooseUnit", "unit", "any")
def _(sem, u, a):
    return [(T, ("any", a))]


@spec("trace", "str", "any")
def _(sem, s, a):
    return [(T, ("any", a))]


@spec("appendString", "str", "str")
def _(sem, a, b):
    return [(T, ("str", z3.Concat(a, b)))]


@spec("equalsString", "str", "str")
def _(sem, a, b):
    return [(T, ("bool", a == b))]


@spec("encodeUtf8", "str")
def _(sem, a):
    return [(T, ("bytes", a))]


# list / pair builtins are specified over python-level shapes (concrete length, symbolic elements)
@spec("fstPair", "pair:any,any")
def _(sem, p):
    return [(T, p[0])]


@spec("sndPair", "pair:any,any")
def _(sem, p):
    return [(T, p[1])]


@spec("chooseList", "list:any", "any", "any")
def _(sem, l, a, b):
    return [(T, ("any", a if len(l[1]) == 0 else b))]


@spec("headList", "list:any")
def _(sem, l):
    return [(T, FAIL if len(l[1]) == 0 else l[1][0])]


@spec("tailList", "list:any")
def _(sem, l):
    return [(T, FAIL if len(l[1]) == 0 else ("list", l[0], l[1][1:]))]


@spec("nullList", "list:any")
def _(sem, l):
    return [(T, ("bool", z3.BoolVal(len(l[1]) == 0)))]


@spec("mkCons", "elem", "list:any")
def _(sem, x, l):
    return [(T, ("list", l[0], [x] + l[1]))]


@spec("dropList", "int", "list:any")
def _(sem, n, l):
    k = len(l[1])
    cases = [(n <= 0, ("list", l[0], l[1]))]
    for i in range(1, k):
        cases.append((n == i, ("list", l[0], l[1][i:])))
    if k >= 1:
        cases.append((n >= k, ("list", l[0], [])))
    else:
        cases.append((n > 0, ("list", l[0], [])))
    return cases


@spec("mkNilData", "unit")
def _(sem, u):
    return [(T, ("list", "data", []))]


@spec("mkNilPairData", "unit")
def _(sem, u):
    return [(T, ("list", "pair:data,data", []))]


# ----------------------------------------------------------------------------------------------
# Data builtins.  A data argument is a specs.data.DataV of a concrete top-level shape.


def _dv(d):
    return ("data", d)


@spec("chooseData", "data", "any", "any", "any", "any", "any")
def _(sem, d, c, m, l, i, b):
    pick = {"constr": c, "map": m, "list": l, "i": i, "b": b}[d[0]]
    return [(T, ("any", pick))]


@spec("constrData", "int", "list:data")
def _(sem, i, l):
    return [(T, _dv(("constr", i, [x[1] for x in l[1]])))]


@spec("mapData", "list:pair:data,data")
def _(sem, l):
    return [(T, _dv(("map", [(p[1][1], p[2][1]) for p in l[1]])))]


@spec("listData", "list:data")
def _(sem, l):
    return [(T, _dv(("list", [x[1] for x in l[1]])))]


@spec("iData", "int")
def _(sem, n):
    return [(T, _dv(("i", n)))]


@spec("bData", "bytes")
def _(sem, b):
    return [(T, _dv(("b", b)))]


@spec("unConstrData", "data")
def _(sem, d):
    if d[0] != "constr":
        return [(T, FAIL)]
    return [(T, ("pair", ("int", d[1]), ("list", "data", [_dv(x) for x in d[2]])))]


@spec("unMapData", "data")
def _(sem, d):
    if d[0] != "map":
        return [(T, FAIL)]
    return [(T, ("list", "pair:data,data", [("pair", _dv(k), _dv(v)) for k, v in d[1]]))]


@spec("unListData", "data")
def _(sem, d):
    if d[0] != "list":
        return [(T, FAIL)]
    return [(T, ("list", "data", [_dv(x) for x in d[1]]))]


@spec("unIData", "data")
def _(sem, d):
    if d[0] != "i":
        return [(T, FAIL)]
    return [(T, ("int", d[1]))]


@spec("unBData", "data")
def _(sem, d):
    if d[0] != "b":
        return [(T, FAIL)]
    return [(T, ("bytes", d[1]))]


@spec("equalsData", "data", "data")
def _(sem, a, b):
    from specs import data as SD
    return [(T, ("bool", SD.eq(a, b)))]


@spec("mkPairData", "data", "data")
def _(sem, a, b):
    return [(T, ("pair", _dv(a), _dv(b)))]


@spec("decodeUtf8", "bytes")
def _(sem, b):
    from mirsym.summaries import valid_utf8
    v = valid_utf8()(b)
    return [(v, ("str", b)), (z3.Not(v), FAIL)]


# ----------------------------------------------------------------------------------------------
# argument kinds of builtins without a result specification here (digest / curve arithmetic is not encoded):
# used for the no-panic and ill-typed-argument obligations only.
KINDS_ONLY = {
    "sha2_256": ["bytes"], "sha3_256": ["bytes"], "blake2b_256": ["bytes"], "blake2b_224": ["bytes"], "keccak_256": ["bytes"],
    "ripemd_160": ["bytes"], "verifyEd25519Signature": ["bytes", "bytes", "bytes"],
    "verifyEcdsaSecp256k1Signature": ["bytes", "bytes", "bytes"], "verifySchnorrSecp256k1Signature": ["bytes", "bytes", "bytes"],
    "serialiseData": ["data"],
}
