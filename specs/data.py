"""Specification-level view of Plutus `Data` values as they appear inside the mirsym executor
(pallas `PlutusData` trees), written from the ledger's CBOR/Data conventions:

  Constr i fs  <->  tag 121+i (0<=i<=6) | tag 1280+(i-7) (7<=i<=127) | tag 102 with explicit constructor number
  I n          <->  BigInt::Int(n) for n in the 64-bit CBOR integer range, BigUInt(be bytes of n) for n >= 2^64,
                    BigNInt(be bytes of -1-n) for n < -2^64
A DataV is a tuple:
  ('constr', idx: z3 Int, [DataV]) | ('map', [(DataV, DataV)]) | ('list', [DataV]) | ('i', z3 Int) | ('b', z3 Seq) | ('opaque', z3 Obj)
"""
from __future__ import annotations

import z3

from mirsym.exec import Unsupported
from mirsym.values import *  # noqa


def logical_index(tag_int, any_ctor_int):
    """constructor number of a (tag, any_constructor) pair; None-able pieces are z3 Ints; any_ctor_int may be None."""
    a = any_ctor_int if any_ctor_int is not None else z3.IntVal(-1)
    return z3.If(z3.And(tag_int >= 121, tag_int <= 127), tag_int - 121,
                 z3.If(z3.And(tag_int >= 1280, tag_int <= 1400), tag_int - 1280 + 7, a))


def well_formed_tag(tag_int, any_present: bool):
    """the representation invariant of Constr produced by the ledger decoder / by `constr`"""
    if any_present:
        return tag_int == 102
    return z3.Or(z3.And(tag_int >= 121, tag_int <= 127), z3.And(tag_int >= 1280, tag_int <= 1400))


def _vec_items(v):
    if isinstance(v, BoxV):
        v = v.inner
    if isinstance(v, Adt) and v.ty in ("MaybeIndefArray", "KeyValuePairs"):
        v = v.fields[0]
    if isinstance(v, VecV):
        v = v.items
    if isinstance(v, Arr):
        return list(v.elems)
    raise Unsupported(f"data list contents {v!r}"[:100])


def _int_of(ex, v):
    if isinstance(v, BigI):
        return v.e
    if isinstance(v, BV):
        return ex.to_int_expr(v)
    raise Unsupported(f"integer payload {v!r}"[:80])


def decode(w, ex, d):
    """mirsym PlutusData value -> DataV"""
    if isinstance(d, BoxV):
        d = d.inner
    if isinstance(d, Opaque):
        return ("opaque", d.e)
    if not isinstance(d, Adt) or d.ty != "PlutusData":
        raise Unsupported(f"not PlutusData: {d!r}"[:100])
    v = d.variant
    if v == "Constr":
        c = d.fields[0]
        tag = _int_of(ex, w.get(c, "tag"))
        anyc = w.get(c, "any_constructor")
        a = _int_of(ex, anyc.fields[0]) if (isinstance(anyc, Adt) and anyc.variant == "Some") else None
        return ("constr", logical_index(tag, a), [decode(w, ex, x) for x in _vec_items(w.get(c, "fields"))])
    if v == "Map":
        out = []
        for kv in _vec_items(d.fields[0]):
            out.append((decode(w, ex, kv.fields[0]), decode(w, ex, kv.fields[1])))
        return ("map", out)
    if v == "Array":
        return ("list", [decode(w, ex, x) for x in _vec_items(d.fields[0])])
    if v == "BigInt":
        b = d.fields[0]
        if isinstance(b, Opaque):
            return ("opaque", b.e)
        if isinstance(b, LibV) and b.kind == "pallas_bigint":
            return ("i", b.data[0])
        if isinstance(b, Adt) and b.variant == "Int":
            x = b.fields[0]
            if isinstance(x, LibV) and x.kind == "pallas_int":
                return ("i", x.data[0])
            raise Unsupported("pallas Int payload")
        if isinstance(b, Adt) and b.variant in ("BigUInt", "BigNInt"):
            from mirsym.summaries import be_value
            bb = b.fields[0]
            if isinstance(bb, Adt):
                bb = bb.fields[0]
            if isinstance(bb, VecV) and isinstance(bb.items, Bytes):
                m = be_value(bb.items.s)
                return ("i", m if b.variant == "BigUInt" else -1 - m)
            raise Unsupported("big integer bytes payload")
        raise Unsupported(f"BigInt payload {b!r}"[:80])
    if v == "BoundedBytes":
        b = d.fields[0]
        if isinstance(b, Adt):
            b = b.fields[0]
        if isinstance(b, VecV) and isinstance(b.items, Bytes):
            return ("b", b.items.s)
        raise Unsupported("bytes payload")
    raise Unsupported(f"PlutusData::{v}")


def eq(a, b):
    if a[0] != b[0]:
        return z3.BoolVal(False)
    k = a[0]
    if k in ("i", "b", "opaque"):
        return a[1] == b[1]
    if k == "list":
        if len(a[1]) != len(b[1]):
            return z3.BoolVal(False)
        return z3.And([eq(x, y) for x, y in zip(a[1], b[1])] + [z3.BoolVal(True)])
    if k == "map":
        if len(a[1]) != len(b[1]):
            return z3.BoolVal(False)
        return z3.And([z3.And(eq(x[0], y[0]), eq(x[1], y[1])) for x, y in zip(a[1], b[1])] + [z3.BoolVal(True)])
    if k == "constr":
        if len(a[2]) != len(b[2]):
            return z3.BoolVal(False)
        return z3.And([a[1] == b[1]] + [eq(x, y) for x, y in zip(a[2], b[2])])
    return z3.BoolVal(False)


# builders of mirsym PlutusData values from shapes ------------------------------------------------


def mk_opaque():
    return fresh_obj("d", "PlutusData")


def mk_list(w, items, indef=None):
    indef = (len(items) > 0) if indef is None else indef
    arr = Adt("MaybeIndefArray", "Indef" if indef else "Def", (VecV(Arr(tuple(items))),))
    return w.adt("PlutusData", "Array", arr)


def mk_map(w, pairs, indef=False):
    kv = Adt("KeyValuePairs", "Indef" if indef else "Def", (VecV(Arr(tuple(Tup((k, v)) for k, v in pairs))),))
    return w.adt("PlutusData", "Map", kv)


def mk_bytes(w, s):
    return w.adt("PlutusData", "BoundedBytes", Adt("BoundedBytes", None, (VecV(Bytes(s)),)))


def mk_int(w, e, rep="small"):
    """integer data in one of the three ledger representations; returns (value, constraint on e)"""
    from mirsym.summaries import be_bytes_fn
    if rep == "small":
        return w.adt("PlutusData", "BigInt", Adt("BigInt", "Int", (LibV("pallas_int", (e,)),))), z3.And(e >= -(1 << 64), e <= (1 << 64) - 1)
    f = be_bytes_fn()["f"]
    if rep == "big":
        bb = Adt("BoundedBytes", None, (VecV(Bytes(f(e))),))
        return w.adt("PlutusData", "BigInt", Adt("BigInt", "BigUInt", (bb,))), e >= (1 << 64)
    bb = Adt("BoundedBytes", None, (VecV(Bytes(f(-1 - e))),))
    return w.adt("PlutusData", "BigInt", Adt("BigInt", "BigNInt", (bb,))), e < -(1 << 64)


def mk_constr(w, ex, tag_bv, any_ctor, fields, indef=None):
    indef = (len(fields) > 0) if indef is None else indef
    arr = Adt("MaybeIndefArray", "Indef" if indef else "Def", (VecV(Arr(tuple(fields))),))
    c = Adt("Constr", None, (tag_bv, any_ctor, arr))
    # field order of pallas Constr: tag, any_constructor, fields
    d = w.decls.get("Constr", "plutus_data")
    names = [n for n, _ in d.fields]
    vals = {"tag": tag_bv, "any_constructor": any_ctor, "fields": arr}
    c = Adt("Constr", None, tuple(vals[n] for n in names))
    return w.adt("PlutusData", "Constr", c)
