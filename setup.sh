#!/bin/bash
# One-time offline setup: warm the dependency build caches used by the checks.
set -e
HERE="$(cd "$(dirname "${BASH_SOURCE[0]}")" && pwd)"
cd "$HERE"
export CARGO_NET_OFFLINE=true
mkdir -p .cache evidence replays
python3-vt -u - <<'PY'
import sys
sys.path.insert(0, '.')
from mirsym.world import World
World(("uplc",), deps=("pallas-codec",))
World(("aiken-project", "uplc"), deps=("pallas-codec",))  # first dump compiles aiken-project's dependencies with the nightly (long)
print("MIR dumps ok")
PY
(cd driver && cargo build --offline -j 14 --target-dir "$HERE/.cache/driver-target" 2>&1 | tail -3)
echo setup done
