"""Symbolic values of the MIR executor.  All values are immutable; containers (Box, Rc, Vec) are
inline values, so moving/cloning is sharing and mutation always goes through a place."""
from __future__ import annotations

from dataclasses import dataclass
from typing import Optional, Tuple

import z3

Obj = z3.DeclareSort("Obj")  # opaque objects (sub-terms, environments, ...): only equality
ByteSeq = z3.SeqSort(z3.BitVecSort(8))


class V:
    pass


@dataclass(frozen=True, eq=False)
class BV(V):
    e: object  # z3 BitVecRef
    bits: int
    signed: bool

    def __repr__(self):
        return f"BV{'i' if self.signed else 'u'}{self.bits}({self.e})"


@dataclass(frozen=True, eq=False)
class BoolV(V):
    e: object

    def __repr__(self):
        return f"Bool({self.e})"


@dataclass(frozen=True, eq=False)
class Tup(V):
    fields: Tuple

    def __repr__(self):
        return "(" + ", ".join(map(repr, self.fields)) + ")"


UNIT = Tup(())


@dataclass(frozen=True, eq=False)
class Adt(V):
    ty: str  # head name e.g. 'Value'
    variant: Optional[str]  # None for structs
    fields: Tuple

    def __repr__(self):
        v = f"::{self.variant}" if self.variant else ""
        return f"{self.ty}{v}(" + ", ".join(map(repr, self.fields)) + ")"


@dataclass(frozen=True, eq=False)
class EnumSym(V):
    """Field-less enum with a symbolic discriminant (e.g. a symbolic builtin tag)."""
    ty: str
    disc: object  # z3 BitVec (64-bit signed view)

    def __repr__(self):
        return f"{self.ty}::?({self.disc})"


@dataclass(frozen=True, eq=False)
class Arr(V):
    elems: Tuple  # concrete length

    def __repr__(self):
        return "[" + ", ".join(map(repr, self.elems)) + "]"


@dataclass(frozen=True, eq=False)
class SymSeq(V):
    """Sequence of opaque objects with symbolic length; element i is elem(base, i)."""
    base: object  # z3 Obj const naming the sequence
    length: object  # z3 BitVec 64
    elem_ty: str

    def __repr__(self):
        return f"SymSeq({self.base}, len={self.length})"


@dataclass(frozen=True, eq=False)
class SymArr(V):
    """Sequence with a concrete capacity and a symbolic length <= capacity (elements beyond the length are junk)."""
    elems: Tuple
    length: object  # z3 Int

    def __repr__(self):
        return f"SymArr(cap={len(self.elems)}, len={self.length})"


@dataclass(frozen=True, eq=False)
class Bytes(V):
    """Vec<u8> / [u8] contents as a z3 sequence of bytes."""
    s: object

    def __repr__(self):
        return f"Bytes({self.s})"


@dataclass(frozen=True, eq=False)
class Str(V):
    s: object  # UTF-8 bytes as z3 Seq(BitVec 8)
    cps: object = None  # optional: the string's Unicode scalar values (tuple of z3 Int) when it was built from code points

    def __repr__(self):
        return f"Str({self.s})"


@dataclass(frozen=True, eq=False)
class BigI(V):
    e: object  # z3 Int

    def __repr__(self):
        return f"BigInt({self.e})"


@dataclass(frozen=True, eq=False)
class BoxV(V):
    inner: V
    kind: str = "Box"  # 'Box' | 'Rc'

    def __repr__(self):
        return f"{self.kind}({self.inner!r})"


@dataclass(frozen=True, eq=False)
class VecV(V):
    """Vec<T>/slice contents: `items` is an Arr (concrete length) or SymSeq or Bytes."""
    items: V

    def __repr__(self):
        return f"Vec{self.items!r}"


@dataclass(frozen=True, eq=False)
class Ref(V):
    cell: object
    proj: Tuple = ()
    mut: bool = False

    def __repr__(self):
        return f"&{self.cell}{list(self.proj) if self.proj else ''}"


@dataclass(frozen=True, eq=False)
class Opaque(V):
    e: object  # z3 Obj
    ty: str = ""

    def __repr__(self):
        return f"Opaque({self.e})"


@dataclass(frozen=True, eq=False)
class FnRef(V):
    name: str

    def __repr__(self):
        return f"fn({self.name})"


@dataclass(frozen=True, eq=False)
class Closure(V):
    name: str
    captures: Tuple  # ((field_name, value), ...)
    generics: Tuple = ()  # generic context of the defining function ((param, type), ...)

    def __repr__(self):
        return f"closure({self.name})"


@dataclass(frozen=True, eq=False)
class LibV(V):
    """Library object with summary-defined content (iterators, ranges, hash maps, ...)."""
    kind: str
    data: Tuple = ()

    def __repr__(self):
        return f"{self.kind}{self.data!r}"


class _Uninit(V):
    def __repr__(self):
        return "<uninit>"


UNINIT = _Uninit()

_fresh_ctr = [0]


def fresh(prefix: str) -> str:
    _fresh_ctr[0] += 1
    return f"{prefix}!{_fresh_ctr[0]}"


def fresh_obj(prefix: str, ty: str = "") -> Opaque:
    return Opaque(z3.Const(fresh(prefix), Obj), ty)


def bv_const(val: int, bits: int, signed: bool) -> BV:
    return BV(z3.BitVecVal(val, bits), bits, signed)


def bv_sym(name: str, bits: int, signed: bool) -> BV:
    return BV(z3.BitVec(name, bits), bits, signed)


def usize(val) -> BV:
    if isinstance(val, int):
        return bv_const(val, 64, False)
    return BV(val, 64, False)


INT_TYPES = {
    "i8": (8, True), "i16": (16, True), "i32": (32, True), "i64": (64, True), "i128": (128, True), "isize": (64, True),
    "u8": (8, False), "u16": (16, False), "u32": (32, False), "u64": (64, False), "u128": (128, False), "usize": (64, False),
    "char": (32, False),
}
