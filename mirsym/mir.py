"""Parser for the textual MIR emitted by `rustc -Zunpretty=mir`.

Only the syntax that occurs in the dumped crates is supported; anything else is kept as a raw
string and makes the executor raise `Unsupported` when (and only when) it is reached.
"""
from __future__ import annotations

import hashlib
import os
import re
from dataclasses import dataclass, field
from typing import Dict, List, Optional, Tuple


class MirParseError(Exception):
    pass


# ----------------------------------------------------------------------------------------------
# places / operands / rvalues


@dataclass(frozen=True)
class Place:
    local: int
    proj: Tuple = ()  # tuple of projection elements

    def __str__(self):
        s = f"_{self.local}"
        for p in self.proj:
            s += "." + str(p)
        return s


# projection elements: ('deref',) ('field', n, ty) ('downcast', name) ('index', local)
# ('cindex', n, min_len, from_end) ('subslice', a, b, from_end)


@dataclass(frozen=True)
class Operand:
    kind: str  # 'copy' | 'move' | 'const'
    place: Optional[Place] = None
    const: Optional[str] = None


@dataclass
class Rvalue:
    kind: str
    args: tuple = ()
    text: str = ""


@dataclass
class Stmt:
    kind: str  # 'assign' | 'setdisc' | 'nop' | 'raw'
    place: Optional[Place] = None
    rv: Optional[Rvalue] = None
    text: str = ""
    extra: object = None


@dataclass
class Term:
    kind: str  # goto switch return unreachable assert call drop resume raw
    text: str = ""
    target: Optional[int] = None
    targets: Optional[List[Tuple[Optional[int], int]]] = None  # (value|None=otherwise, bb)
    op: Optional[Operand] = None
    negate: bool = False
    msg: str = ""
    dest: Optional[Place] = None
    callee: str = ""
    callee_op: Optional[Operand] = None
    args: Optional[List[Operand]] = None
    place: Optional[Place] = None


@dataclass
class Block:
    stmts: List[Stmt]
    term: Term
    cleanup: bool = False


@dataclass
class Function:
    name: str  # full header name
    header: str
    params: List[Tuple[int, str]]
    ret: str
    locals: Dict[int, str]
    blocks: Dict[int, Block]
    text: str
    impl_span: Optional[Tuple[str, int]] = None  # (file, line)
    self_ty: Optional[str] = None
    trait: Optional[str] = None
    method: str = ""
    path: str = ""  # module path prefix before <impl ...> or the free fn path
    impl_generics: List[str] = field(default_factory=list)
    debug: Dict[str, str] = field(default_factory=dict)

    @property
    def sha(self):
        return hashlib.sha256(self.text.encode()).hexdigest()[:16]


def split_top(s: str, sep: str = ",") -> List[str]:
    """Split on `sep` at nesting depth 0 of () [] {} <> (with -> and => handled) and outside strings."""
    out, depth, cur, i, n = [], 0, [], 0, len(s)
    instr = False
    while i < n:
        c = s[i]
        if instr:
            cur.append(c)
            if c == "\\" and i + 1 < n:
                cur.append(s[i + 1])
                i += 2
                continue
            if c == '"':
                instr = False
            i += 1
            continue
        if c == '"':
            instr = True
            cur.append(c)
        elif c in "([{":
            depth += 1
            cur.append(c)
        elif c in ")]}":
            depth -= 1
            cur.append(c)
        elif c == "<":
            depth += 1
            cur.append(c)
        elif c == ">":
            if i > 0 and s[i - 1] in "-=":
                cur.append(c)
            else:
                depth -= 1
                cur.append(c)
        elif c == sep and depth == 0:
            out.append("".join(cur).strip())
            cur = []
        else:
            cur.append(c)
        i += 1
    last = "".join(cur).strip()
    if last:
        out.append(last)
    return out


def find_matching(s: str, i: int) -> int:
    """s[i] is an opening bracket; return index of its match (strings respected)."""
    op = s[i]
    cl = {"(": ")", "[": "]", "{": "}", "<": ">"}[op]
    depth, n = 0, len(s)
    instr = False
    j = i
    while j < n:
        c = s[j]
        if instr:
            if c == "\\":
                j += 2
                continue
            if c == '"':
                instr = False
        elif c == '"':
            instr = True
        elif c == op:
            depth += 1
        elif c == cl:
            if not (cl == ">" and j > 0 and s[j - 1] in "-="):
                depth -= 1
                if depth == 0:
                    return j
        j += 1
    raise MirParseError(f"unbalanced {op} in {s!r}")


def parse_place(s: str) -> Place:
    s = s.strip()
    p, rest = _parse_place_prefix(s)
    if rest.strip():
        raise MirParseError(f"trailing place text {rest!r} in {s!r}")
    return p


def _parse_place_prefix(s: str):
    s = s.lstrip()
    if s.startswith("("):
        end = find_matching(s, 0)
        inner = s[1:end]
        rest = s[end + 1 :]
        if inner.startswith("*"):
            base = parse_place(inner[1:])
            place = Place(base.local, base.proj + (("deref",),))
        else:
            # (place.N: ty)  or (place as Variant)
            base, r = _parse_place_prefix(inner)
            r = r.strip()
            if r.startswith("as "):
                place = Place(base.local, base.proj + (("downcast", r[3:].strip()),))
            elif r.startswith("."):
                m = re.match(r"\.(\d+): (.*)$", r, re.S)
                if not m:
                    raise MirParseError(f"bad field projection {inner!r}")
                place = Place(base.local, base.proj + (("field", int(m.group(1)), m.group(2).strip()),))
            else:
                raise MirParseError(f"bad place {s!r}")
    else:
        m = re.match(r"_(\d+)", s)
        if not m:
            raise MirParseError(f"bad place {s!r}")
        place = Place(int(m.group(1)))
        rest = s[m.end() :]
    # index suffixes
    while rest.startswith("["):
        end = find_matching(rest, 0)
        idx = rest[1:end].strip()
        rest = rest[end + 1 :]
        m = re.match(r"_(\d+)$", idx)
        if m:
            place = Place(place.local, place.proj + (("index", int(m.group(1))),))
            continue
        m = re.match(r"(-?)(\d+) of (\d+)$", idx)
        if m:
            place = Place(place.local, place.proj + (("cindex", int(m.group(2)), int(m.group(3)), m.group(1) == "-"),))
            continue
        m = re.match(r"(\d+):(-?)(\d*)$", idx)
        if m:
            to = int(m.group(3)) if m.group(3) != "" else None
            place = Place(place.local, place.proj + (("subslice", int(m.group(1)), to, m.group(2) == "-"),))
            continue
        raise MirParseError(f"bad index {idx!r}")
    return place, rest


def parse_operand(s: str) -> Operand:
    s = s.strip()
    if s.startswith("no_retag "):
        s = s[9:]
    if s.startswith("copy "):
        return Operand("copy", parse_place(s[5:]))
    if s.startswith("move "):
        return Operand("move", parse_place(s[5:]))
    if s.startswith("const "):
        return Operand("const", const=s[6:].strip())
    # bare place (e.g. in discriminant()) or function item used as value
    try:
        return Operand("copy", parse_place(s))
    except MirParseError:
        return Operand("const", const=s)


_BINOPS = {
    "Add", "Sub", "Mul", "Div", "Rem", "BitAnd", "BitOr", "BitXor", "Shl", "Shr", "Eq", "Ne", "Lt",
    "Le", "Gt", "Ge", "AddWithOverflow", "SubWithOverflow", "MulWithOverflow", "AddUnchecked",
    "SubUnchecked", "MulUnchecked", "ShlUnchecked", "ShrUnchecked", "Offset", "Cmp",
}
_UNOPS = {"Not", "Neg", "PtrMetadata"}


def parse_rvalue(s: str) -> Rvalue:
    s = s.strip()
    if s.startswith("no_retag "):
        s = s[9:]
    m = re.match(r"([A-Za-z]+)\((.*)\)$", s, re.S)
    if m and m.group(1) in _BINOPS:
        a = split_top(m.group(2))
        if len(a) == 2:
            return Rvalue("binop", (m.group(1), parse_operand(a[0]), parse_operand(a[1])), s)
    if m and m.group(1) in _UNOPS:
        return Rvalue("unop", (m.group(1), parse_operand(m.group(2))), s)
    if m and m.group(1) == "discriminant":
        return Rvalue("discriminant", (parse_place(m.group(2)),), s)
    if m and m.group(1) == "Len":
        return Rvalue("len", (parse_place(m.group(2)),), s)
    if m and m.group(1) == "CopyForDeref":
        return Rvalue("use", (Operand("copy", parse_place(m.group(2))),), s)
    if s.startswith("&raw const ") or s.startswith("&raw mut "):
        mut = s.startswith("&raw mut ")
        rest = s.split(" ", 2)[2]
        if rest.startswith("(fake) "):
            rest = rest[7:]
        return Rvalue("ref", (parse_place(rest), mut, True), s)
    if s.startswith("&mut "):
        return Rvalue("ref", (parse_place(s[5:]), True, False), s)
    if s.startswith("&"):
        t = s[1:].strip()
        for pre in ("fake shallow ", "fake ", "two_phase "):
            if t.startswith(pre):
                t = t[len(pre):]
        return Rvalue("ref", (parse_place(t), False, False), s)
    # cast:  <operand> as <type> (<Kind>)
    m = re.match(r"^(copy|move|const) (.*) as (.*) \(([A-Za-z]+(?:\(.*\))?)\)$", s, re.S)
    if m:
        # find the ' as ' that separates operand from type: operand is a place or const -> try progressively
        head = m.group(1) + " "
        body = s[len(head):]
        # split at top-level " as " occurrences; operand part must parse
        idxs = [i for i in range(len(body)) if body.startswith(" as ", i)]
        for i in idxs:
            opnd, rest = body[:i], body[i + 4 :]
            mm = re.match(r"^(.*) \(([A-Za-z]+(?:\(.*\))?)\)$", rest, re.S)
            if not mm:
                continue
            try:
                op = parse_operand(head + opnd)
            except MirParseError:
                continue
            if op.kind != "const" or True:
                return Rvalue("cast", (op, mm.group(1).strip(), mm.group(2)), s)
    m = re.match(r"^([\w:<>{}#@]+) as (?:for<[^>]*> )?(?:unsafe )?(?:extern \"[^\"]*\" )?fn\(.*\(PointerCoercion\((?:ReifyFnPointer|ClosureFnPointer)\([A-Za-z]*\), [A-Za-z]*\)\)$", s, re.S)
    if m:
        return Rvalue("use", (Operand("const", const=m.group(1)),), s)
    if s.startswith("copy ") or s.startswith("move ") or s.startswith("const "):
        return Rvalue("use", (parse_operand(s),), s)
    # aggregates
    if s.startswith("(") and s.endswith(")"):
        inner = s[1:-1]
        ops = split_top(inner)
        # a 1-tuple is printed "(x,)"
        return Rvalue("tuple", tuple(parse_operand(o) for o in ops), s)
    if s.startswith("[") and s.endswith("]"):
        inner = s[1:-1]
        parts = split_top(inner, ";")
        if len(parts) == 2:
            return Rvalue("repeat", (parse_operand(parts[0]), parts[1].strip()), s)
        return Rvalue("array", tuple(parse_operand(o) for o in split_top(inner)), s)
    # closure aggregate: {closure@...} { name: op, ... }  or  {closure@...}
    if s.startswith("{closure@") or s.startswith("{coroutine@"):
        end = find_matching(s, 0)
        cname = s[: end + 1]
        rest = s[end + 1 :].strip()
        caps = []
        if rest.startswith("{"):
            body = rest[1 : find_matching(rest, 0)]
            for f in split_top(body):
                k, v = f.split(":", 1)
                caps.append((k.strip(), parse_operand(v)))
        return Rvalue("closure", (cname, tuple(caps)), s)
    # ADT aggregate: Path::Variant(ops) | Path { f: op } | Path::Variant { f: op } | Path (unit)
    m = re.match(r"^(.*?)\s*\{(.*)\}$", s, re.S)
    if m and not s.endswith(")"):
        path = m.group(1).strip()
        fields = []
        for f in split_top(m.group(2)):
            k, v = f.split(":", 1)
            fields.append((k.strip(), parse_operand(v)))
        return Rvalue("adt", (path, tuple(fields), True), s)
    if s.endswith(")"):
        # find the opening paren of the argument list: last top-level '(' group
        depth = 0
        start = None
        i = len(s) - 1
        end_match = None
        # scan from the end backwards to find matching '('
        j = i
        instr = False
        while j >= 0:
            c = s[j]
            if c == '"' and (j == 0 or s[j - 1] != "\\"):
                instr = not instr
            elif not instr:
                if c == ")":
                    depth += 1
                elif c == "(":
                    depth -= 1
                    if depth == 0:
                        start = j
                        break
            j -= 1
        if start is not None and start > 0:
            path = s[:start].strip()
            ops = split_top(s[start + 1 : -1])
            return Rvalue("adt", (path, tuple((str(k), parse_operand(o)) for k, o in enumerate(ops)), False), s)
    if re.match(r"^[A-Za-z_<]", s) and re.search(r"\w$", s):
        return Rvalue("adt", (s, (), False), s)
    return Rvalue("raw", (), s)


def parse_stmt(s: str) -> Stmt:
    s = s.strip()
    if s.endswith(";"):
        s = s[:-1]
    if s in ("nop",) or s.startswith(("StorageLive(", "StorageDead(", "FakeRead(", "Retag(", "PlaceMention(",
                                      "AscribeUserType(", "Coverage", "ConstEvalCounter", "BackwardIncompatibleDropHint(")):
        return Stmt("nop", text=s)
    if s.startswith("Deinit("):
        return Stmt("nop", text=s)
    if s.startswith("assume("):
        return Stmt("assume", extra=parse_operand(s[7:-1]), text=s)
    m = re.match(r"^discriminant\((.*)\) = (\d+)$", s)
    if m:
        return Stmt("setdisc", place=parse_place(m.group(1)), extra=int(m.group(2)), text=s)
    # assignment: find top-level " = "
    depth = 0
    instr = False
    for i, c in enumerate(s):
        if instr:
            if c == '"' and s[i - 1] != "\\":
                instr = False
            continue
        if c == '"':
            instr = True
        elif c in "([{":
            depth += 1
        elif c in ")]}":
            depth -= 1
        elif depth == 0 and s.startswith(" = ", i):
            try:
                pl = parse_place(s[:i])
                rv = parse_rvalue(s[i + 3 :])
                return Stmt("assign", place=pl, rv=rv, text=s)
            except MirParseError as e:
                return Stmt("raw", text=s, extra=str(e))
    return Stmt("raw", text=s)


def _parse_targets(s: str):
    # "[0: bb4, 1: bb3, otherwise: bb1]"  or "[return: bb1, unwind continue]" / "unwind continue"
    s = s.strip()
    out = {}
    if s.startswith("["):
        inner = s[1 : find_matching(s, 0)]
        for part in split_top(inner):
            if ":" in part:
                k, v = part.split(":", 1)
                v = v.strip()
                m = re.match(r"bb(\d+)$", v)
                out[k.strip()] = int(m.group(1)) if m else v
            else:
                out[part.strip()] = None
    else:
        out[s] = None
    return out


def parse_term(s: str) -> Term:
    s = s.strip()
    if s.endswith(";"):
        s = s[:-1]
    if s == "return":
        return Term("return", s)
    if s == "unreachable":
        return Term("unreachable", s)
    if s.startswith("resume") or s.startswith("terminate") or s.startswith("unwind"):
        return Term("resume", s)
    m = re.match(r"^goto -> bb(\d+)$", s)
    if m:
        return Term("goto", s, target=int(m.group(1)))
    if s.startswith("switchInt("):
        end = find_matching(s, len("switchInt"))
        op = parse_operand(s[len("switchInt(") : end])
        rest = s[end + 1 :].strip()
        assert rest.startswith("->")
        tg = _parse_targets(rest[2:])
        targets = []
        for k, v in tg.items():
            if k == "otherwise":
                targets.append((None, v))
            else:
                k2 = k
                if k2 == "false":
                    k2 = "0"
                if k2 == "true":
                    k2 = "1"
                k2 = re.sub(r"_[iu](\d+|size)$", "", k2)
                targets.append((int(k2), v))
        return Term("switch", s, op=op, targets=targets)
    if s.startswith("assert("):
        end = find_matching(s, len("assert"))
        inner = split_top(s[len("assert(") : end])
        cond = inner[0]
        neg = False
        if cond.startswith("!"):
            neg = True
            cond = cond[1:]
        rest = s[end + 1 :].strip()
        tg = _parse_targets(rest[2:])
        return Term("assert", s, op=parse_operand(cond), negate=neg, msg=inner[1] if len(inner) > 1 else "",
                    target=tg.get("success"))
    if s.startswith("drop("):
        end = find_matching(s, len("drop"))
        rest = s[end + 1 :].strip()
        tg = _parse_targets(rest[2:])
        return Term("drop", s, place=parse_place(s[5:end]), target=tg.get("return"))
    # call: DEST = CALLEE(ARGS) -> [return: bbN, unwind ...]   |  ... -> unwind continue
    # find top-level " -> " from the right
    idx = s.rfind(") -> ")
    if idx != -1:
        lhs = s[: idx + 1]
        tg = _parse_targets(s[idx + 5 :])
        eq = lhs.find(" = ")
        # dest place never contains " = "
        dest = parse_place(lhs[:eq])
        call = lhs[eq + 3 :]
        # args = last balanced paren group
        depth, j, instr = 0, len(call) - 1, False
        start = None
        while j >= 0:
            c = call[j]
            if c == '"' and (j == 0 or call[j - 1] != "\\"):
                instr = not instr
            elif not instr:
                if c == ")":
                    depth += 1
                elif c == "(":
                    depth -= 1
                    if depth == 0:
                        start = j
                        break
            j -= 1
        callee = call[:start].strip()
        args = [parse_operand(a) for a in split_top(call[start + 1 : -1])]
        callee_op = None
        if callee.startswith(("move ", "copy ")):
            callee_op = parse_operand(callee)
        return Term("call", s, dest=dest, callee=callee, callee_op=callee_op, args=args, target=tg.get("return"))
    return Term("raw", s)


_HDR = re.compile(r"^fn (.*) \{$")


def _split_header(h: str):
    """'name(args) -> ret' -> (name, args, ret)."""
    # find the '(' at angle depth 0 that starts the parameter list: first '(' followed by '_1: ' or ')'
    depth = 0
    i, n = 0, len(h)
    while i < n:
        c = h[i]
        if c == "<":
            depth += 1
        elif c == ">" and h[i - 1] not in "-=":
            depth -= 1
        elif c == "{":
            # {closure#0} / {closure@...}
            i = find_matching(h, i)
        elif c == "(" and depth == 0:
            break
        i += 1
    if i >= n:
        raise MirParseError(f"bad header {h!r}")
    end = find_matching(h, i)
    name = h[:i]
    args = h[i + 1 : end]
    rest = h[end + 1 :].strip()
    ret = rest[2:].strip() if rest.startswith("->") else "()"
    return name, args, ret


class Module:
    """All functions of one MIR dump, with an index to resolve call-site names."""

    def __init__(self, text: str, repo_root: str, crate_dir: str):
        self.repo_root = repo_root
        self.crate_dir = crate_dir  # e.g. 'crates/uplc'
        self.functions: Dict[str, Function] = {}
        self._src_cache: Dict[str, List[str]] = {}
        self.promoteds: Dict[str, Function] = {}
        self.const_values: Dict[str, str] = {}  # single-line consts: name -> literal text
        self.static_allocs: Dict[str, str] = {}  # allocN -> static item name
        self._parse(text)
        self._index()

    # -- parsing ----------------------------------------------------------------------------
    def _parse(self, text: str):
        lines = text.split("\n")
        i, n = 0, len(lines)
        while i < n:
            ln = lines[i]
            if ln.startswith("fn ") and ln.endswith("{"):
                j = i + 1
                while j < n and lines[j] != "}":
                    j += 1
                body = lines[i : j + 1]
                try:
                    f = self._parse_fn(body)
                    self.functions[f.name] = f
                except MirParseError:
                    pass
                i = j + 1
            elif (ln.startswith("const ") or ln.startswith("static ") or ln.startswith("promoted[") ) and ln.endswith("{"):
                j = i + 1
                while j < n and lines[j] != "}":
                    j += 1
                body = lines[i : j + 1]
                try:
                    f = self._parse_const(body)
                    if f is not None:
                        self.promoteds[f.name] = f
                except MirParseError:
                    pass
                i = j + 1
            else:
                m = re.match(r"^(alloc\d+) \(static: ([^,]+),", ln)
                if m:
                    self.static_allocs[m.group(1)] = m.group(2).strip()
                m = re.match(r"^(?:const|static) (\S+): (.*) = const (.*);$", ln)
                if m:
                    self.const_values[m.group(1)] = m.group(3)
                i += 1

    def _parse_body(self, body: List[str]):
        locals_: Dict[int, str] = {}
        blocks: Dict[int, Block] = {}
        debug: Dict[str, str] = {}
        k = 1
        n = len(body)
        while k < n:
            ln = body[k].strip()
            m = re.match(r"^let (?:mut )?_(\d+): (.*);$", ln)
            if m:
                locals_[int(m.group(1))] = m.group(2)
            else:
                m = re.match(r"^debug (\S+) => (.*);$", ln)
                if m:
                    debug[m.group(1)] = m.group(2)
                m = re.match(r"^bb(\d+)( \(cleanup\))?: \{$", ln)
                if m:
                    bid = int(m.group(1))
                    k += 1
                    raw = []
                    while body[k].strip() != "}":
                        raw.append(body[k].strip())
                        k += 1
                    # statements may span multiple lines only for huge consts; join defensively
                    stmts_txt = raw[:-1]
                    term_txt = raw[-1] if raw else "unreachable;"
                    blocks[bid] = (stmts_txt, term_txt, bool(m.group(2)))
            k += 1
        return locals_, blocks, debug

    def _parse_fn(self, body: List[str]) -> Function:
        h = _HDR.match(body[0]).group(1)
        name, args, ret = _split_header(h)
        params = []
        for a in split_top(args):
            m = re.match(r"^_(\d+): (.*)$", a, re.S)
            if m:
                params.append((int(m.group(1)), m.group(2)))
        locals_, rawblocks, debug = self._parse_body(body)
        f = Function(name=name, header=h, params=params, ret=ret, locals=locals_, blocks={}, text="\n".join(body), debug=debug)
        f._raw = rawblocks
        for p, t in params:
            f.locals[p] = t
        f.locals.setdefault(0, ret)
        return f

    def _parse_const(self, body: List[str]):
        m = re.match(r"^(?:const|static(?: mut)?) (.*): (.*) = \{$", body[0])
        if m:
            name, ty = m.group(1), m.group(2)
        else:
            m = re.match(r"^(promoted\[\d+\] in .*): (.*) = \{$", body[0])
            if not m:
                return None
            name, ty = m.group(1), m.group(2)
        locals_, rawblocks, debug = self._parse_body(body)
        f = Function(name=name, header=body[0], params=[], ret=ty, locals=locals_, blocks={}, text="\n".join(body))
        f._raw = rawblocks
        f.locals.setdefault(0, ty)
        return f

    @staticmethod
    def materialize(f: Function):
        """Parse statements lazily (the dump is big; most functions are never executed)."""
        if f.blocks:
            return f
        for bid, (stmts_txt, term_txt, cleanup) in f._raw.items():
            stmts = [parse_stmt(s) for s in stmts_txt]
            f.blocks[bid] = Block(stmts, parse_term(term_txt), cleanup)
        return f

    # -- name resolution -------------------------------------------------------------------
    def _src_line(self, file: str, line: int) -> str:
        if file not in self._src_cache:
            p = os.path.join(self.repo_root, file)
            if not os.path.exists(p):
                p2 = os.path.join(self.repo_root, self.crate_dir, file)
                p = p2 if os.path.exists(p2) else p
            try:
                self._src_cache[file] = open(p, encoding="utf-8", errors="replace").read().split("\n")
            except OSError:
                self._src_cache[file] = []
        src = self._src_cache[file]
        # join a few lines: impl headers may span lines
        return " ".join(x.strip() for x in src[line - 1 : line + 6])

    def _index(self):
        self.by_method: Dict[str, List[Function]] = {}
        for f in self.functions.values():
            m = re.search(r"<impl at ([^:>]+):(\d+):\d+: \d+:\d+>", f.name)
            if m:
                f.impl_span = (m.group(1), int(m.group(2)))
                f.path = f.name[: m.start()].rstrip(":")
                tail = f.name[m.end() :]
                f.method = tail.lstrip(":")
                src = self._src_line(*f.impl_span)
                f.trait, f.self_ty, f.impl_generics = _parse_impl_header(src)
            else:
                f.method = f.name.split("::")[-1] if "{closure" not in f.name else f.name
                f.path = f.name
            key = f.method.split("::<")[0]
            self.by_method.setdefault(key, []).append(f)

    def find(self, self_ty: Optional[str], method: str, trait: Optional[str] = None, nargs: Optional[int] = None) -> List[Function]:
        """Find functions by (self type head, method[, trait head])."""
        out = []
        for f in self.by_method.get(method, []):
            if self_ty is not None:
                if f.self_ty is None or _head(f.self_ty) != _head(self_ty):
                    continue
            if trait is not None:
                if f.trait is None or _head(f.trait) != _head(trait):
                    continue
            elif self_ty is not None and False:
                pass
            if nargs is not None and len(f.params) != nargs:
                continue
            out.append(f)
        return out

    def find_free(self, path: str, nargs: Optional[int] = None) -> List[Function]:
        segs = path.split("::")
        name = segs[-1]
        cands = [f for f in self.by_method.get(name, []) if f.impl_span is None]
        if nargs is not None:
            cands = [f for f in cands if len(f.params) == nargs]
        if len(cands) > 1:
            # prefer the longest common suffix with the given path
            def score(f):
                fs = f.name.split("::")
                k = 0
                while k < min(len(fs), len(segs)) and fs[-1 - k] == segs[-1 - k]:
                    k += 1
                return k
            best = max(score(f) for f in cands)
            cands = [f for f in cands if score(f) == best]
        return cands


def strip_generics(s: str) -> str:
    """Remove all <...> groups (not the leading <X as T> qualifier)."""
    out = []
    depth = 0
    i = 0
    while i < len(s):
        c = s[i]
        if c == "<":
            depth += 1
        elif c == ">" and (i == 0 or s[i - 1] not in "-="):
            depth -= 1
        elif depth == 0:
            out.append(c)
        i += 1
    return "".join(out)


def _head(ty: str) -> str:
    """Type head: last path segment without generics/refs: 'machine::value::Value' -> 'Value'."""
    t = ty.strip()
    t = re.sub(r"^&(?:'\w+ )?(?:mut )?", "", t)
    if t.startswith("["):
        return "[]"
    if t.startswith("("):
        return "()"
    t = strip_generics(t)
    t = t.rstrip(":")
    return t.split("::")[-1].strip()


def _parse_impl_header(src: str):
    """'impl<T> Trait<X> for Type<T> {' -> (trait, self_ty, generics); 'impl Type {' -> (None, Type, [])."""
    m = re.match(r"^(?:unsafe )?impl\b\s*", src)
    if not m:
        # derive(...) spans point at the derive attribute item e.g. 'Debug'/'Clone' inside #[derive(...)]
        return ("derive", None, [])
    s = src[m.end() :]
    gens = []
    if s.startswith("<"):
        e = find_matching(s, 0)
        for g in split_top(s[1:e]):
            g = g.split(":")[0].strip()
            if g and not g.startswith("'"):
                gens.append(g.replace("const ", "").strip())
        s = s[e + 1 :].strip()
    # cut at '{' or ' where '
    cut = len(s)
    for tok in ("{", " where "):
        k = s.find(tok)
        if k != -1:
            cut = min(cut, k)
    s = s[:cut].strip()
    # split on top-level ' for '
    depth = 0
    for i in range(len(s)):
        c = s[i]
        if c == "<":
            depth += 1
        elif c == ">" and s[i - 1] not in "-=":
            depth -= 1
        elif depth == 0 and s.startswith(" for ", i):
            return (s[:i].strip(), s[i + 5 :].strip(), gens)
    return (None, s, gens)


def type_tree(t: str):
    """('Head', [args]) with lifetimes, references and module paths removed."""
    t = t.strip()
    t = re.sub(r"^&(?:'\w+ )?(?:mut )?", "&", t)
    if t.startswith("&"):
        return ("&", [type_tree(t[1:])])
    if t.startswith("("):
        inner = t[1 : find_matching(t, 0)]
        return ("()", [type_tree(x) for x in split_top(inner)])
    if t.startswith("["):
        inner = t[1 : find_matching(t, 0)]
        return ("[]", [type_tree(split_top(inner, ";")[0])])
    k = t.find("<")
    if k == -1:
        return (t.split("::")[-1], [])
    e = find_matching(t, k)
    head = t[:k].rstrip(":").split("::")[-1]
    args = [type_tree(a) for a in split_top(t[k + 1 : e]) if not a.strip().startswith("'")]
    return (head, args)


def unify_ty(pat, conc, gens, binding) -> bool:
    ph, pa = pat
    if not pa and ph in gens:
        if ph in binding:
            return binding[ph] == conc
        binding[ph] = conc
        return True
    ch, ca = conc
    if ph != ch or len(pa) != len(ca):
        return False
    return all(unify_ty(x, y, gens, binding) for x, y in zip(pa, ca))


def tree_str(t) -> str:
    h, a = t
    if h == "&":
        return "&" + tree_str(a[0])
    if h == "()":
        return "(" + ", ".join(tree_str(x) for x in a) + ")"
    if h == "[]":
        return "[" + tree_str(a[0]) + "]"
    return h + ("<" + ", ".join(tree_str(x) for x in a) + ">" if a else "")


def load(path: str, repo_root: str, crate_dir: str) -> Module:
    return Module(open(path, encoding="utf-8").read(), repo_root, crate_dir)


def _norm_ws(t: str) -> str:
    t = re.sub(r"'\w+\s*,?\s*", "", t)
    t = re.sub(r"\b(\w+::)+", "", t)
    return t.replace(" ", "")
