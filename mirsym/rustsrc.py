"""Tiny scanner for `struct` / `enum` declarations in Rust sources.

The MIR text addresses fields by index and variants by name; aggregates with named fields and
`discriminant()` need the declaration order.  This scanner reads declarations from the *current*
sources (so that reordering fields/variants in /repo is followed), it does not parse Rust in general.
"""
from __future__ import annotations

import os
import re
from dataclasses import dataclass, field
from typing import Dict, List, Optional, Tuple


@dataclass
class Variant:
    name: str
    disc: int
    fields: List[Tuple[Optional[str], str]]  # (name|None, type)
    kind: str  # 'unit' | 'tuple' | 'struct'


@dataclass
class Decl:
    name: str
    kind: str  # 'struct' | 'enum'
    file: str
    fields: List[Tuple[Optional[str], str]] = field(default_factory=list)  # struct
    variants: List[Variant] = field(default_factory=list)  # enum
    generics: List[str] = field(default_factory=list)

    def variant(self, name: str) -> Variant:
        for v in self.variants:
            if v.name == name:
                return v
        raise KeyError(f"{self.name}::{name}")

    def variant_by_disc(self, d: int) -> Optional[Variant]:
        for v in self.variants:
            if v.disc == d:
                return v
        return None


def _strip_comments(src: str) -> str:
    out = []
    i, n = 0, len(src)
    while i < n:
        c = src[i]
        if src.startswith("//", i):
            j = src.find("\n", i)
            i = n if j == -1 else j
        elif src.startswith("/*", i):
            j = src.find("*/", i + 2)
            i = n if j == -1 else j + 2
        elif c == '"':
            j = i + 1
            while j < n and src[j] != '"':
                j += 2 if src[j] == "\\" else 1
            out.append('""')
            i = j + 1
        elif c == "'" and i + 2 < n and (src[i + 2] == "'" or (src[i + 1] == "\\")):
            j = src.find("'", i + 2)
            out.append("' '")
            i = j + 1 if j != -1 else i + 1
        else:
            out.append(c)
            i += 1
    return "".join(out)


def _match(s: str, i: int) -> int:
    op = s[i]
    cl = {"(": ")", "{": "}", "[": "]", "<": ">"}[op]
    d = 0
    for j in range(i, len(s)):
        if s[j] == op:
            d += 1
        elif s[j] == cl and not (cl == ">" and s[j - 1] in "-="):
            d -= 1
            if d == 0:
                return j
    return len(s) - 1


def _split(s: str) -> List[str]:
    out, d, cur = [], 0, []
    for i, c in enumerate(s):
        if c in "([{<":
            d += 1
        elif c in ")]}" or (c == ">" and s[i - 1] not in "-="):
            d -= 1
        if c == "," and d == 0:
            out.append("".join(cur))
            cur = []
        else:
            cur.append(c)
    if "".join(cur).strip():
        out.append("".join(cur))
    return [x.strip() for x in out if x.strip()]


def _strip_attrs(s: str) -> str:
    s = s.strip()
    while s.startswith("#"):
        k = s.find("[")
        s = s[_match(s, k) + 1 :].strip()
    s = re.sub(r"^pub(\([^)]*\))?\s+", "", s)
    return s


def _fields_struct(body: str):
    out = []
    for f in _split(body):
        f = _strip_attrs(f)
        if ":" in f:
            n, t = f.split(":", 1)
            out.append((n.strip(), t.strip()))
    return out


def _fields_tuple(body: str):
    return [(None, _strip_attrs(f)) for f in _split(body)]


def scan_text(src: str, file: str) -> List[Decl]:
    s = _strip_comments(src)
    decls = []
    for m in re.finditer(r"\b(struct|enum)\s+([A-Za-z_]\w*)", s):
        kind, name = m.group(1), m.group(2)
        i = m.end()
        # skip generics
        while i < len(s) and s[i].isspace():
            i += 1
        gens = []
        if i < len(s) and s[i] == "<":
            e = _match(s, i)
            for g in _split(s[i + 1:e]):
                g = g.split(":")[0].strip()
                if g and not g.startswith("'"):
                    gens.append(g.replace("const ", "").strip())
            i = e + 1
        # skip where clause up to { ( ;
        while i < len(s) and s[i] not in "{(;":
            i += 1
        if i >= len(s):
            continue
        if kind == "struct":
            if s[i] == "{":
                body = s[i + 1 : _match(s, i)]
                decls.append(Decl(name, "struct", file, fields=_fields_struct(body), generics=gens))
            elif s[i] == "(":
                body = s[i + 1 : _match(s, i)]
                decls.append(Decl(name, "struct", file, fields=_fields_tuple(body), generics=gens))
            else:
                decls.append(Decl(name, "struct", file, fields=[]))
        else:
            if s[i] != "{":
                continue
            body = s[i + 1 : _match(s, i)]
            variants = []
            nxt = 0
            for v in _split(body):
                v = _strip_attrs(v)
                mm = re.match(r"^([A-Za-z_]\w*)\s*(.*)$", v, re.S)
                if not mm:
                    continue
                vn, rest = mm.group(1), mm.group(2).strip()
                disc = nxt
                vk, vf = "unit", []
                if rest.startswith("("):
                    e = _match(rest, 0)
                    vf = _fields_tuple(rest[1:e])
                    vk = "tuple"
                    rest = rest[e + 1 :].strip()
                elif rest.startswith("{"):
                    e = _match(rest, 0)
                    vf = _fields_struct(rest[1:e])
                    vk = "struct"
                    rest = rest[e + 1 :].strip()
                if rest.startswith("="):
                    try:
                        disc = int(rest[1:].strip().replace("_", ""), 0)
                    except ValueError:
                        pass
                variants.append(Variant(vn, disc, vf, vk))
                nxt = disc + 1
            decls.append(Decl(name, "enum", file, variants=variants, generics=gens))
    return decls


class Decls:
    def __init__(self):
        self.by_name: Dict[str, List[Decl]] = {}

    def scan_dir(self, root: str):
        for dp, _dn, fns in os.walk(root):
            if "/target" in dp or "/tests/" in dp:
                continue
            for fn in fns:
                if fn.endswith(".rs"):
                    p = os.path.join(dp, fn)
                    try:
                        for d in scan_text(open(p, encoding="utf-8", errors="replace").read(), p):
                            self.by_name.setdefault(d.name, []).append(d)
                    except OSError:
                        pass

    def add_builtin(self):
        def en(name, vs):
            self.by_name.setdefault(name, []).insert(0, Decl(name, "enum", "<std>", variants=vs))
        en("Option", [Variant("None", 0, [], "unit"), Variant("Some", 1, [(None, "T")], "tuple")])
        en("Result", [Variant("Ok", 0, [(None, "T")], "tuple"), Variant("Err", 1, [(None, "E")], "tuple")])
        en("ControlFlow", [Variant("Continue", 0, [(None, "C")], "tuple"), Variant("Break", 1, [(None, "B")], "tuple")])
        en("Ordering", [Variant("Less", -1, [], "unit"), Variant("Equal", 0, [], "unit"), Variant("Greater", 1, [], "unit")])
        en("Sign", [Variant("Minus", 0, [], "unit"), Variant("NoSign", 1, [], "unit"), Variant("Plus", 2, [], "unit")])
        en("Infallible", [])
        en("EitherOrBoth", [Variant("Both", 0, [(None, "A"), (None, "B")], "tuple"), Variant("Left", 1, [(None, "A")], "tuple"),
                            Variant("Right", 2, [(None, "B")], "tuple")])

        def stc(name, fields):
            self.by_name.setdefault(name, []).insert(0, Decl(name, "struct", "<std>", fields=fields))
        stc("Range", [("start", "Idx"), ("end", "Idx")])
        stc("RangeFrom", [("start", "Idx")])
        stc("RangeTo", [("end", "Idx")])
        stc("RangeFull", [])
        stc("RangeInclusive", [("start", "Idx"), ("end", "Idx"), ("exhausted", "bool")])

    def get(self, name: str, hint: str = "") -> Optional[Decl]:
        c = self.by_name.get(name)
        if not c:
            return None
        if len(c) == 1 or not hint:
            return c[0]
        # prefer a declaration whose file path contains a segment of the hint path
        segs = [x for x in re.split(r"::", hint) if x]
        best, bs = c[0], -1
        for d in c:
            sc = sum(1 for x in segs if x in d.file)
            if sc > bs:
                best, bs = d, sc
        return best
