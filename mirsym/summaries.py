"""Summaries of library (std / num-bigint / num-integer / ...) callees: each gives the callee its
documented meaning on symbolic values.  This catalogue is part of the trusted base of mirsym and
is validated by differential runs against the native code (see mirsym/validate.py).

A handler has signature  h(ex, st, callee, args, dest_ty) -> V | [(cond, V|Panic)] | Forked
"""
from __future__ import annotations

import re
from typing import Callable, Dict, List, Optional

import z3

from .exec import (Callee, Diverge, Effect, Executor, Infeasible, Panic, State, Unsupported, _type_head, bytes_lit,
                   is_concrete, parse_callee)
from .mir import split_top
from .values import *  # noqa

TABLE: Dict[str, Callable] = {}
PREDS: List = []


def reg(*keys):
    def deco(f):
        for k in keys:
            TABLE[k] = f
        return f
    return deco


def reg_pred(pred):
    def deco(f):
        PREDS.append((pred, f))
        return f
    return deco


def lookup(c: Callee):
    h = TABLE.get(c.key)
    if h is not None:
        return h
    for pred, f in PREDS:
        if pred(c):
            return f
    return None


# ---------------------------------------------------------------------------------------------
# helpers


def deref(ex: Executor, st: State, v: V) -> V:
    """Follow references (any depth) to the value."""
    while isinstance(v, Ref):
        v = ex.read(st, v.cell, v.proj)
    return v


def deref1(ex, st, v):
    if isinstance(v, Ref):
        return ex.read(st, v.cell, v.proj)
    return v


def as_big(ex, st, v) -> BigI:
    v = deref(ex, st, v)
    if isinstance(v, BigI):
        return v
    if isinstance(v, BV):
        return BigI(ex.to_int_expr(v))
    raise Unsupported(f"expected BigInt, got {type(v).__name__}")


def items_of(ex, st, v) -> V:
    v = deref(ex, st, v)
    if isinstance(v, VecV):
        v = v.items
    return v


def bool_adt(ex, b) -> BoolV:
    return BoolV(b)


def write_through(ex, st, r: V, nv: V):
    if not isinstance(r, Ref):
        raise Unsupported("write through non-ref")
    ex.write(st, r.cell, r.proj, nv)


def int_len(ex, items) -> object:
    """length as z3 Int"""
    if isinstance(items, Arr):
        return z3.IntVal(len(items.elems))
    if isinstance(items, Bytes):
        return z3.Length(items.s)
    if isinstance(items, SymSeq):
        return z3.BV2Int(items.length, False)
    if isinstance(items, SymArr):
        return items.length if z3.is_int(items.length) else z3.BV2Int(items.length, False)
    raise Unsupported(f"len of {type(items).__name__}")


def usize_of_int(ex, e) -> BV:
    return BV(e, 64, False)


# ---------------------------------------------------------------------------------------------
# Try / FromResidual / Option / Result


@reg("<Result as Try>::branch")
def _try_branch_result(ex, st, c, args, dty):
    v = args[0]
    if isinstance(v, Adt) and v.variant == "Ok":
        return Adt("ControlFlow", "Continue", (v.fields[0],))
    if isinstance(v, Adt) and v.variant == "Err":
        return Adt("ControlFlow", "Break", (Adt("Result", "Err", (v.fields[0],)),))
    raise Unsupported(f"Try::branch on {v!r}")


@reg("<Option as Try>::branch")
def _try_branch_option(ex, st, c, args, dty):
    v = args[0]
    if isinstance(v, Adt) and v.variant == "Some":
        return Adt("ControlFlow", "Continue", (v.fields[0],))
    if isinstance(v, Adt) and v.variant == "None":
        return Adt("ControlFlow", "Break", (Adt("Option", "None", ()),))
    raise Unsupported(f"Try::branch on {v!r}")


@reg("<Result as FromResidual>::from_residual")
def _from_residual_result(ex, st, c, args, dty):
    v = args[0]
    if isinstance(v, Adt) and v.variant == "Err":
        e = v.fields[0]
        # error conversion `From<E> for F`: identity when types agree
        m = re.match(r"^.*FromResidual<(?:std::result::)?Result<(?:std::convert::)?Infallible, (.*)>>$", c.trait or "")
        src = m.group(1).strip() if m else None
        mq = re.match(r"^(?:std::result::)?Result<(.*)>$", (c.qself or "").strip(), re.S)
        dst = split_top(mq.group(1))[-1].strip() if mq else None
        if src and dst and _type_head(src) != _type_head(dst):
            return CallProject(f"<{dst} as From<{src}>>::from", [e], lambda r: Adt("Result", "Err", (r,)))
        return Adt("Result", "Err", (e,))
    raise Unsupported(f"from_residual on {v!r}")


@reg("<Option as FromResidual>::from_residual")
def _from_residual_option(ex, st, c, args, dty):
    return Adt("Option", "None", ())


class CallProject:
    """Summary result: call a project function (by callee string), then post-process its value."""

    def __init__(self, callee: str, args, post=lambda r: r):
        self.callee, self.args, self.post = callee, args, post


def call_sync(ex: Executor, st: State, callee_s: str, args) -> list:
    """Run a callee to completion on clones of `st`; returns [(State, V|Panic)]."""
    c = parse_callee(callee_s)
    h = ex.stubs.get(c.key)
    fn = None
    if h is None:
        fn = ex.resolve_fn(c, args)
        if fn is None:
            h = lookup(c)
    if h is not None:
        res = h(ex, st, c, args, "")
        if isinstance(res, list):
            out = []
            for cond, val in res:
                s2 = st.clone()
                if cond is not None:
                    if ex.check(s2.pc, cond) != "sat":
                        continue
                    s2.pc.append(cond)
                if isinstance(val, Effect):
                    val = val.fn(s2)
                out.append((s2, val))
            return out
        if isinstance(res, Forked):
            return res.cases
        if isinstance(res, CallProject):
            out = []
            for s2, v in call_sync(ex, st, res.callee, res.args):
                out.append((s2, v if isinstance(v, Panic) else res.post(v)))
            return out
        if isinstance(res, Effect):
            s2 = st.clone()
            return [(s2, res.fn(s2))]
        return [(st.clone(), res)]
    if fn is None:
        raise Unsupported(f"no summary or MIR for callee `{c.key}` ({callee_s[:100]})")
    s = st.clone()
    depth = len(s.frames)
    # spread closure tuple args
    if len(args) != len(fn.params) and len(args) == 2 and isinstance(args[1], Tup) and len(args[1].fields) + 1 == len(fn.params):
        args = [args[0]] + list(args[1].fields)
    ex.start(fn, args, s, ex.infer_generics(fn, c, s.frames[-1]) if s.frames else None)
    outs = ex.run_state_nested(s, depth + 1)
    res = []
    for o in outs:
        if o.kind == "return":
            res.append((o.state, o.value))
        elif o.kind == "panic":
            res.append((o.state, Panic(o.msg)))
        else:
            raise Unsupported(o.msg)
    return res


class Forked:
    def __init__(self, cases):
        self.cases = cases  # [(State, V|Panic)]


def call_closure(ex, st, f: V, args: list):
    """Invoke a closure / fn item value synchronously."""
    f0 = deref(ex, st, f)
    if isinstance(f0, Closure):
        fn = None
        for mod in ex.modules:
            for name, cand in mod.functions.items():
                if name.endswith("::{closure#0}") or "{closure#" in name:
                    pass
            # closures are named <parent>::{closure#N}; locate by source span in the type name
        span = re.search(r"\{closure@([^:]+):(\d+):(\d+): (\d+):(\d+)\}", f0.name)
        target = None
        for mod in ex.modules:
            for name, cand in mod.functions.items():
                if "{closure#" in name and cand.params and f0.name in cand.params[0][1]:
                    target = cand
                    break
            if target:
                break
        if target is None:
            raise Unsupported(f"closure body not found for {f0.name}")
        first = f if (target.params[0][1].startswith("&") and isinstance(f, Ref)) else (f0 if not target.params[0][1].startswith("&") else ex.alloc(st, f0))
        s = st.clone()
        depth = len(s.frames)
        gen = dict(f0.generics) if f0.generics else (s.frames[-1].generics if s.frames else None)
        ex.start(target, [first] + list(args), s, gen)
        outs = ex.run_state_nested(s, depth + 1)
        res = []
        for o in outs:
            if o.kind == "return":
                res.append((o.state, o.value))
            elif o.kind == "panic":
                res.append((o.state, Panic(o.msg)))
            else:
                raise Unsupported(o.msg)
        return res
    if isinstance(f0, FnRef):
        return call_sync(ex, st, f0.name, args)
    raise Unsupported(f"call of {type(f0).__name__}")


@reg("Option::unwrap", "Option::expect")
def _opt_unwrap(ex, st, c, args, dty):
    v = args[0]
    if isinstance(v, Adt) and v.variant == "Some":
        return v.fields[0]
    if isinstance(v, Adt) and v.variant == "None":
        return [(None, Panic("called `Option::unwrap()` on a `None` value"))]
    raise Unsupported(f"unwrap on {v!r}")


@reg("Result::unwrap", "Result::expect")
def _res_unwrap(ex, st, c, args, dty):
    v = args[0]
    if isinstance(v, Adt) and v.variant == "Ok":
        return v.fields[0]
    if isinstance(v, Adt) and v.variant == "Err":
        return [(None, Panic("called `Result::unwrap()` on an `Err` value"))]
    raise Unsupported(f"unwrap on {v!r}")


@reg("Option::is_some")
def _opt_is_some(ex, st, c, args, dty):
    v = deref(ex, st, args[0])
    return BoolV(z3.BoolVal(v.variant == "Some"))


@reg("Option::is_none")
def _opt_is_none(ex, st, c, args, dty):
    v = deref(ex, st, args[0])
    return BoolV(z3.BoolVal(v.variant == "None"))


@reg("Result::is_ok")
def _res_is_ok(ex, st, c, args, dty):
    v = deref(ex, st, args[0])
    return BoolV(z3.BoolVal(v.variant == "Ok"))


@reg("Result::is_err")
def _res_is_err(ex, st, c, args, dty):
    v = deref(ex, st, args[0])
    return BoolV(z3.BoolVal(v.variant == "Err"))


@reg("Option::cloned", "Option::copied")
def _opt_cloned(ex, st, c, args, dty):
    v = args[0]
    if v.variant == "Some":
        return Adt("Option", "Some", (deref1(ex, st, v.fields[0]),))
    return v


@reg("Option::as_ref")
def _opt_as_ref(ex, st, c, args, dty):
    r = args[0]
    v = deref(ex, st, r)
    if v.variant == "Some":
        return Adt("Option", "Some", (Ref(r.cell, r.proj + (("downcast", "Some"), ("field", 0))),))
    return v


@reg("Option::ok_or_else")
def _opt_ok_or_else(ex, st, c, args, dty):
    v = args[0]
    if v.variant == "Some":
        return Adt("Result", "Ok", (v.fields[0],))
    cases = call_closure(ex, st, args[1], [])
    return Forked([(s, r if isinstance(r, Panic) else Adt("Result", "Err", (r,))) for s, r in cases])


@reg("Option::ok_or")
def _opt_ok_or(ex, st, c, args, dty):
    v = args[0]
    if v.variant == "Some":
        return Adt("Result", "Ok", (v.fields[0],))
    return Adt("Result", "Err", (args[1],))


@reg("Option::and_then")
def _opt_and_then(ex, st, c, args, dty):
    v = args[0]
    if v.variant == "None":
        return v
    return Forked(call_closure(ex, st, args[1], [v.fields[0]]))


@reg("Option::map_or")
def _opt_map_or(ex, st, c, args, dty):
    v = args[0]
    if v.variant == "None":
        return args[1]
    return Forked(call_closure(ex, st, args[2], [v.fields[0]]))


@reg("Option::map")
def _opt_map(ex, st, c, args, dty):
    v = args[0]
    if v.variant == "None":
        return v
    cases = call_closure(ex, st, args[1], [v.fields[0]])
    return Forked([(s, r if isinstance(r, Panic) else Adt("Option", "Some", (r,))) for s, r in cases])


@reg("Result::map_err")
def _res_map_err(ex, st, c, args, dty):
    v = args[0]
    if v.variant == "Ok":
        return v
    cases = call_closure(ex, st, args[1], [v.fields[0]])
    return Forked([(s, r if isinstance(r, Panic) else Adt("Result", "Err", (r,))) for s, r in cases])


@reg("Result::map")
def _res_map(ex, st, c, args, dty):
    v = args[0]
    if v.variant == "Err":
        return v
    cases = call_closure(ex, st, args[1], [v.fields[0]])
    return Forked([(s, r if isinstance(r, Panic) else Adt("Result", "Ok", (r,))) for s, r in cases])


@reg("Result::ok")
def _res_ok(ex, st, c, args, dty):
    v = args[0]
    if v.variant == "Ok":
        return Adt("Option", "Some", (v.fields[0],))
    return Adt("Option", "None", ())


@reg("Result::or")
def _res_or(ex, st, c, args, dty):
    v = args[0]
    return Adt("Result", "Ok", (v.fields[0],)) if v.variant == "Ok" else args[1]


@reg("Option::or")
def _opt_or(ex, st, c, args, dty):
    v = args[0]
    return v if v.variant == "Some" else args[1]


@reg("Option::unwrap_or")
def _opt_unwrap_or(ex, st, c, args, dty):
    v = args[0]
    return v.fields[0] if v.variant == "Some" else args[1]


@reg("Result::unwrap_or")
def _res_unwrap_or(ex, st, c, args, dty):
    v = args[0]
    return v.fields[0] if v.variant == "Ok" else args[1]


@reg_pred(lambda c: c.trait is not None and _type_head(c.trait) in ("FnOnce", "FnMut", "Fn") and c.method in ("call_once", "call_mut", "call"))
def _fn_call(ex, st, c, args, dty):
    a = args[1]
    spread = list(a.fields) if isinstance(a, Tup) else [a]
    return Forked(call_closure(ex, st, args[0], spread))


# ---------------------------------------------------------------------------------------------
# Clone / Drop / mem / Default


@reg_pred(lambda c: c.trait is not None and _type_head(c.trait) == "Clone" and c.method == "clone")
def _clone(ex, st, c, args, dty):
    return deref1(ex, st, args[0])


@reg_pred(lambda c: c.trait is not None and _type_head(c.trait) == "ToOwned" and c.method == "to_owned")
def _to_owned(ex, st, c, args, dty):
    # T: Clone => to_owned = clone (slices / str are handled by their own summaries before this one)
    return deref1(ex, st, args[0])


@reg_pred(lambda c: c.trait is not None and _type_head(c.trait) == "Drop" and c.method == "drop")
def _drop(ex, st, c, args, dty):
    return UNIT


@reg("mem::drop", "drop_in_place", "ptr::drop_in_place")
def _mem_drop(ex, st, c, args, dty):
    return UNIT


@reg("mem::replace")
def _mem_replace(ex, st, c, args, dty):
    old = deref1(ex, st, args[0])
    write_through(ex, st, args[0], args[1])
    return old


@reg("mem::take")
def _mem_take(ex, st, c, args, dty):
    raise Unsupported("mem::take")


# ---------------------------------------------------------------------------------------------
# Box / Rc


@reg("Box::new", "Rc::new", "Arc::new")
def _box_new(ex, st, c, args, dty):
    return BoxV(args[0], "Rc" if c.segs[-2] in ("Rc", "Arc") else "Box")


@reg_pred(lambda c: c.method in ("as_ref", "deref", "borrow") and c.qself is not None and _type_head(c.qself) in ("Rc", "Box", "Arc"))
def _rc_as_ref(ex, st, c, args, dty):
    r = args[0]
    if not isinstance(r, Ref):
        raise Unsupported("as_ref on non-ref")
    return Ref(r.cell, r.proj + (("inner",),))


@reg_pred(lambda c: c.method in ("deref_mut", "as_mut") and c.qself is not None and _type_head(c.qself) in ("Box",))
def _box_as_mut(ex, st, c, args, dty):
    r = args[0]
    return Ref(r.cell, r.proj + (("inner",),), True)


@reg("Rc::make_mut")
def _rc_make_mut(ex, st, c, args, dty):
    # clone-on-write: values are immutable copies here, so mutating this Rc's copy in place is exactly
    # what other holders observe (nothing)
    r = args[0]
    return Ref(r.cell, r.proj + (("inner",),), True)


@reg("Rc::ptr_eq")
def _rc_ptr_eq(ex, st, c, args, dty):
    raise Unsupported("Rc::ptr_eq")


@reg("Rc::unwrap_or_clone", "Rc::try_unwrap")
def _rc_unwrap_or_clone(ex, st, c, args, dty):
    v = args[0]
    if c.method == "try_unwrap":
        raise Unsupported("Rc::try_unwrap")
    return v.inner


# ---------------------------------------------------------------------------------------------
# Into / From (std conversions); project `From` impls are tried first


def _conv(ex, st, src_v: V, dst_ty: str) -> Optional[V]:
    d = dst_ty.strip()
    h = _type_head(d)
    v = src_v
    if h in ("Rc", "Box", "Arc"):
        m = re.match(r"^[\w:]+<(.*)>$", d)
        inner_ty = m.group(1) if m else ""
        inner = _conv(ex, st, v, inner_ty) if inner_ty and _type_head(inner_ty) not in ("", ) and not _same_kind(v, inner_ty) else v
        return BoxV(inner if inner is not None else v, "Box" if h == "Box" else "Rc")
    if h in ("BigInt", "BigUint"):
        if isinstance(v, BV):
            return BigI(ex.to_int_expr(v))
        if isinstance(v, BigI):
            return v
    it = INT_TYPES.get(d)
    if it and isinstance(v, BV):
        return ex.cast_int(v, *it)
    if it and isinstance(v, BoolV):
        return ex.cast_int(v, *it)
    return None


def _same_kind(v: V, ty: str) -> bool:
    h = _type_head(ty)
    if isinstance(v, Adt):
        return v.ty == h
    if isinstance(v, BigI):
        return h == "BigInt"
    if isinstance(v, BV):
        return ty.strip() in INT_TYPES
    return True


@reg_pred(lambda c: c.trait is not None and _type_head(c.trait) == "Into" and c.method == "into")
def _into(ex, st, c, args, dty):
    m = re.match(r"^Into<(.*)>$", c.trait.strip(), re.S)
    dst = m.group(1) if m else dty
    src = c.qself
    # project impl From<src> for dst ?
    fn = None
    try:
        fn = ex.resolve_fn(parse_callee(f"<{dst} as From<{src}>>::from"), args)
    except Unsupported:
        fn = None
    if fn is not None:
        return CallProject(f"<{dst} as From<{src}>>::from", args)
    if _norm(src) == _norm(dst):
        return args[0]
    r = _conv(ex, st, args[0], dst)
    if r is None:
        raise Unsupported(f"Into<{dst}> for {src}")
    return r


@reg_pred(lambda c: c.trait is not None and _type_head(c.trait) == "From" and c.method == "from")
def _from(ex, st, c, args, dty):
    m = re.match(r"^From<(.*)>$", c.trait.strip(), re.S)
    src = m.group(1) if m else ""
    dst = c.qself
    if _norm(src) == _norm(dst):
        return args[0]
    r = _conv(ex, st, args[0], dst)
    if r is None:
        if _type_head(dst) == "Error":
            # thiserror `#[from]` conversions: the payload of an error is never inspected by any obligation
            return Adt("Error", "From" + _type_head(src), (args[0],))
        raise Unsupported(f"From<{src}> for {dst}")
    return r


def _norm(t):
    return re.sub(r"\b(\w+::)+", "", (t or "")).replace(" ", "")


@reg_pred(lambda c: c.trait is not None and _type_head(c.trait) == "TryInto" and c.method == "try_into")
def _try_into(ex, st, c, args, dty):
    m = re.match(r"^TryInto<(.*)>$", c.trait.strip(), re.S)
    dst = m.group(1).strip()
    try:
        fn = ex.resolve_fn(parse_callee(f"<{dst} as TryFrom<{c.qself}>>::try_from"), args)
    except Unsupported:
        fn = None
    if fn is not None:
        return CallProject(f"<{dst} as TryFrom<{c.qself}>>::try_from", args)
    if re.match(r"^\[u8; \d+\]$", dst):
        return _vec_try_into_array(ex, st, c, args, dty)
    return _try_convert(ex, st, args[0], dst)


@reg_pred(lambda c: c.trait is not None and _type_head(c.trait) == "TryFrom" and c.method == "try_from" and _type_head(c.qself or "") in INT_TYPES)
def _try_from(ex, st, c, args, dty):
    return _try_convert(ex, st, args[0], c.qself.strip())


def _try_convert(ex, st, v, dst):
    it = INT_TYPES.get(dst)
    v = deref(ex, st, v)
    if it is None:
        raise Unsupported(f"TryInto<{dst}>")
    bits, signed = it
    lo, hi = ex.range_of(bits, signed)
    if isinstance(v, BigI):
        x = v.e
    elif isinstance(v, BV):
        x = ex.to_int_expr(v)
    else:
        raise Unsupported(f"TryInto<{dst}> of {type(v).__name__}")
    fits = z3.And(x >= lo, x <= hi)
    val = BV(x, bits, signed)  # int-flavoured machine integer (value known to be in range on this path)
    return [(fits, Adt("Result", "Ok", (val,))), (z3.Not(fits), Adt("Result", "Err", (Adt("TryFromBigIntError", None, ()),)))]


# ---------------------------------------------------------------------------------------------
# BigInt arithmetic (num-bigint / num-integer / num-traits): BigInt == mathematical integer


def _is_big(t: Optional[str]) -> bool:
    return t is not None and _type_head(t) in ("BigInt", "BigUint")


@reg_pred(lambda c: c.trait is not None and _type_head(c.trait) in ("BitOrAssign", "BitOr") and _is_big(c.qself))
def _big_bitor(ex, st, c, args, dty):
    """acc | (v << k) is acc + v*2^k when acc < 2^k: the only use (7-bit group decoding); checked with the solver."""
    a = as_big(ex, st, args[0]).e
    b = as_big(ex, st, args[1]).e
    k = _shift_of.get(b.get_id())
    if k is None or ex.check(st.pc, z3.Or(a < 0, a >= (1 << k))) != "unsat":
        raise Unsupported("BigUint bit-or of overlapping operands")
    r = BigI(a + b)
    if _type_head(c.trait) == "BitOrAssign":
        write_through(ex, st, args[0], r)
        return UNIT
    return r


_shift_of = {}


_ARITH = {"Add": ("add", lambda a, b: a + b), "Sub": ("sub", lambda a, b: a - b), "Mul": ("mul", lambda a, b: a * b)}


@reg_pred(lambda c: c.trait is not None and _type_head(c.trait) in _ARITH and _is_big(c.qself))
def _big_arith(ex, st, c, args, dty):
    f = _ARITH[_type_head(c.trait)][1]
    return BigI(f(as_big(ex, st, args[0]).e, as_big(ex, st, args[1]).e))


@reg_pred(lambda c: c.trait is not None and _type_head(c.trait) == "Neg" and _is_big(c.qself))
def _big_neg(ex, st, c, args, dty):
    return BigI(-as_big(ex, st, args[0]).e)


def floor_div(a, b):
    # z3 Int `/` is Euclidean-style: a = b*q + r with 0 <= r < |b|.  floor: adjust when b < 0 and r != 0
    q = a / b
    r = a % b
    return z3.If(z3.And(b < 0, r != 0), q + 1, q) if False else z3.If(b > 0, q, z3.If(r == 0, q, q + 1)) if False else _floor_div(a, b)


def _floor_div(a, b):
    # floor(a / b) for b != 0 using z3's div (sign of remainder always non-negative)
    q = a / b  # for b>0: floor(a/b); for b<0: ceil(a/b)
    r = a % b  # 0 <= r < |b|
    return z3.If(b > 0, q, z3.If(r == 0, q, q - 1))


def _floor_mod(a, b):
    return a - b * _floor_div(a, b)


def _trunc_div(a, b):
    q = a / b
    r = a % b
    # truncation toward zero
    return z3.If(r == 0, q, z3.If(a >= 0, z3.If(b > 0, q, q), z3.If(b > 0, q + 1, q - 1)))


def _trunc_rem(a, b):
    return a - b * _trunc_div(a, b)


@reg("<BigInt as Integer>::div_mod_floor")
def _div_mod_floor(ex, st, c, args, dty):
    a, b = as_big(ex, st, args[0]).e, as_big(ex, st, args[1]).e
    nz = b != 0
    return [(nz, Tup((BigI(_floor_div(a, b)), BigI(_floor_mod(a, b))))), (z3.Not(nz), Panic("attempt to divide by zero"))]


@reg("<BigInt as Integer>::div_rem")
def _div_rem(ex, st, c, args, dty):
    a, b = as_big(ex, st, args[0]).e, as_big(ex, st, args[1]).e
    nz = b != 0
    return [(nz, Tup((BigI(_trunc_div(a, b)), BigI(_trunc_rem(a, b))))), (z3.Not(nz), Panic("attempt to divide by zero"))]


@reg("<BigInt as Integer>::mod_floor")
def _mod_floor(ex, st, c, args, dty):
    a, b = as_big(ex, st, args[0]).e, as_big(ex, st, args[1]).e
    nz = b != 0
    return [(nz, BigI(_floor_mod(a, b))), (z3.Not(nz), Panic("attempt to divide by zero"))]


@reg("<BigInt as Integer>::div_floor")
def _div_floor(ex, st, c, args, dty):
    a, b = as_big(ex, st, args[0]).e, as_big(ex, st, args[1]).e
    nz = b != 0
    return [(nz, BigI(_floor_div(a, b))), (z3.Not(nz), Panic("attempt to divide by zero"))]


@reg_pred(lambda c: c.trait is not None and _type_head(c.trait) in ("Div", "Rem") and _is_big(c.qself))
def _big_div(ex, st, c, args, dty):
    a, b = as_big(ex, st, args[0]).e, as_big(ex, st, args[1]).e
    nz = b != 0
    f = _trunc_div if _type_head(c.trait) == "Div" else _trunc_rem
    return [(nz, BigI(f(a, b))), (z3.Not(nz), Panic("attempt to divide by zero"))]


_CMP = {"eq": lambda a, b: a == b, "ne": lambda a, b: a != b, "lt": lambda a, b: a < b, "le": lambda a, b: a <= b,
        "gt": lambda a, b: a > b, "ge": lambda a, b: a >= b}


@reg_pred(lambda c: c.trait is not None and _type_head(c.trait) in ("PartialEq", "PartialOrd") and c.method in _CMP and _is_big(c.qself))
def _big_cmp(ex, st, c, args, dty):
    return BoolV(_CMP[c.method](as_big(ex, st, args[0]).e, as_big(ex, st, args[1]).e))


@reg_pred(lambda c: c.trait is not None and _type_head(c.trait) in ("PartialEq", "PartialOrd") and c.method in _CMP and _type_head(c.qself or "") in INT_TYPES)
def _int_cmp(ex, st, c, args, dty):
    a, b = deref(ex, st, args[0]), deref(ex, st, args[1])
    op = {"eq": "Eq", "ne": "Ne", "lt": "Lt", "le": "Le", "gt": "Gt", "ge": "Ge"}[c.method]
    return ex.binop(op, a, b)


@reg("<BigInt as Signed>::is_negative")
def _big_is_neg(ex, st, c, args, dty):
    return BoolV(as_big(ex, st, args[0]).e < 0)


@reg("<BigInt as Signed>::is_positive")
def _big_is_pos(ex, st, c, args, dty):
    return BoolV(as_big(ex, st, args[0]).e > 0)


@reg("<BigInt as Zero>::is_zero")
def _big_is_zero(ex, st, c, args, dty):
    return BoolV(as_big(ex, st, args[0]).e == 0)


@reg("<BigInt as Signed>::abs")
def _big_abs(ex, st, c, args, dty):
    a = as_big(ex, st, args[0]).e
    return BigI(z3.If(a >= 0, a, -a))


@reg("BigInt::sign")
def _big_sign(ex, st, c, args, dty):
    a = as_big(ex, st, args[0]).e
    return [(a < 0, Adt("Sign", "Minus", ())), (a == 0, Adt("Sign", "NoSign", ())), (a > 0, Adt("Sign", "Plus", ()))]


def _to_prim(bits, signed):
    def h(ex, st, c, args, dty):
        a = as_big(ex, st, args[0]).e
        lo, hi = ex.range_of(bits, signed)
        fits = z3.And(a >= lo, a <= hi)
        val = BV(a, bits, signed)
        return [(fits, Adt("Option", "Some", (val,))), (z3.Not(fits), Adt("Option", "None", ()))]
    return h


for _n, (_b, _s) in INT_TYPES.items():
    if _n != "char":
        TABLE[f"<BigInt as ToPrimitive>::to_{_n}"] = _to_prim(_b, _s)


@reg("<BigInt as Zero>::zero")
def _big_zero(ex, st, c, args, dty):
    return BigI(z3.IntVal(0))


@reg("<BigInt as One>::one")
def _big_one(ex, st, c, args, dty):
    return BigI(z3.IntVal(1))


# ---------------------------------------------------------------------------------------------
# slices / Vec (generic element type)


def _vec_elem_ty(c: Callee) -> str:
    return c.targs[0] if c.targs else ""


def _is_u8(c: Callee) -> bool:
    return bool(c.targs) and c.targs[0].strip() == "u8"


@reg("Vec::new")
def _vec_new(ex, st, c, args, dty):
    if "Vec<u8>" in dty.replace("std::vec::", "") or _is_u8(c):
        return VecV(Bytes(z3.Empty(ByteSeq)))
    return VecV(Arr(()))


@reg("Vec::with_capacity")
def _vec_with_capacity(ex, st, c, args, dty):
    return _vec_new(ex, st, c, args, dty)


@reg("Vec::push")
def _vec_push(ex, st, c, args, dty):
    r = args[0]
    v = deref1(ex, st, r)
    it = v.items
    if isinstance(it, Arr):
        nv = VecV(Arr(it.elems + (args[1],)))
    elif isinstance(it, Bytes):
        b = args[1]
        be = b.e if not z3.is_int(b.e) else z3.Int2BV(b.e, 8)
        nv = VecV(Bytes(z3.Concat(it.s, z3.Unit(be))))
    else:
        raise Unsupported("push on symbolic-length vec")
    write_through(ex, st, r, nv)
    return UNIT


@reg("Vec::pop")
def _vec_pop(ex, st, c, args, dty):
    r = args[0]
    v = deref1(ex, st, r)
    it = v.items
    if isinstance(it, Arr):
        if not it.elems:
            return Adt("Option", "None", ())
        write_through(ex, st, r, VecV(Arr(it.elems[:-1])))
        return Adt("Option", "Some", (it.elems[-1],))
    raise Unsupported("pop on symbolic vec")


@reg("Vec::len", "[T]::len")
def _vec_len(ex, st, c, args, dty):
    return ex.len_of(st, args[0])


@reg("Vec::is_empty", "[T]::is_empty")
def _vec_is_empty(ex, st, c, args, dty):
    n = ex.len_of(st, args[0])
    return BoolV(n.e == 0)


@reg("Vec::reverse", "[T]::reverse")
def _vec_reverse(ex, st, c, args, dty):
    r = args[0]
    v = deref1(ex, st, r)
    isvec = isinstance(v, VecV)
    it = v.items if isvec else v
    if isinstance(it, Arr):
        nv = Arr(tuple(reversed(it.elems)))
        write_through(ex, st, r, VecV(nv) if isvec else nv)
        return UNIT
    raise Unsupported("reverse on symbolic vec")


@reg_pred(lambda c: c.method in ("deref", "as_slice", "as_ref", "borrow", "deref_mut", "as_mut_slice") and c.qself is not None and _type_head(c.qself) == "Vec")
def _vec_deref(ex, st, c, args, dty):
    return args[0]


@reg("Vec::as_slice", "Vec::as_mut_slice")
def _vec_as_slice(ex, st, c, args, dty):
    return args[0]


@reg("[T]::get", "Vec::get")
def _slice_get(ex, st, c, args, dty):
    r = args[0]
    items = items_of(ex, st, r)
    idx = args[1]
    if not isinstance(idx, BV):
        raise Unsupported("slice::get with range")
    n = ex.len_of(st, r)
    inb = ex.binop("Lt", idx, n).e
    rr = r
    while isinstance(rr, Ref) and isinstance(ex.read(st, rr.cell, rr.proj), Ref):
        rr = ex.read(st, rr.cell, rr.proj)
    if isinstance(items, Arr):
        ie = z3.simplify(idx.e)
        if is_concrete(ie):
            k = ie.as_long()
            if k < len(items.elems):
                return Adt("Option", "Some", (Ref(rr.cell, rr.proj + (("idx", idx),)),))
            return Adt("Option", "None", ())
        cases = []
        for k in range(len(items.elems)):
            kk = ex.mk_int(k, 64, False)
            cases.append((ex.binop("Eq", idx, kk).e, Adt("Option", "Some", (Ref(rr.cell, rr.proj + (("idx", kk),)),))))
        cases.append((z3.Not(inb), Adt("Option", "None", ())))
        return cases
    return [(inb, Adt("Option", "Some", (Ref(rr.cell, rr.proj + (("idx", idx),)),))), (z3.Not(inb), Adt("Option", "None", ()))]


@reg("[T]::first")
def _slice_first(ex, st, c, args, dty):
    return _slice_get(ex, st, c, [args[0], ex.mk_int(0, 64, False)], dty)


@reg_pred(lambda c: c.trait is not None and _type_head(c.trait) in ("Index", "IndexMut") and c.method in ("index", "index_mut"))
def _index(ex, st, c, args, dty):
    r = args[0]
    idx = args[1]
    items = items_of(ex, st, r)
    rr = r
    while isinstance(rr, Ref) and isinstance(ex.read(st, rr.cell, rr.proj), Ref):
        rr = ex.read(st, rr.cell, rr.proj)
    if isinstance(idx, BV):
        n = ex.len_of(st, r)
        inb = ex.binop("Lt", idx, n).e
        return [(inb, Ref(rr.cell, rr.proj + (("idx", idx),))), (z3.Not(inb), Panic("index out of bounds"))]
    if isinstance(idx, FnRef) and idx.name.split("::")[-1] == "RangeFull":
        return rr
    if isinstance(idx, Adt) and idx.ty in ("RangeFrom", "Range", "RangeTo", "RangeFull", "RangeInclusive"):
        base = deref(ex, st, r)
        if isinstance(base, Str) and idx.ty in ("RangeFrom", "Range", "RangeTo"):
            return _str_range(ex, st, base, idx)
        return _slice_range(ex, st, rr, items, idx)
    raise Unsupported(f"Index with {idx!r}")


def _str_range(ex, st, base: Str, rng: Adt):
    """&s[a..b] on a str: panics unless a <= b <= len and both ends are char boundaries (a byte that is not 0b10xxxxxx)"""
    n = z3.Length(base.s)
    if rng.ty == "RangeFrom":
        lo, hi = ex.to_int_expr(rng.fields[0]), n
    elif rng.ty == "Range":
        lo, hi = ex.to_int_expr(rng.fields[0]), ex.to_int_expr(rng.fields[1])
    else:
        lo, hi = z3.IntVal(0), ex.to_int_expr(rng.fields[0])

    def boundary(i):
        return z3.Or(i == 0, i == n, z3.And(i > 0, i < n, (base.s[i] & 0xC0) != 0x80))
    ok = z3.And(lo <= hi, hi <= n, boundary(lo), boundary(hi))
    sub = Str(z3.SubSeq(base.s, lo, hi - lo))
    return [(ok, Effect(lambda s_: ex.alloc(s_, sub, False))), (z3.Not(ok), Panic("byte index is out of bounds or not a char boundary of the string"))]


def _slice_range(ex, st, rr, items, rng: Adt):
    n_int = int_len(ex, items)
    if rng.ty == "RangeFrom":
        lo, hi = ex.to_int_expr(rng.fields[0]), n_int
    elif rng.ty == "Range":
        lo, hi = ex.to_int_expr(rng.fields[0]), ex.to_int_expr(rng.fields[1])
    elif rng.ty == "RangeTo":
        lo, hi = z3.IntVal(0), ex.to_int_expr(rng.fields[0])
    elif rng.ty == "RangeFull":
        return rr
    else:
        raise Unsupported(f"range {rng.ty}")
    ok = z3.And(lo <= hi, hi <= n_int)
    if isinstance(items, SymArr):
        cap = len(items.elems)
        lo_bv = BV(lo, 64, False)
        sub = []
        for j in range(cap):
            sub.append(ex.ite_select(items.elems, BV(z3.If(lo + j < cap, lo + j, cap - 1), 64, False)) if cap else None)
        res = SymArr(tuple(sub), hi - lo)
        return [(ok, Effect(lambda s: ex.alloc(s, res, False))), (z3.Not(ok), Panic("slice index out of range"))]
    if isinstance(items, Bytes):
        sub = Bytes(z3.SubSeq(items.s, lo, hi - lo))
        return [(ok, Effect(lambda s: ex.alloc(s, sub, False))), (z3.Not(ok), Panic("slice index out of range"))]
    if isinstance(items, Arr):
        lo_s, hi_s = z3.simplify(lo), z3.simplify(hi)
        if is_concrete(lo_s) and is_concrete(hi_s):
            a, b = lo_s.as_long(), hi_s.as_long()
            if a <= b <= len(items.elems):
                sub = Arr(items.elems[a:b])
                return Effect(lambda s: ex.alloc(s, sub, False))
            return [(None, Panic("slice index out of range"))]
        cases = [(z3.Not(ok), Panic("slice index out of range"))]
        for a in range(len(items.elems) + 1):
            for b in range(a, len(items.elems) + 1):
                sub = Arr(items.elems[a:b])
                cases.append((z3.And(lo == a, hi == b), Effect(lambda s, sub=sub: ex.alloc(s, sub, False))))
        return cases
    raise Unsupported("range index on symbolic sequence")


@reg("[T]::to_vec", "slice::to_vec")
def _to_vec(ex, st, c, args, dty):
    items = items_of(ex, st, args[0])
    if isinstance(items, Str):
        items = Bytes(items.s)
    return VecV(items)


@reg("[T]::is_empty")
def _slice_is_empty(ex, st, c, args, dty):
    return _vec_is_empty(ex, st, c, args, dty)


@reg("vec::from_elem")
def _from_elem(ex, st, c, args, dty):
    n = args[1]
    ne = z3.simplify(n.e)
    if isinstance(args[0], BV) and args[0].bits == 8:
        if is_concrete(ne):
            be = args[0].e if not z3.is_int(args[0].e) else z3.Int2BV(args[0].e, 8)
            units = [z3.Unit(be)] * ne.as_long()
            return VecV(Bytes(z3.Concat(*units) if len(units) > 1 else (units[0] if units else z3.Empty(ByteSeq))))
        raise Unsupported("from_elem with symbolic length")
    if is_concrete(ne):
        return VecV(Arr(tuple([args[0]] * ne.as_long())))
    raise Unsupported("from_elem with symbolic length")


# vec![a, b, c] expansion: Box::new_uninit + writes + box_assume_init_into_vec_unsafe
@reg("Box::new_uninit")
def _box_new_uninit(ex, st, c, args, dty):
    return BoxV(UNINIT)


@reg("MaybeUninit::write", "MaybeUninit::as_mut_ptr")
def _mu_write(ex, st, c, args, dty):
    raise Unsupported("MaybeUninit")


@reg("boxed::box_assume_init_into_vec_unsafe")
def _box_into_vec(ex, st, c, args, dty):
    b = args[0]
    inner = b.inner if isinstance(b, BoxV) else b
    if isinstance(inner, Arr):
        if inner.elems and all(isinstance(e, BV) and e.bits == 8 for e in inner.elems) and "u8" in (c.targs[0] if c.targs else ""):
            s = None
            units = [z3.Unit(e.e if not z3.is_int(e.e) else z3.Int2BV(e.e, 8)) for e in inner.elems]
            return VecV(Bytes(z3.Concat(*units) if len(units) > 1 else units[0]))
        return VecV(inner)
    raise Unsupported(f"into_vec of {inner!r}")


@reg("slice::into_vec", "[T]::into_vec")
def _slice_into_vec(ex, st, c, args, dty):
    return _box_into_vec(ex, st, c, args, dty)


# ---------------------------------------------------------------------------------------------
# integers (core::num)


def _int_method(name):
    def deco(f):
        for t in INT_TYPES:
            TABLE[f"{t}::{name}"] = f
        return f
    return deco


@_int_method("checked_add")
def _checked_add(ex, st, c, args, dty):
    r = ex.binop("AddWithOverflow", args[0], args[1])
    return [(z3.Not(r.fields[1].e), Adt("Option", "Some", (r.fields[0],))), (r.fields[1].e, Adt("Option", "None", ()))]


@_int_method("checked_sub")
def _checked_sub(ex, st, c, args, dty):
    r = ex.binop("SubWithOverflow", args[0], args[1])
    return [(z3.Not(r.fields[1].e), Adt("Option", "Some", (r.fields[0],))), (r.fields[1].e, Adt("Option", "None", ()))]


@_int_method("checked_mul")
def _checked_mul(ex, st, c, args, dty):
    r = ex.binop("MulWithOverflow", args[0], args[1])
    return [(z3.Not(r.fields[1].e), Adt("Option", "Some", (r.fields[0],))), (r.fields[1].e, Adt("Option", "None", ()))]


def _sat(ex, a: BV, r_int):
    lo, hi = ex.range_of(a.bits, a.signed)
    e = z3.If(r_int < lo, z3.IntVal(lo), z3.If(r_int > hi, z3.IntVal(hi), r_int))
    return BV(e, a.bits, a.signed)


@_int_method("saturating_add")
def _saturating_add(ex, st, c, args, dty):
    return _sat(ex, args[0], ex.to_int_expr(args[0]) + ex.to_int_expr(args[1]))


@_int_method("saturating_sub")
def _saturating_sub(ex, st, c, args, dty):
    return _sat(ex, args[0], ex.to_int_expr(args[0]) - ex.to_int_expr(args[1]))


@_int_method("saturating_mul")
def _saturating_mul(ex, st, c, args, dty):
    return _sat(ex, args[0], ex.to_int_expr(args[0]) * ex.to_int_expr(args[1]))


@_int_method("wrapping_add")
def _wrapping_add(ex, st, c, args, dty):
    return ex.binop("Add", args[0], args[1])


@_int_method("wrapping_sub")
def _wrapping_sub(ex, st, c, args, dty):
    return ex.binop("Sub", args[0], args[1])


@_int_method("abs")
def _int_abs(ex, st, c, args, dty):
    a = args[0]
    lo, _ = ex.range_of(a.bits, a.signed)
    x = ex.to_int_expr(a)
    val = z3.If(x >= 0, x, -x)
    res = BV(val, a.bits, a.signed) if ex.int_mode else BV(z3.Int2BV(val, a.bits), a.bits, a.signed)
    return [(x != lo, res), (x == lo, Panic("attempt to negate with overflow"))]


@_int_method("unsigned_abs")
def _int_unsigned_abs(ex, st, c, args, dty):
    a = args[0]
    x = ex.to_int_expr(a)
    val = z3.If(x >= 0, x, -x)
    return BV(val, a.bits, False) if ex.int_mode else BV(z3.Int2BV(val, a.bits), a.bits, False)


@reg("cmp::max", "<i64 as Ord>::max", "<usize as Ord>::max", "<u64 as Ord>::max", "<i128 as Ord>::max", "<u32 as Ord>::max", "Ord::max")
def _max(ex, st, c, args, dty):
    a, b = args
    if isinstance(a, BV) and isinstance(b, BV):
        # std: max_by returns v2 when equal; irrelevant for integers
        return BV(z3.If(ex.binop("Gt", a, b).e, a.e, b.e), a.bits, a.signed)
    raise Unsupported("max on non-int")


@reg("cmp::min", "<i64 as Ord>::min", "<usize as Ord>::min", "<u64 as Ord>::min", "<i128 as Ord>::min", "<u32 as Ord>::min", "Ord::min")
def _min(ex, st, c, args, dty):
    a, b = args
    if isinstance(a, BV) and isinstance(b, BV):
        return BV(z3.If(ex.binop("Lt", a, b).e, a.e, b.e), a.bits, a.signed)
    raise Unsupported("min on non-int")


# ---------------------------------------------------------------------------------------------
# panics


@reg("panicking::panic", "panicking::panic_fmt", "panicking::panic_explicit", "panicking::unreachable_display",
     "panicking::panic_display", "panicking::begin_panic", "rt::begin_panic", "panicking::panic_nounwind",
     "panicking::assert_failed", "option::unwrap_failed", "result::unwrap_failed", "option::expect_failed",
     "panicking::panic_bounds_check", "slice::index::slice_end_index_len_fail", "core::panicking::panic", "panic_fmt", "panic", "unreachable_display", "panic_display", "panic_explicit")
def _panic(ex, st, c, args, dty):
    msg = "panic"
    if args and isinstance(args[0], LibV) and args[0].kind in ("fmtlit", "fmtargs"):
        try:
            t = _fmt_format2(ex, st, c, [args[0]], None)
            b = _concrete_bytes(t.s) if isinstance(t, Str) else None
            if b is not None:
                msg = b.decode("utf-8", "replace")
        except Exception:
            pass
    if args and isinstance(args[0], Ref):
        try:
            v = deref(ex, st, args[0])
            if isinstance(v, Str):
                msg = str(z3.simplify(v.s))
        except Exception:
            pass
    return [(None, Panic(f"{c.method}: {msg}"))]


# fmt: arguments are opaque; a panic message's text is not part of any property
@reg("Arguments::new_v1", "Arguments::new_v1_formatted")
def _fmt_args(ex, st, c, args, dty):
    return fresh_obj("fmtargs", "Arguments")


@reg("fmt::format::format_inner", "<T as ToString>::to_string")
def _fmt_format(ex, st, c, args, dty):
    return fresh_obj("string", "String")


@reg("intrinsics::cold_path", "hint::black_box", "hint::assert_unchecked")
def _noop(ex, st, c, args, dty):
    return UNIT


# ---------------------------------------------------------------------------------------------
# ranges / iterators over ranges


@reg_pred(lambda c: c.trait is not None and _type_head(c.trait) == "IntoIterator" and c.method == "into_iter" and _type_head(c.qself or "") in ("Range", "RangeInclusive"))
def _range_into_iter(ex, st, c, args, dty):
    return args[0]


@reg("<Range as Iterator>::next")
def _range_next(ex, st, c, args, dty):
    r = args[0]
    rng = deref1(ex, st, r)
    start, end = rng.fields[0], rng.fields[1]
    lt = ex.binop("Lt", start, end).e

    def adv(s):
        one = ex.mk_int(1, start.bits, start.signed)
        nxt = ex.binop("Add", start, one)
        write_through(ex, s, r, Adt("Range", None, (nxt, end)))
        return Adt("Option", "Some", (start,))
    return [(lt, Effect(adv)), (z3.Not(lt), Adt("Option", "None", ()))]


# ---------------------------------------------------------------------------------------------
# iterators over slices / vectors (eager model: an iterator *is* the remaining sequence)
#   LibV('iter', (items,))            items: Bytes | Arr | SymSeq ; yields elements (by value; refs to scalars are the scalars)
#   LibV('map', (iter, closure))      lazily mapped


def _mk_iter(items):
    if isinstance(items, Bytes):
        us = seq_units(items.s)  # concrete-length byte strings iterate element-wise
        if us is not None:
            items = Arr(tuple(BV(z3.simplify(u), 8, False) for u in us))
    return LibV("iter", (items,))


def _iter_items(ex, st, v):
    v = deref(ex, st, v)
    if isinstance(v, LibV) and v.kind == "iter":
        return v.data[0]
    if isinstance(v, VecV):
        return v.items
    if isinstance(v, (Arr, Bytes, SymSeq, SymArr)):
        return v
    raise Unsupported(f"not an iterator: {type(v).__name__}")


@reg("[T]::iter_mut", "Vec::iter_mut")
def _slice_iter_mut(ex, st, c, args, dty):
    raise Unsupported("iter_mut (iterator summaries hand out values, not places)")


@reg("[T]::iter", "Vec::iter")
def _slice_iter(ex, st, c, args, dty):
    return _mk_iter(items_of(ex, st, args[0]))


@reg_pred(lambda c: c.trait is not None and _type_head(c.trait) == "IntoIterator" and c.method == "into_iter")
def _into_iter(ex, st, c, args, dty):
    v = deref(ex, st, args[0])
    if isinstance(v, LibV):
        return v
    if isinstance(v, Adt) and v.ty in ("Range",):
        return v
    return _mk_iter(_iter_items(ex, st, v))


@reg_pred(lambda c: c.trait is not None and _type_head(c.trait) == "Iterator" and c.method in ("copied", "cloned", "by_ref"))
def _iter_copied(ex, st, c, args, dty):
    return args[0]


def _nat(ex, v: BV):
    return ex.to_int_expr(v)


def _arbitrary_bytes_iter():
    return LibV("iter", (Bytes(z3.Const(fresh("somebytes"), ByteSeq)),))


@reg_pred(lambda c: c.trait is not None and _type_head(c.trait) == "Iterator" and c.method == "skip")
def _iter_skip(ex, st, c, args, dty):
    it = args[0]
    if isinstance(it, LibV) and it.kind == "iter":
        items = it.data[0]
        if isinstance(items, SymArr):
            return _arbitrary_bytes_iter()  # skip/take never panic; the bytes only feed diagnostics
        n = _nat(ex, args[1])
        if isinstance(items, Bytes):
            L = z3.Length(items.s)
            k = z3.If(n > L, L, n)
            return _mk_iter(Bytes(z3.SubSeq(items.s, k, L - k)))
        if isinstance(items, Arr):
            ns = z3.simplify(n)
            if is_concrete(ns):
                return _mk_iter(Arr(items.elems[min(ns.as_long(), len(items.elems)):]))
            cases = []
            for k in range(len(items.elems)):
                cases.append((n == k, _mk_iter(Arr(items.elems[k:]))))
            cases.append((n >= len(items.elems), _mk_iter(Arr(()))))
            return cases
    raise Unsupported("skip on this iterator")


@reg_pred(lambda c: c.trait is not None and _type_head(c.trait) == "Iterator" and c.method == "take")
def _iter_take(ex, st, c, args, dty):
    it = args[0]
    if isinstance(it, LibV) and it.kind == "iter":
        items = it.data[0]
        n = _nat(ex, args[1])
        if isinstance(items, Bytes):
            L = z3.Length(items.s)
            k = z3.If(n > L, L, n)
            return _mk_iter(Bytes(z3.SubSeq(items.s, 0, k)))
        if isinstance(items, Arr):
            ns = z3.simplify(n)
            if is_concrete(ns):
                return _mk_iter(Arr(items.elems[:ns.as_long()]))
            cases = []
            for k in range(len(items.elems)):
                cases.append((n == k, _mk_iter(Arr(items.elems[:k]))))
            cases.append((n >= len(items.elems), _mk_iter(items)))
            return cases
    raise Unsupported("take on this iterator")


@reg_pred(lambda c: c.trait is not None and _type_head(c.trait) == "Iterator" and c.method == "chain")
def _iter_chain(ex, st, c, args, dty):
    a = _iter_items(ex, st, args[0])
    b = _iter_items(ex, st, args[1])
    if isinstance(a, Bytes) and isinstance(b, Bytes):
        return _mk_iter(Bytes(z3.Concat(a.s, b.s)))
    if isinstance(a, Arr) and isinstance(b, Arr):
        return _mk_iter(Arr(a.elems + b.elems))
    raise Unsupported("chain of mixed iterators")


@reg_pred(lambda c: c.trait is not None and _type_head(c.trait) == "Iterator" and c.method == "rev")
def _iter_rev(ex, st, c, args, dty):
    a = _iter_items(ex, st, args[0])
    if isinstance(a, Arr):
        return _mk_iter(Arr(tuple(reversed(a.elems))))
    raise Unsupported("rev on symbolic-length iterator")


@reg_pred(lambda c: c.trait is not None and _type_head(c.trait) == "Iterator" and c.method == "enumerate")
def _iter_enumerate(ex, st, c, args, dty):
    a = _iter_items(ex, st, args[0])
    if isinstance(a, Arr):
        return _mk_iter(Arr(tuple(Tup((ex.mk_int(i, 64, False), e)) for i, e in enumerate(a.elems))))
    raise Unsupported("enumerate on symbolic-length iterator")


@reg_pred(lambda c: c.trait is not None and _type_head(c.trait) == "Iterator" and c.method == "zip")
def _iter_zip(ex, st, c, args, dty):
    a = _iter_items(ex, st, args[0])
    b = _iter_items(ex, st, args[1])
    a, b = _as_arr(a), _as_arr(b)
    n = min(len(a.elems), len(b.elems))
    return _mk_iter(Arr(tuple(Tup((x, y)) for x, y in zip(a.elems[:n], b.elems[:n]))))


TABLE["iter::zip"] = _iter_zip


def _as_arr(items) -> Arr:
    if isinstance(items, Arr):
        return items
    raise Unsupported("iterator adapter needs a concrete-length sequence (enumerate lengths in the obligation)")


@reg_pred(lambda c: c.trait is not None and _type_head(c.trait) == "Iterator" and c.method == "map")
def _iter_map(ex, st, c, args, dty):
    return LibV("map", (args[0], args[1]))


@reg_pred(lambda c: c.trait is not None and _type_head(c.trait) == "Iterator" and c.method in ("flat_map", "filter_map"))
def _iter_flat_map(ex, st, c, args, dty):
    return LibV("flatmap", (args[0], args[1]))


def _force_iter(ex, st, it):
    """-> Forked-style list [(State, Arr|Bytes)] of the fully evaluated element sequence."""
    it = deref(ex, st, it)
    if isinstance(it, LibV) and it.kind == "iter":
        return [(st, it.data[0])]
    if isinstance(it, LibV) and it.kind == "map":
        res = []
        for s0, items in _force_iter(ex, st, it.data[0]):
            items = _as_arr(items)
            partial = [(s0, [])]
            for e in items.elems:
                nxt = []
                for s1, acc in partial:
                    for s2, r in call_closure(ex, s1, it.data[1], [e]):
                        if isinstance(r, Panic):
                            nxt.append((s2, r))
                        else:
                            nxt.append((s2, acc + [r]))
                partial = []
                for s2, acc in nxt:
                    if isinstance(acc, Panic):
                        res.append((s2, acc))
                    else:
                        partial.append((s2, acc))
            for s1, acc in partial:
                res.append((s1, Arr(tuple(acc))))
        return res
    if isinstance(it, LibV) and it.kind == "flatmap":
        # flat_map(f) = map(f) followed by flattening every produced item (Result / Option / sequence) into the stream
        res = []
        for s0, items in _force_iter(ex, st, LibV("map", it.data)):
            if isinstance(items, Panic):
                res.append((s0, items))
                continue
            out = []
            for r in _as_arr(items).elems:
                if isinstance(r, Adt) and r.variant in ("Ok", "Some"):
                    out.append(r.fields[0])
                elif isinstance(r, Adt) and r.variant in ("Err", "None"):
                    continue
                else:
                    out += list(_as_arr(_iter_items(ex, s0, r)).elems)
            res.append((s0, Arr(tuple(out))))
        return res
    if isinstance(it, VecV):
        return [(st, it.items)]
    raise Unsupported(f"cannot evaluate iterator {it!r}"[:120])


def _collect_items(dty, items, targs):
    want_u8 = "Vec<u8>" in dty.replace("std::vec::", "").replace("alloc::vec::", "") or any(t.replace("std::vec::", "") == "Vec<u8>" for t in targs)
    if isinstance(items, Arr) and want_u8:
        units = [z3.Unit(e.e if not z3.is_int(e.e) else z3.Int2BV(e.e, 8)) for e in items.elems]
        s = z3.Concat(*units) if len(units) > 1 else (units[0] if units else z3.Empty(ByteSeq))
        return VecV(Bytes(s))
    return VecV(items)


def _collect_result(ex, st, it, dty, targs, okv="Ok", errv="Err", wrap="Result"):
    """collect::<Result<Vec<_>, E>>(): elements are produced one by one and the first Err stops the iteration"""
    it = deref(ex, st, it)
    if not (isinstance(it, LibV) and it.kind == "map"):
        items = _as_arr(_iter_items(ex, st, it))
        for e in items.elems:
            if isinstance(e, Adt) and e.variant == errv:
                return Forked([(st.clone(), e)])
        return Forked([(st.clone(), Adt(wrap, okv, (VecV(Arr(tuple(e.fields[0] for e in items.elems))),)))])
    res = []
    for s0, items in _force_iter(ex, st.clone(), it.data[0]):
        items = _as_arr(items)
        states = [(s0, [])]
        for e in items.elems:
            nxt = []
            for s1, acc in states:
                for s2, r in call_closure(ex, s1, it.data[1], [e]):
                    if isinstance(r, Panic):
                        res.append((s2, r))
                    elif isinstance(r, Adt) and r.variant == errv:
                        res.append((s2, Adt(wrap, errv, r.fields)))
                    else:
                        nxt.append((s2, acc + [r.fields[0]]))
            states = nxt
        res += [(s, Adt(wrap, okv, (VecV(Arr(tuple(acc))),))) for s, acc in states]
    return Forked(res)


@reg_pred(lambda c: (c.trait is not None and _type_head(c.trait) in ("Iterator", "Itertools") and c.method in ("collect", "collect_vec")))
def _iter_collect(ex, st, c, args, dty):
    want = (c.targs[0] if c.targs else dty).replace("std::result::", "").replace("std::option::", "").strip()
    if want.startswith("Result<"):
        return _collect_result(ex, st, args[0], dty, c.targs)
    if want.startswith("Option<"):
        return _collect_result(ex, st, args[0], dty, c.targs, "Some", "None", "Option")
    cases = _force_iter(ex, st.clone(), args[0])
    return Forked([(s, r if isinstance(r, Panic) else _collect_items(dty, r, c.targs)) for s, r in cases])


@reg_pred(lambda c: c.trait is not None and _type_head(c.trait) == "Extend" and c.method == "extend")
def _vec_extend(ex, st, c, args, dty):
    r = args[0]
    v = deref1(ex, st, r)
    add = _iter_items(ex, st, args[1])
    it = v.items
    if isinstance(add, SymArr) or isinstance(it, SymArr):
        # contents of a vector extended by a symbolic-length slice: fresh bytes (only its length matters to callers here)
        la = int_len(ex, it)
        nv = VecV(Bytes(z3.Const(fresh("ext"), ByteSeq)))
        st.pc.append(z3.Length(nv.items.s) == la + int_len(ex, add))
    elif isinstance(it, Bytes) and isinstance(add, Bytes):
        nv = VecV(Bytes(z3.Concat(it.s, add.s)))
    elif isinstance(it, Arr) and isinstance(add, Arr):
        nv = VecV(Arr(it.elems + add.elems))
    elif isinstance(it, Arr) and not it.elems:
        nv = VecV(add)
    elif isinstance(it, Bytes) and isinstance(add, Arr):
        units = [z3.Unit(e.e if not z3.is_int(e.e) else z3.Int2BV(e.e, 8)) for e in add.elems]
        nv = VecV(Bytes(z3.Concat(it.s, *units))) if units else v
    else:
        raise Unsupported("extend of mixed sequences")
    write_through(ex, st, r, nv)
    return UNIT


@reg("Vec::append")
def _vec_append(ex, st, c, args, dty):
    r, o = args[0], args[1]
    v, w = deref1(ex, st, r), deref1(ex, st, o)
    a, b = v.items, w.items
    if isinstance(a, Bytes) and isinstance(b, Bytes):
        nv = VecV(Bytes(z3.Concat(a.s, b.s)))
        empty = VecV(Bytes(z3.Empty(ByteSeq)))
    elif isinstance(a, Arr) and isinstance(b, Arr):
        nv = VecV(Arr(a.elems + b.elems))
        empty = VecV(Arr(()))
    else:
        raise Unsupported("append of mixed sequences")
    write_through(ex, st, r, nv)
    write_through(ex, st, o, empty)
    return UNIT


@reg("<Vec as PartialEq>::eq", "<[T] as PartialEq>::eq", "<Vec as PartialEq>::ne")
def _vec_eq(ex, st, c, args, dty):
    a, b = items_of(ex, st, args[0]), items_of(ex, st, args[1])
    if isinstance(a, Bytes) and isinstance(b, Bytes):
        e = a.s == b.s
        return BoolV(z3.Not(e) if c.method == "ne" else e)
    raise Unsupported("vec eq on non-bytes")


# ---------------------------------------------------------------------------------------------
# structural equality (derived PartialEq on project/library data types)


def struct_eq(ex, st, a, b):
    a, b = deref(ex, st, a), deref(ex, st, b)
    if isinstance(a, BoxV) and isinstance(b, BoxV):
        return struct_eq(ex, st, a.inner, b.inner)
    if isinstance(a, BV) and isinstance(b, BV):
        return ex.binop("Eq", a, b).e
    if isinstance(a, BoolV) and isinstance(b, BoolV):
        return a.e == b.e
    if isinstance(a, BigI) and isinstance(b, BigI):
        return a.e == b.e
    if isinstance(a, (Bytes, Str)) and isinstance(b, (Bytes, Str)):
        return a.s == b.s
    if isinstance(a, Opaque) and isinstance(b, Opaque):
        return a.e == b.e
    if isinstance(a, VecV) and isinstance(b, VecV):
        return struct_eq(ex, st, a.items, b.items)
    if isinstance(a, SymSeq) and isinstance(b, SymSeq):
        return z3.And(a.base == b.base, a.length == b.length)
    if isinstance(a, Arr) and isinstance(b, Arr):
        if len(a.elems) != len(b.elems):
            return z3.BoolVal(False)
        return z3.And([struct_eq(ex, st, x, y) for x, y in zip(a.elems, b.elems)] + [z3.BoolVal(True)])
    if isinstance(a, Tup) and isinstance(b, Tup) and len(a.fields) == len(b.fields):
        return z3.And([struct_eq(ex, st, x, y) for x, y in zip(a.fields, b.fields)] + [z3.BoolVal(True)])
    if isinstance(a, Adt) and isinstance(b, Adt):
        if a.ty != b.ty or a.variant != b.variant or len(a.fields) != len(b.fields):
            return z3.BoolVal(False)
        return z3.And([struct_eq(ex, st, x, y) for x, y in zip(a.fields, b.fields)] + [z3.BoolVal(True)])
    if isinstance(a, EnumSym) or isinstance(b, EnumSym):
        return ex.disc_of(a).e == ex.disc_of(b).e
    raise Unsupported(f"structural equality of {type(a).__name__} and {type(b).__name__}")


@reg_pred(lambda c: c.trait is not None and _type_head(c.trait) == "PartialEq" and c.method in ("eq", "ne"))
def _generic_eq(ex, st, c, args, dty):
    e = struct_eq(ex, st, args[0], args[1])
    return BoolV(z3.Not(e) if c.method == "ne" else e)


# ---------------------------------------------------------------------------------------------
# String / str  (modelled as their UTF-8 byte sequence)


@reg("String::as_bytes", "str::as_bytes", "String::as_str", "<String as Deref>::deref", "<String as AsRef>::as_ref", "String::as_mut_str")
def _string_as_bytes(ex, st, c, args, dty):
    return args[0]


@reg("String::len", "str::len")
def _string_len(ex, st, c, args, dty):
    return ex.len_of(st, args[0])


@reg("String::new")
def _string_new(ex, st, c, args, dty):
    return Str(z3.Empty(ByteSeq))


@reg("<str as ToString>::to_string", "<String as ToString>::to_string", "<str as ToOwned>::to_owned", "str::to_owned", "<String as From>::from", "String::from")
def _str_to_string(ex, st, c, args, dty):
    v = deref(ex, st, args[0])
    if isinstance(v, Str):
        return v
    return fresh_obj("string", "String")


@reg("must_use")
def _must_use(ex, st, c, args, dty):
    return args[0]


def _fmt_arg(kind):
    def h(ex, st, c, args, dty):
        return LibV("fmtarg", (kind, args[0]))
    return h


TABLE["Argument::new_display"] = _fmt_arg("display")
TABLE["Argument::new_debug"] = _fmt_arg("debug")
TABLE["Argument::new_lower_hex"] = _fmt_arg("hex")


@reg("Arguments::new")
def _fmt_arguments_new(ex, st, c, args, dty):
    tmpl = deref(ex, st, args[0])
    a = deref(ex, st, args[1])
    return LibV("fmtargs", (tmpl, a))


@reg("Arguments::from_str", "Arguments::new_const", "Arguments::from_str_nonconst")
def _fmt_arguments_from_str(ex, st, c, args, dty):
    # a literal without placeholders: the argument is the text itself, not an encoded template
    return LibV("fmtlit", deref(ex, st, args[0]))


def _concrete_bytes(seq) -> Optional[bytes]:
    s = z3.simplify(seq)
    out = []

    def walk(e):
        if z3.is_app(e) and e.decl().kind() == z3.Z3_OP_SEQ_CONCAT:
            return all(walk(c) for c in e.children())
        if z3.is_app(e) and e.decl().kind() == z3.Z3_OP_SEQ_UNIT:
            b = z3.simplify(e.arg(0))
            if z3.is_bv_value(b):
                out.append(b.as_long())
                return True
            return False
        if z3.is_app(e) and e.decl().kind() == z3.Z3_OP_SEQ_EMPTY:
            return True
        return False
    return bytes(out) if walk(s) else None


@reg("fmt::format")
def _fmt_format2(ex, st, c, args, dty):
    fa = args[0]
    if isinstance(fa, LibV) and fa.kind == "fmtlit":
        if isinstance(fa.data, Str):
            return fa.data
        if isinstance(fa.data, Bytes):
            return Str(fa.data.s)
    if isinstance(fa, LibV) and fa.kind == "fmtargs":
        tmpl, fargs = fa.data
        tb = _concrete_bytes(tmpl.s) if isinstance(tmpl, (Bytes, Str)) else None
        if tb is not None and isinstance(fargs, Arr):
            parts = []
            i = 0
            ai = 0
            ok = True
            while i < len(tb):
                b = tb[i]
                if b == 0:
                    break
                if b < 0x80:
                    parts.append(bytes_lit(tb[i + 1:i + 1 + b]))
                    i += 1 + b
                elif b == 0xC0:
                    if ai >= len(fargs.elems):
                        ok = False
                        break
                    a = fargs.elems[ai]
                    ai += 1
                    v = deref(ex, st, a.data[1]) if isinstance(a, LibV) else None
                    if isinstance(v, Str) and a.data[0] == "display":
                        parts.append(v.s)
                    else:
                        ok = False
                        break
                    i += 1
                else:
                    ok = False
                    break
            if ok:
                if not parts:
                    return Str(z3.Empty(ByteSeq))
                return Str(z3.Concat(*parts) if len(parts) > 1 else parts[0])
    return fresh_obj("string", "String")


@reg("str::chars", "String::chars")
def _str_chars(ex, st, c, args, dty):
    s = deref(ex, st, args[0])
    if isinstance(s, Str) and s.cps is not None:
        return _mk_iter(Arr(tuple(BV(z3.Int2BV(cp, 32), 32, False) for cp in s.cps)))
    raise Unsupported("str::chars on a string that is not given by its code points")


@reg("str::starts_with", "String::starts_with")
def _str_starts_with(ex, st, c, args, dty):
    s = deref(ex, st, args[0])
    p = args[1]
    if isinstance(s, Str) and isinstance(p, BV):
        pe = z3.simplify(p.e)
        if is_concrete(pe) and pe.as_long() < 0x80:
            return BoolV(z3.PrefixOf(z3.Unit(z3.BitVecVal(pe.as_long(), 8)), s.s))
    raise Unsupported("starts_with pattern")


@reg("str::split_at", "String::split_at")
def _str_split_at(ex, st, c, args, dty):
    s = deref(ex, st, args[0])
    n = ex.to_int_expr(args[1])
    L = z3.Length(s.s)
    ok = z3.And(n >= 0, n <= L)
    a, b = Str(z3.SubSeq(s.s, 0, n)), Str(z3.SubSeq(s.s, n, L - n))
    return [(ok, Effect(lambda sx: Tup((ex.alloc(sx, a, False), ex.alloc(sx, b, False))))), (z3.Not(ok), Panic("split_at out of bounds"))]


@reg("String::from_utf8")
def _string_from_utf8(ex, st, c, args, dty):
    v = deref(ex, st, args[0])
    it = v.items if isinstance(v, VecV) else v
    if not isinstance(it, Bytes):
        raise Unsupported("from_utf8 of non-bytes")
    valid = valid_utf8()(it.s)
    return [(valid, Adt("Result", "Ok", (Str(it.s),))), (z3.Not(valid), Adt("Result", "Err", (fresh_obj("utf8err", "FromUtf8Error"),)))]


_valid = []


def valid_utf8():
    if not _valid:
        _valid.append(z3.Function("valid_utf8", ByteSeq, z3.BoolSort()))
    return _valid[0]


# ---------------------------------------------------------------------------------------------
# more Vec / slice operations on concrete-length vectors


def _vec_arr(ex, st, r):
    v = deref1(ex, st, r)
    if isinstance(v, VecV) and isinstance(v.items, Arr):
        return v.items
    raise Unsupported("vector operation on a symbolic-length / byte vector")


def _concrete_idx(ex, idx: BV, what):
    e = z3.simplify(idx.e)
    if is_concrete(e):
        return e.as_long()
    return None


@reg("Vec::remove")
def _vec_remove(ex, st, c, args, dty):
    r, idx = args
    a = _vec_arr(ex, st, r)
    k = _concrete_idx(ex, idx, "remove")
    n = len(a.elems)
    if k is not None:
        if k >= n:
            return [(None, Panic("removal index out of bounds"))]
        write_through(ex, st, r, VecV(Arr(a.elems[:k] + a.elems[k + 1:])))
        return a.elems[k]
    cases = []
    for k in range(n):
        def eff(s, k=k):
            write_through(ex, s, r, VecV(Arr(a.elems[:k] + a.elems[k + 1:])))
            return a.elems[k]
        cases.append((ex.binop("Eq", idx, ex.mk_int(k, 64, False)).e, Effect(eff)))
    cases.append((ex.binop("Ge", idx, ex.mk_int(n, 64, False)).e, Panic("removal index out of bounds")))
    return cases


@reg("Vec::insert")
def _vec_insert(ex, st, c, args, dty):
    r, idx, x = args
    a = _vec_arr(ex, st, r)
    k = _concrete_idx(ex, idx, "insert")
    if k is None:
        raise Unsupported("insert at symbolic index")
    if k > len(a.elems):
        return [(None, Panic("insertion index out of bounds"))]
    write_through(ex, st, r, VecV(Arr(a.elems[:k] + (x,) + a.elems[k:])))
    return UNIT


@reg("Vec::swap_remove")
def _vec_swap_remove(ex, st, c, args, dty):
    r, idx = args
    a = _vec_arr(ex, st, r)
    k = _concrete_idx(ex, idx, "swap_remove")
    if k is None:
        raise Unsupported("swap_remove at symbolic index")
    if k >= len(a.elems):
        return [(None, Panic("swap_remove index out of bounds"))]
    el = list(a.elems)
    x = el[k]
    el[k] = el[-1]
    el.pop()
    write_through(ex, st, r, VecV(Arr(tuple(el))))
    return x


@reg("Vec::truncate")
def _vec_truncate(ex, st, c, args, dty):
    r, n = args
    a = _vec_arr(ex, st, r)
    k = _concrete_idx(ex, n, "truncate")
    if k is None:
        raise Unsupported("truncate at symbolic length")
    write_through(ex, st, r, VecV(Arr(a.elems[:k])))
    return UNIT


@reg("Vec::clear")
def _vec_clear(ex, st, c, args, dty):
    v = deref1(ex, st, args[0])
    write_through(ex, st, args[0], VecV(Arr(()) if isinstance(v.items, Arr) else Bytes(z3.Empty(ByteSeq))))
    return UNIT


@reg("Vec::split_off")
def _vec_split_off(ex, st, c, args, dty):
    r, n = args
    a = _vec_arr(ex, st, r)
    k = _concrete_idx(ex, n, "split_off")
    if k is None:
        raise Unsupported("split_off at symbolic index")
    if k > len(a.elems):
        return [(None, Panic("split_off out of bounds"))]
    write_through(ex, st, r, VecV(Arr(a.elems[:k])))
    return VecV(Arr(a.elems[k:]))


@reg("[T]::last", "Vec::last")
def _slice_last(ex, st, c, args, dty):
    n = ex.len_of(st, args[0])
    ne = z3.simplify(n.e)
    if not is_concrete(ne):
        raise Unsupported("last on symbolic-length sequence")
    if ne.as_long() == 0:
        return Adt("Option", "None", ())
    return _slice_get(ex, st, c, [args[0], ex.mk_int(ne.as_long() - 1, 64, False)], dty)


@reg("[T]::split_first")
def _slice_split_first(ex, st, c, args, dty):
    items = items_of(ex, st, args[0])
    if isinstance(items, Arr):
        if not items.elems:
            return Adt("Option", "None", ())
        head, tail = items.elems[0], Arr(items.elems[1:])
        return Effect(lambda s: Adt("Option", "Some", (Tup((ex.alloc(s, head, False), ex.alloc(s, tail, False))),)))
    raise Unsupported("split_first on symbolic-length sequence")


@reg("[T]::contains", "Vec::contains")
def _slice_contains(ex, st, c, args, dty):
    items = items_of(ex, st, args[0])
    if isinstance(items, Arr):
        return BoolV(z3.Or([struct_eq(ex, st, e, args[1]) for e in items.elems] + [z3.BoolVal(False)]))
    raise Unsupported("contains on symbolic-length sequence")


@reg("[T]::swap", "Vec::swap")
def _slice_swap(ex, st, c, args, dty):
    r, i, j = args
    v = deref1(ex, st, r)
    isvec = isinstance(v, VecV)
    a = v.items if isvec else v
    ki, kj = _concrete_idx(ex, i, "swap"), _concrete_idx(ex, j, "swap")
    if not isinstance(a, Arr) or ki is None or kj is None:
        raise Unsupported("swap with symbolic operands")
    el = list(a.elems)
    if ki >= len(el) or kj >= len(el):
        return [(None, Panic("index out of bounds"))]
    el[ki], el[kj] = el[kj], el[ki]
    nv = Arr(tuple(el))
    write_through(ex, st, r, VecV(nv) if isvec else nv)
    return UNIT


@reg("Vec::extend_from_slice")
def _vec_extend_from_slice(ex, st, c, args, dty):
    return _vec_extend(ex, st, c, args, dty)


@reg("Vec::first")
def _vec_first(ex, st, c, args, dty):
    return _slice_get(ex, st, c, [args[0], ex.mk_int(0, 64, False)], dty)


@reg_pred(lambda c: c.trait is not None and _type_head(c.trait) == "Iterator" and c.method == "next" and _type_head(c.qself or "") in ("Iter", "IntoIter", "Rev", "Cloned", "Copied", "Skip", "Take", "Chain", "Enumerate", "Zip", "Map", "IterMut"))
def _iter_next(ex, st, c, args, dty):
    r = args[0]
    it = deref1(ex, st, r)
    if isinstance(it, LibV) and it.kind == "iter":
        items = it.data[0]
        if isinstance(items, Arr):
            if not items.elems:
                return Adt("Option", "None", ())
            write_through(ex, st, r, LibV("iter", (Arr(items.elems[1:]),)))
            return Adt("Option", "Some", (items.elems[0],))
        if isinstance(items, Bytes):
            L = z3.Length(items.s)
            ne = L > 0

            def adv(s):
                write_through(ex, s, r, LibV("iter", (Bytes(z3.SubSeq(items.s, 1, L - 1)),)))
                return Adt("Option", "Some", (BV(items.s[0], 8, False),))
            return [(ne, Effect(adv)), (z3.Not(ne), Adt("Option", "None", ()))]
    if isinstance(it, LibV) and it.kind == "map":
        inner_cell = ex.alloc(st, it.data[0])
        res = _iter_next(ex, st, c, [inner_cell], dty)
        if isinstance(res, Adt) and res.variant == "None":
            return res
        if isinstance(res, Adt) and res.variant == "Some":
            new_inner = ex.read(st, inner_cell.cell, ())
            write_through(ex, st, r, LibV("map", (new_inner, it.data[1])))
            cases = call_closure(ex, st, it.data[1], [res.fields[0]])
            return Forked([(s, v if isinstance(v, Panic) else Adt("Option", "Some", (v,))) for s, v in cases])
    raise Unsupported(f"next on {it!r}"[:100])


# ---------------------------------------------------------------------------------------------
# big-endian / little-endian byte representations of BigInt magnitudes, pallas integer wrappers

_be = {}


def be_bytes_fn():
    if "f" not in _be:
        _be["f"] = z3.Function("be_bytes", z3.IntSort(), ByteSeq)  # minimal big-endian bytes of a natural (0 -> [0])
        _be["v"] = z3.Function("be_value", ByteSeq, z3.IntSort())  # value of big-endian bytes
        _be["lf"] = z3.Function("le_bytes", z3.IntSort(), ByteSeq)
        _be["lv"] = z3.Function("le_value", ByteSeq, z3.IntSort())
    return _be


def seq_units(s):
    """list of z3 BV8 if `s` is syntactically a concatenation of units (concrete length), else None"""
    s = z3.simplify(s)
    out = []

    def walk(e):
        k = e.decl().kind() if z3.is_app(e) else None
        if k == z3.Z3_OP_SEQ_CONCAT:
            return all(walk(c) for c in e.children())
        if k == z3.Z3_OP_SEQ_UNIT:
            out.append(e.arg(0))
            return True
        if k == z3.Z3_OP_SEQ_EMPTY:
            return True
        return False
    return out if walk(s) else None


def be_value(s, little=False):
    f = be_bytes_fn()
    s2 = z3.simplify(s)
    if z3.is_app(s2) and s2.decl().eq(f["lf" if little else "f"]):
        return s2.arg(0)
    us = seq_units(s2)
    if us is not None:
        if little:
            us = list(reversed(us))
        tot = z3.IntVal(0)
        for b in us:
            tot = tot * 256 + z3.BV2Int(b, False)
        return z3.simplify(tot)
    return f["lv" if little else "v"](s)


def _sign_adt(e):
    return [(e < 0, Adt("Sign", "Minus", ())), (e == 0, Adt("Sign", "NoSign", ())), (e > 0, Adt("Sign", "Plus", ()))]


def _to_bytes(little):
    def h(ex, st, c, args, dty):
        n = as_big(ex, st, args[0]).e
        mag = z3.If(n >= 0, n, -n)
        f = be_bytes_fn()
        # exact bytes when the magnitude is bounded by the path condition (< 2^32): minimal big-endian digits, 0 -> [0]
        if ex.check(st.pc, mag >= (1 << 32)) == "unsat":
            b32 = z3.Int2BV(mag, 32)
            out = []
            for L in range(1, 5):
                lo = 0 if L == 1 else 256 ** (L - 1)
                rng = z3.And(mag >= lo, mag < 256 ** L)
                bs = [BV(z3.Extract(8 * (L - i) - 1, 8 * (L - i - 1), b32), 8, False) for i in range(L)]
                if little:
                    bs = list(reversed(bs))
                for cond, sg in _sign_adt(n):
                    out.append((z3.And(rng, cond), Tup((sg, VecV(Arr(tuple(bs)))))))
            return out
        bs = VecV(Bytes(f["lf" if little else "f"](mag)))
        return [(cond, Tup((sg, bs))) for cond, sg in _sign_adt(n)]
    return h


TABLE["BigInt::to_bytes_be"] = _to_bytes(False)
TABLE["BigInt::to_bytes_le"] = _to_bytes(True)


def _from_bytes(little):
    def h(ex, st, c, args, dty):
        sg = args[0]
        items = items_of(ex, st, args[1])
        if isinstance(items, Arr):
            units = [e.e if not z3.is_int(e.e) else z3.Int2BV(e.e, 8) for e in items.elems]
            if little:
                units = list(reversed(units))
            tot = z3.IntVal(0)
            for b in units:
                tot = tot * 256 + z3.BV2Int(b, False)
            m = tot
        elif isinstance(items, Bytes):
            m = be_value(items.s, little)
        else:
            raise Unsupported("from_bytes of non-bytes")
        if isinstance(sg, Adt) and sg.variant == "Plus":
            return BigI(m)
        if isinstance(sg, Adt) and sg.variant == "Minus":
            return BigI(-m)
        if isinstance(sg, Adt) and sg.variant == "NoSign":
            return BigI(z3.IntVal(0))
        raise Unsupported("from_bytes with symbolic sign")
    return h


TABLE["BigInt::from_bytes_be"] = _from_bytes(False)
TABLE["BigInt::from_bytes_le"] = _from_bytes(True)


@reg("<i128 as TryInto>::try_into")
def _i128_try_into_pallas(ex, st, c, args, dty):
    m = re.match(r"^TryInto<(.*)>$", (c.trait or "").strip(), re.S)
    dst = m.group(1).strip() if m else ""
    if _type_head(dst) == "Int":  # pallas_codec::utils::Int = CBOR major types 0/1: -2^64 .. 2^64-1
        x = ex.to_int_expr(args[0])
        fits = z3.And(x >= -(1 << 64), x <= (1 << 64) - 1)
        return [(fits, Adt("Result", "Ok", (LibV("pallas_int", (x,)),))), (z3.Not(fits), Adt("Result", "Err", (fresh_obj("interr"),)))]
    return _try_convert(ex, st, args[0], dst)


@reg("<i128 as From>::from")
def _i128_from(ex, st, c, args, dty):
    v = deref(ex, st, args[0])
    if isinstance(v, LibV) and v.kind == "pallas_int":
        return BV(v.data[0], 128, True)
    if isinstance(v, BV):
        return ex.cast_int(v, 128, True)
    raise Unsupported(f"i128::from({v!r})"[:80])


@reg("<Vec as Into>::into")
def _vec_into(ex, st, c, args, dty):
    m = re.match(r"^Into<(.*)>$", (c.trait or "").strip(), re.S)
    dst = _type_head(m.group(1)) if m else ""
    if dst == "BoundedBytes":
        return Adt("BoundedBytes", None, (args[0],))
    if dst in ("MaybeIndefArray",):
        return Adt("MaybeIndefArray", "Def", (args[0],))
    if dst in ("KeyValuePairs",):
        return Adt("KeyValuePairs", "Def", (args[0],))
    if dst == "Vec":
        return args[0]
    raise Unsupported(f"Vec into {dst}")


@reg("<BoundedBytes as Deref>::deref", "<BoundedBytes as Into>::into", "<BoundedBytes as From>::from")
def _bounded_bytes_deref(ex, st, c, args, dty):
    r = args[0]
    if isinstance(r, Ref):
        return Ref(r.cell, r.proj + (("field", 0),))
    if isinstance(r, Adt) and r.ty == "BoundedBytes":
        return r.fields[0]
    if isinstance(r, VecV):
        return Adt("BoundedBytes", None, (r,))
    raise Unsupported("BoundedBytes deref")


@reg("<MaybeIndefArray as Deref>::deref", "<KeyValuePairs as Deref>::deref")
def _mia_deref(ex, st, c, args, dty):
    r = args[0]
    v = deref1(ex, st, r)
    if isinstance(v, Adt) and isinstance(r, Ref):
        return Ref(r.cell, r.proj + (("downcast", v.variant), ("field", 0)))
    raise Unsupported("MaybeIndefArray deref")


@reg("MaybeIndefArray::to_vec")
def _mia_to_vec(ex, st, c, args, dty):
    return args[0].fields[0]


@reg("<PlutusData as PartialEq>::eq", "<PlutusData as PartialEq>::ne")
def _plutus_data_eq(ex, st, c, args, dty):
    """pallas compares PlutusData through Ord: structural on the CBOR-level representation; here: equality of the
    mathematical Data value (constructor number, integer value, bytes, element-wise) — what equalsData specifies."""
    from specs import data as SD
    w = ex.world
    a, b = deref(ex, st, args[0]), deref(ex, st, args[1])
    e = SD.eq(SD.decode(w, ex, a), SD.decode(w, ex, b))
    return BoolV(z3.Not(e) if c.method == "ne" else e)


@reg("RangeInclusive::new")
def _range_incl_new(ex, st, c, args, dty):
    return Adt("RangeInclusive", None, (args[0], args[1], BoolV(z3.BoolVal(False))))


@reg("RangeInclusive::contains", "Range::contains")
def _range_contains(ex, st, c, args, dty):
    r = deref(ex, st, args[0])
    x = deref(ex, st, args[1])
    lo, hi = r.fields[0], r.fields[1]
    if r.ty == "RangeInclusive":
        return BoolV(z3.And(ex.binop("Ge", x, lo).e, ex.binop("Le", x, hi).e))
    return BoolV(z3.And(ex.binop("Ge", x, lo).e, ex.binop("Lt", x, hi).e))


@reg("Option::unwrap_or_else")
def _opt_unwrap_or_else(ex, st, c, args, dty):
    v = args[0]
    if v.variant == "Some":
        return v.fields[0]
    return Forked(call_closure(ex, st, args[1], []))


@reg("Result::unwrap_or_else")
def _res_unwrap_or_else(ex, st, c, args, dty):
    v = args[0]
    if v.variant == "Ok":
        return v.fields[0]
    return Forked(call_closure(ex, st, args[1], [v.fields[0]]))


@reg("Option::unwrap_or_default", "Result::unwrap_or_default")
def _unwrap_or_default(ex, st, c, args, dty):
    v = args[0]
    if v.variant in ("Some", "Ok"):
        return v.fields[0]
    t = (dty or "").strip()
    it = INT_TYPES.get(t)
    if it:
        return ex.mk_int(0, it[0], it[1])
    if t == "bool":
        return BoolV(z3.BoolVal(False))
    if re.match(r"^(std::vec::|alloc::vec::)?Vec<", t):
        return VecV(Arr(()))
    if t in ("String", "std::string::String", "alloc::string::String"):
        return Str(z3.Empty(ByteSeq))
    if t:
        d = _default_of(ex, t)
        if d is not None:
            return d
        # a project type with a hand-written Default impl: executed from MIR
        return CallProject(f"<{t} as Default>::default", [])
    raise Unsupported("unwrap_or_default on the failing variant")


def _default_of(ex, t: str, depth=0):
    """value of #[derive(Default)] for a (non-generic) type, from its declaration; None when not derivable here"""
    t = t.strip()
    it = INT_TYPES.get(t)
    if it:
        return ex.mk_int(0, it[0], it[1])
    if t == "bool":
        return BoolV(z3.BoolVal(False))
    if re.match(r"^(std::vec::|alloc::vec::)?Vec<", t):
        return VecV(Arr(()))
    if t.split("::")[-1] == "String":
        return Str(z3.Empty(ByteSeq))
    if re.match(r"^(std::option::|core::option::)?Option<", t):
        return Adt("Option", "None", ())
    if depth > 4:
        return None
    d = ex.decls.get(t.split("::")[-1].split("<")[0])
    if d is None or d.kind != "struct" or getattr(d, "generics", None):
        return None
    fields = []
    for _n, ft in d.fields:
        v = _default_of(ex, ft, depth + 1)
        if v is None:
            return None
        fields.append(v)
    return Adt(d.name, None, tuple(fields))


# ---------------------------------------------------------------------------------------------
# hashing (cryptoxide): digests are uninterpreted functions of the input with their fixed output length

_HASH_LEN = {"Sha256": 32, "Sha3_256": 32, "Keccak256": 32, "Ripemd160": 20, "Sha512": 64}
_hash_fns = {}


def hash_fn(name):
    if name not in _hash_fns:
        _hash_fns[name] = z3.Function("hash_" + name, ByteSeq, ByteSeq)
    return _hash_fns[name]


@reg_pred(lambda c: c.method == "new" and len(c.segs) >= 2 and c.segs[-2] in _HASH_LEN)
def _hasher_new(ex, st, c, args, dty):
    return LibV("hasher", (c.segs[-2], _HASH_LEN[c.segs[-2]], z3.Empty(ByteSeq)))


@reg("Blake2b::new")
def _blake2b_new(ex, st, c, args, dty):
    n = z3.simplify(args[0].e)
    if not is_concrete(n):
        raise Unsupported("Blake2b::new with symbolic output size")
    return LibV("hasher", (f"Blake2b{n.as_long()}", n.as_long(), z3.Empty(ByteSeq)))


@reg_pred(lambda c: c.trait is not None and _type_head(c.trait) == "Digest" and c.method in ("input", "output_bytes", "result", "output_bits"))
def _digest_ops(ex, st, c, args, dty):
    r = args[0]
    h = deref1(ex, st, r)
    name, n, acc = h.data
    if c.method == "input":
        add = items_of(ex, st, args[1])
        if isinstance(add, Str):
            add = Bytes(add.s)
        if not isinstance(add, Bytes):
            raise Unsupported("hash input of non-bytes")
        write_through(ex, st, r, LibV("hasher", (name, n, z3.Concat(acc, add.s))))
        return UNIT
    if c.method == "output_bytes":
        return ex.mk_int(n, 64, False)
    if c.method == "output_bits":
        return ex.mk_int(n * 8, 64, False)
    out = args[1]
    digest = hash_fn(name)(acc)
    st.pc.append(z3.Length(digest) == n)
    tgt = deref1(ex, st, out)
    if isinstance(tgt, VecV):
        write_through(ex, st, out, VecV(Bytes(digest)))
    elif isinstance(tgt, Arr):
        write_through(ex, st, out, Arr(tuple(BV(digest[i], 8, False) for i in range(len(tgt.elems)))))
    else:
        raise Unsupported("digest output target")
    return UNIT


@reg_pred(lambda c: c.trait is not None and _type_head(c.trait) == "TryInto" and c.method == "try_into" and re.match(r"^TryInto<\[u8; \d+\]>$", c.trait.strip()) is not None)
def _vec_try_into_array(ex, st, c, args, dty):
    n = int(re.match(r"^TryInto<\[u8; (\d+)\]>$", c.trait.strip()).group(1))
    v = args[0]
    it = v.items if isinstance(v, VecV) else v
    if not isinstance(it, Bytes):
        raise Unsupported("try_into array of non-bytes")
    ok = z3.Length(it.s) == n
    arr = Arr(tuple(BV(it.s[i], 8, False) for i in range(n)))
    return [(ok, Adt("Result", "Ok", (arr,))), (z3.Not(ok), Adt("Result", "Err", (v,)))]


_ed = []


@reg("ed25519::verify")
def _ed25519_verify(ex, st, c, args, dty):
    if not _ed:
        _ed.append(z3.Function("ed25519_verify", ByteSeq, ByteSeq, ByteSeq, z3.BoolSort()))
    from props.c04 import bytes_of_arr  # local import: byte array -> seq

    def seq_of(v):
        it = items_of(ex, st, v)
        if isinstance(it, Bytes):
            return it.s
        if isinstance(it, Arr):
            return bytes_of_arr(it)
        raise Unsupported("ed25519 argument")
    return BoolV(_ed[0](seq_of(args[0]), seq_of(args[1]), seq_of(args[2])))


# ---------------------------------------------------------------------------------------------
# T2: operator traits on machine integers, ordering of byte vectors, bit vectors, popcount, lazies

_OPTRAITS = {"BitXor": "BitXor", "BitAnd": "BitAnd", "BitOr": "BitOr", "Shl": "Shl", "Shr": "Shr", "Add": "Add", "Sub": "Sub", "Mul": "Mul"}


@reg_pred(lambda c: c.trait is not None and _type_head(c.trait) in _OPTRAITS and _type_head(c.qself or "") in INT_TYPES)
def _int_op_trait(ex, st, c, args, dty):
    a, b = deref(ex, st, args[0]), deref(ex, st, args[1])
    return ex.binop(_OPTRAITS[_type_head(c.trait)], a, b)


@reg_pred(lambda c: c.trait is not None and _type_head(c.trait) == "Not" and _type_head(c.qself or "") in INT_TYPES)
def _int_not_trait(ex, st, c, args, dty):
    a = deref(ex, st, args[0])
    return BV(~a.e, a.bits, a.signed) if not z3.is_int(a.e) else BV(z3.BV2Int(~z3.Int2BV(a.e, a.bits), a.signed), a.bits, a.signed)


def _as_byte_list(ex, st, v):
    it = items_of(ex, st, v)
    if isinstance(it, Arr):
        return [e.e if not z3.is_int(e.e) else z3.Int2BV(e.e, 8) for e in it.elems]
    if isinstance(it, Bytes):
        us = seq_units(it.s)
        if us is not None:
            return us
    raise Unsupported("byte-wise operation on a symbolic-length byte string (enumerate lengths in the obligation)")


def _lex_lt(a, b):
    res = z3.BoolVal(len(a) < len(b))
    for i in range(min(len(a), len(b)) - 1, -1, -1):
        res = z3.If(a[i] == b[i], res, z3.ULT(a[i], b[i]))
    return res


@reg("<Vec as PartialOrd>::lt", "<Vec as PartialOrd>::le", "<Vec as PartialOrd>::gt", "<Vec as PartialOrd>::ge",
     "<[T] as PartialOrd>::lt", "<[T] as PartialOrd>::le")
def _vec_cmp(ex, st, c, args, dty):
    a, b = _as_byte_list(ex, st, args[0]), _as_byte_list(ex, st, args[1])
    lt, gt = _lex_lt(a, b), _lex_lt(b, a)
    return BoolV({"lt": lt, "le": z3.Not(gt), "gt": gt, "ge": z3.Not(lt)}[c.method])


def _small_cases(ex, st, n_int, limit, what):
    """enumerate the values of a small non-negative integer expression under the path condition"""
    ns = z3.simplify(n_int)
    if is_concrete(ns):
        return [(None, ns.as_long())]
    if ex.check(st.pc, z3.Or(n_int > limit, n_int < 0)) != "unsat":
        raise Unsupported(f"{what} with an unbounded symbolic length (bound it by an assumption <= {limit})")
    return [(n_int == k, k) for k in range(limit + 1)]


@reg("vec::from_elem")
def _from_elem2(ex, st, c, args, dty):
    n = ex.to_int_expr(args[1])
    x = args[0]
    out = []
    for cond, k in _small_cases(ex, st, n, 16, "vec![x; n]"):
        out.append((cond, VecV(Arr(tuple([x] * k)))))
    return out


@reg("[T]::repeat")
def _slice_repeat(ex, st, c, args, dty):
    items = items_of(ex, st, args[0])
    if not isinstance(items, Arr):
        raise Unsupported("repeat of a symbolic-length slice")
    n = ex.to_int_expr(args[1])
    return [(cond, VecV(Arr(items.elems * k))) for cond, k in _small_cases(ex, st, n, 16, "repeat")]


@reg_pred(lambda c: c.trait is not None and _type_head(c.trait) == "Itertools" and c.method == "zip_longest")
def _zip_longest(ex, st, c, args, dty):
    a = _as_arr(_iter_items(ex, st, args[0]))
    b = _as_arr(_iter_items(ex, st, args[1]))
    out = []
    for i in range(max(len(a.elems), len(b.elems))):
        if i < len(a.elems) and i < len(b.elems):
            out.append(Adt("EitherOrBoth", "Both", (a.elems[i], b.elems[i])))
        elif i < len(a.elems):
            out.append(Adt("EitherOrBoth", "Left", (a.elems[i],)))
        else:
            out.append(Adt("EitherOrBoth", "Right", (b.elems[i],)))
    return _mk_iter(Arr(tuple(out)))


@reg("<BigInt as FromPrimitive>::from_usize", "<BigInt as FromPrimitive>::from_u64", "<BigInt as FromPrimitive>::from_i64")
def _big_from_prim(ex, st, c, args, dty):
    return Adt("Option", "Some", (BigI(ex.to_int_expr(args[0])),))


@reg_pred(lambda c: c.trait is not None and _type_head(c.trait) in ("Shl", "Shr") and _is_big(c.qself))
def _big_shift(ex, st, c, args, dty):
    a = as_big(ex, st, args[0]).e
    k = z3.simplify(ex.to_int_expr(deref(ex, st, args[1])))
    if not is_concrete(k):
        raise Unsupported("BigInt shift by a symbolic amount")
    p = z3.IntVal(1 << k.as_long())
    if _type_head(c.trait) == "Shl":
        r = a * p
        _shift_of[r.get_id()] = k.as_long()
        return BigI(r)
    return BigI(_floor_div(a, p))


@reg("weight", "hamming::weight")
def _hamming_weight(ex, st, c, args, dty):
    bs = _as_byte_list(ex, st, args[0])
    tot = z3.IntVal(0)
    for b in bs:
        for i in range(8):
            tot = tot + z3.BV2Int(z3.Extract(i, i, b), False)
    return BV(tot, 64, False)


def _u8_fn(name):
    def deco(f):
        TABLE[f"u8::{name}"] = f
        return f
    return deco


@_u8_fn("reverse_bits")
def _u8_reverse_bits(ex, st, c, args, dty):
    a = args[0]
    e = a.e if not z3.is_int(a.e) else z3.Int2BV(a.e, 8)
    return BV(z3.Concat(*[z3.Extract(i, i, e) for i in range(8)]), 8, False)


@_u8_fn("leading_zeros")
def _u8_leading_zeros(ex, st, c, args, dty):
    a = args[0]
    e = a.e if not z3.is_int(a.e) else z3.Int2BV(a.e, 8)
    r = z3.BitVecVal(8, 32)
    for i in range(8):  # highest set bit wins
        r = z3.If(z3.Extract(i, i, e) == 1, z3.BitVecVal(7 - i, 32), r)
    return BV(r, 32, False)


@_u8_fn("count_ones")
def _u8_count_ones(ex, st, c, args, dty):
    e = args[0].e
    tot = z3.BitVecVal(0, 32)
    for i in range(8):
        tot = tot + z3.ZeroExt(31, z3.Extract(i, i, e))
    return BV(tot, 32, False)


# generic consumers of concrete-length iterators -----------------------------------------------


def _elems_of_iter(ex, st, it):
    cases = _force_iter(ex, st.clone(), it)
    return cases


@reg_pred(lambda c: c.trait is not None and _type_head(c.trait) == "Iterator" and c.method in ("find_map", "find", "any", "all", "position", "for_each", "fold", "count", "sum", "last", "min", "max"))
def _iter_consume(ex, st, c, args, dty):
    out = []
    for s0, items in _force_iter(ex, st.clone(), args[0]):
        if isinstance(items, Panic):
            out.append((s0, items))
            continue
        if isinstance(items, Bytes):
            us = seq_units(items.s)
            if us is None:
                raise Unsupported(f"{c.method} over a symbolic-length byte iterator")
            items = Arr(tuple(BV(u, 8, False) for u in us))
        items = _as_arr(items)
        m = c.method
        if m == "count":
            out.append((s0, ex.mk_int(len(items.elems), 64, False)))
            continue
        if m == "last":
            out.append((s0, Adt("Option", "Some", (items.elems[-1],)) if items.elems else Adt("Option", "None", ())))
            continue
        if m in ("sum", "min", "max"):
            raise Unsupported(f"iterator {m}")
        if m == "fold":
            states = [(s0, args[1])]
            for e in items.elems:
                nxt = []
                for s1, acc in states:
                    for s2, r in call_closure(ex, s1, args[2], [acc, e]):
                        nxt.append((s2, r))
                states = nxt
                if any(isinstance(r, Panic) for _, r in states):
                    out += [(s, r) for s, r in states if isinstance(r, Panic)]
                    states = [(s, r) for s, r in states if not isinstance(r, Panic)]
            out += states
            continue
        # short-circuiting consumers
        states = [s0]
        done = []
        f = args[1]
        for idx, e in enumerate(items.elems):
            nxt = []
            for s1 in states:
                for s2, r in call_closure(ex, s1, f, [e]):
                    if isinstance(r, Panic):
                        done.append((s2, r))
                        continue
                    if m == "find_map":
                        if r.variant == "Some":
                            done.append((s2, r))
                        else:
                            nxt.append(s2)
                    elif m == "for_each":
                        nxt.append(s2)
                    else:
                        be = z3.simplify(r.e)
                        for val, cond in ((True, r.e), (False, z3.Not(r.e))):
                            if z3.is_true(z3.simplify(cond)):
                                pass
                            elif z3.is_false(z3.simplify(cond)) or ex.check(s2.pc, cond) != "sat":
                                continue
                            s3 = s2.clone()
                            s3.pc.append(cond)
                            hit = (val and m in ("find", "any", "position")) or ((not val) and m == "all")
                            if hit:
                                res = {"find": Adt("Option", "Some", (e,)), "any": BoolV(z3.BoolVal(True)), "all": BoolV(z3.BoolVal(False)),
                                       "position": Adt("Option", "Some", (ex.mk_int(idx, 64, False),))}[m]
                                done.append((s3, res))
                            else:
                                nxt.append(s3)
            states = nxt
        final = {"find_map": Adt("Option", "None", ()), "find": Adt("Option", "None", ()), "position": Adt("Option", "None", ()),
                 "any": BoolV(z3.BoolVal(False)), "all": BoolV(z3.BoolVal(True)), "for_each": UNIT}[m]
        out += done + [(s, final) for s in states]
    return Forked(out)


# bitvec::BitVec<u8, Msb0> over a concrete-length byte vector: one big bit-vector, bit 0 = MSB of byte 0 -----


def _bitvec_of(ex, st, v):
    bs = _as_byte_list(ex, st, v)
    return LibV("bitvec", (tuple(bs),))


@reg("BitVec::from_vec")
def _bitvec_from_vec(ex, st, c, args, dty):
    return _bitvec_of(ex, st, args[0])


def _bitvec_big(bv):
    bs = bv.data[0]
    if not bs:
        return None
    return z3.Concat(*bs) if len(bs) > 1 else bs[0]


def _bitvec_split(big, n):
    return tuple(z3.Extract(8 * (n - i) - 1, 8 * (n - i - 1), big) for i in range(n))


def _bitvec_op(kind):
    def h(ex, st, c, args, dty):
        r = args[0]
        bv = deref1(ex, st, r)
        n = len(bv.data[0])
        if n == 0:
            return UNIT
        big = _bitvec_big(bv)
        amt = ex.to_int_expr(args[1])
        bits = 8 * n
        inb = z3.And(amt >= 0, amt <= bits)
        a = z3.Int2BV(amt, bits)
        if kind == "shl":
            res = z3.If(amt >= bits, z3.BitVecVal(0, bits), big << a)
        elif kind == "shr":
            res = z3.If(amt >= bits, z3.BitVecVal(0, bits), z3.LShR(big, a))
        else:
            res = z3.RotateLeft(big, z3.Int2BV(amt % bits, bits)) if kind == "rotl" else z3.RotateRight(big, z3.Int2BV(amt % bits, bits))

        def eff(s):
            write_through(ex, s, r, LibV("bitvec", (_bitvec_split(res, n),)))
            return UNIT
        # bitvec panics when the amount exceeds the length
        return [(inb, Effect(eff)), (z3.Not(inb), Panic(f"bitvec {kind}: amount exceeds the length"))]
    return h


TABLE["BitVec::shift_left"] = _bitvec_op("shl")
TABLE["BitVec::shift_right"] = _bitvec_op("shr")
TABLE["BitVec::rotate_left"] = _bitvec_op("rotl")
TABLE["BitVec::rotate_right"] = _bitvec_op("rotr")
TABLE["BitSlice::shift_left"] = _bitvec_op("shl")
TABLE["BitSlice::shift_right"] = _bitvec_op("shr")
TABLE["BitSlice::rotate_left"] = _bitvec_op("rotl")
TABLE["BitSlice::rotate_right"] = _bitvec_op("rotr")


@reg("BitVec::into_vec")
def _bitvec_into_vec(ex, st, c, args, dty):
    bv = args[0]
    return VecV(Arr(tuple(BV(b, 8, False) for b in bv.data[0])))


@reg_pred(lambda c: c.method in ("deref", "deref_mut") and c.qself is not None and _type_head(c.qself) == "BitVec")
def _bitvec_deref(ex, st, c, args, dty):
    return args[0]


# once_cell::sync::Lazy -------------------------------------------------------------------------


@reg("Lazy::new")
def _lazy_new(ex, st, c, args, dty):
    return LibV("lazy", (args[0],))


@reg("<Lazy as Deref>::deref", "Lazy::force")
def _lazy_deref(ex, st, c, args, dty):
    lz = deref(ex, st, args[0])
    cases = call_closure(ex, st, lz.data[0], [])
    return Forked([(s, v if isinstance(v, Panic) else ex.alloc(s, v, False)) for s, v in cases])


# ---------------------------------------------------------------------------------------------
# HashMap / BTreeMap as an association list with symbolic keys: entries newest first, value None = tombstone


@reg("HashMap::new", "BTreeMap::new", "HashMap::with_capacity", "<HashMap as Default>::default")
def _map_new(ex, st, c, args, dty):
    return LibV("map", ())


def _map_of(ex, st, r):
    m = deref1(ex, st, r)
    if not (isinstance(m, LibV) and m.kind == "map"):
        raise Unsupported(f"not a map: {m!r}"[:80])
    return m


def _map_lookup(ex, st, m, key):
    """[(cond, value|None)] : mutually exclusive, exhaustive"""
    out = []
    newer = []
    for k, v in m.data:
        e = struct_eq(ex, st, k, key)
        out.append((z3.And([e] + [z3.Not(x) for x in newer]), v))
        newer.append(e)
    out.append((z3.And([z3.Not(x) for x in newer] + [z3.BoolVal(True)]), None))
    return out


@reg("HashMap::insert", "BTreeMap::insert")
def _map_insert(ex, st, c, args, dty):
    r, k, v = args
    m = _map_of(ex, st, r)
    old = _map_lookup(ex, st, m, k)
    write_through(ex, st, r, LibV("map", ((k, v),) + m.data))
    return [(cond, Adt("Option", "Some", (val,)) if val is not None else Adt("Option", "None", ())) for cond, val in old]


@reg("HashMap::remove", "BTreeMap::remove")
def _map_remove(ex, st, c, args, dty):
    r, kref = args
    k = deref(ex, st, kref)
    m = _map_of(ex, st, r)
    old = _map_lookup(ex, st, m, k)
    write_through(ex, st, r, LibV("map", ((k, None),) + m.data))
    return [(cond, Adt("Option", "Some", (val,)) if val is not None else Adt("Option", "None", ())) for cond, val in old]


@reg("HashMap::get", "BTreeMap::get")
def _map_get(ex, st, c, args, dty):
    r, kref = args
    k = deref(ex, st, kref)
    m = _map_of(ex, st, r)
    out = []
    for cond, val in _map_lookup(ex, st, m, k):
        if val is None:
            out.append((cond, Adt("Option", "None", ())))
        else:
            out.append((cond, Effect(lambda s, val=val: Adt("Option", "Some", (ex.alloc(s, val, False),)))))
    return out


@reg("HashMap::contains_key", "BTreeMap::contains_key")
def _map_contains(ex, st, c, args, dty):
    r, kref = args
    k = deref(ex, st, kref)
    m = _map_of(ex, st, r)
    return [(cond, BoolV(z3.BoolVal(val is not None))) for cond, val in _map_lookup(ex, st, m, k)]


@_int_method("pow")
def _int_pow(ex, st, c, args, dty):
    a, e = args
    ee = z3.simplify(e.e)
    if not is_concrete(ee):
        raise Unsupported("pow with symbolic exponent")
    x = ex.to_int_expr(a)
    r = z3.IntVal(1)
    for _ in range(ee.as_long()):
        r = r * x
    r = z3.simplify(r)
    lo, hi = ex.range_of(a.bits, a.signed)
    ok = z3.And(r >= lo, r <= hi)
    val = ex.mk_int(r.as_long(), a.bits, a.signed) if is_concrete(r) else BV(r, a.bits, a.signed)
    return [(ok, val), (z3.Not(ok), Panic("attempt to multiply with overflow"))]


# ---------------------------------------------------------------------------------------------
# VecDeque (as a vector: front = index 0)


@reg("VecDeque::new")
def _vd_new(ex, st, c, args, dty):
    return VecV(Arr(()))


@reg("<VecDeque as From>::from", "VecDeque::from")
def _vd_from(ex, st, c, args, dty):
    v = args[0]
    if isinstance(v, VecV) and isinstance(v.items, Bytes):
        us = seq_units(v.items.s)
        if us is None:
            raise Unsupported("VecDeque from a symbolic-length byte vector")
        return VecV(Arr(tuple(BV(u, 8, False) for u in us)))
    return v


@reg("VecDeque::pop_front")
def _vd_pop_front(ex, st, c, args, dty):
    r = args[0]
    a = _vec_arr(ex, st, r)
    if not a.elems:
        return Adt("Option", "None", ())
    write_through(ex, st, r, VecV(Arr(a.elems[1:])))
    return Adt("Option", "Some", (a.elems[0],))


@reg("VecDeque::pop_back")
def _vd_pop_back(ex, st, c, args, dty):
    return _vec_pop(ex, st, c, args, dty)


@reg("VecDeque::push_back")
def _vd_push_back(ex, st, c, args, dty):
    return _vec_push(ex, st, c, args, dty)


@reg("VecDeque::push_front")
def _vd_push_front(ex, st, c, args, dty):
    r = args[0]
    a = _vec_arr(ex, st, r)
    write_through(ex, st, r, VecV(Arr((args[1],) + a.elems)))
    return UNIT


@reg("VecDeque::append")
def _vd_append(ex, st, c, args, dty):
    return _vec_append(ex, st, c, args, dty)


@reg("VecDeque::len", "VecDeque::is_empty")
def _vd_len(ex, st, c, args, dty):
    n = ex.len_of(st, args[0])
    return n if c.method == "len" else BoolV(n.e == 0)


@reg("<VecDeque as FromIterator>::from_iter", "VecDeque::from_iter")
def _vd_from_iter(ex, st, c, args, dty):
    cases = _force_iter(ex, st.clone(), args[0])
    return Forked([(s, r if isinstance(r, Panic) else VecV(r)) for s, r in cases])


@reg("[T]::join", "[T]::concat")
def _slice_join(ex, st, c, args, dty):
    return fresh_obj("joined", "String")


@reg("char::from_u32")
def _char_from_u32(ex, st, c, args, dty):
    x = ex.to_int_expr(args[0])
    ok = z3.Or(z3.And(x >= 0, x < 0xD800), z3.And(x > 0xDFFF, x <= 0x10FFFF))
    return [(ok, Adt("Option", "Some", (BV(x, 32, False),))), (z3.Not(ok), Adt("Option", "None", ()))]


@reg("<BigUint as ToBigInt>::to_bigint")
def _biguint_to_bigint(ex, st, c, args, dty):
    return Adt("Option", "Some", (as_big(ex, st, args[0]),))


@reg_pred(lambda c: c.trait is not None and _type_head(c.trait) == "BitAnd" and _is_big(c.qself))
def _big_bitand(ex, st, c, args, dty):
    a = as_big(ex, st, args[0]).e
    b = z3.simplify(as_big(ex, st, args[1]).e)
    if is_concrete(b) and b.as_long() == 1:
        return BigI(a % 2)
    raise Unsupported("BigInt bit-and")


@reg_pred(lambda c: c.trait is not None and _type_head(c.trait) == "BitXor" and _is_big(c.qself))
def _big_bitxor(ex, st, c, args, dty):
    """zigzag decoding: (n >> 1) ^ -(n & 1)  ==  n/2 if n even else -(n/2) - 1   (second operand is 0 or -1)"""
    a = as_big(ex, st, args[0]).e
    b = as_big(ex, st, args[1]).e
    if ex.check(st.pc, z3.And(b != 0, b != -1)) != "unsat":
        raise Unsupported("BigInt xor with a general operand")
    return BigI(z3.If(b == 0, a, -a - 1))


@reg_pred(lambda c: c.trait is not None and _type_head(c.trait) == "ToString" and c.method == "to_string")
def _to_string_generic(ex, st, c, args, dty):
    v = deref(ex, st, args[0])
    if isinstance(v, Str):
        return v
    return fresh_obj("string", "String")


# ---------------------------------------------------------------------------------------------
# text -> number conversions (std `str::parse` for machine integers, num-bigint 0.4 `from_str_radix`).  Only the Ok/Err (Some/None)
# outcome is modelled exactly (as a regular-language membership of the byte sequence); the numeric value is a fresh unknown, which is an
# over-approximation that is sound for panic-freedom obligations.

def _re_unit(ch):
    return z3.Re(z3.Unit(z3.BitVecVal(ord(ch), 8)))


def _re_set(chars):
    rs = [_re_unit(c) for c in chars]
    return rs[0] if len(rs) == 1 else z3.Union(*rs)


_RE_DIGIT = _re_set("0123456789")
_RE_SIGN = _re_set("+-")
# num-bigint 0.4: BigInt::from_str_radix(s, 10) is Ok  <=>  s in [+-]? [0-9] [0-9_]*   (read off bigint/convert.rs + biguint/convert.rs)
_RE_BIGINT10 = z3.Concat(z3.Option(_RE_SIGN), _RE_DIGIT, z3.Star(z3.Union(_RE_DIGIT, _re_unit("_"))))


def _str_seq(ex, st, v):
    v = deref(ex, st, v)
    if isinstance(v, Str):
        return v.s
    if isinstance(v, Bytes):
        return v.s
    raise Unsupported(f"text->number conversion of {type(v).__name__}")


def _big_parse_cases(ex, st, seq, some, none):
    ok = z3.InRe(seq, _RE_BIGINT10)
    return [(ok, some(BigI(z3.Int(fresh("parsed"))))), (z3.Not(ok), none)]


@reg("BigInt::parse_bytes")
def _bigint_parse_bytes(ex, st, c, args, dty):
    r = z3.simplify(args[1].e) if isinstance(args[1], BV) else None
    if r is None or not is_concrete(r) or r.as_long() != 10:
        raise Unsupported("BigInt::parse_bytes with a radix other than the constant 10")
    # bytes that are not UTF-8 are not in the regular language either (it is ASCII only): None
    return _big_parse_cases(ex, st, _str_seq(ex, st, args[0]), lambda b: Adt("Option", "Some", (b,)), Adt("Option", "None", ()))


@reg("<BigInt as FromStr>::from_str")
def _bigint_from_str(ex, st, c, args, dty):
    return _big_parse_cases(ex, st, _str_seq(ex, st, args[0]), lambda b: Adt("Result", "Ok", (b,)),
                            Adt("Result", "Err", (Adt("ParseBigIntError", None, ()),)))


@reg("<BigInt as Num>::from_str_radix")
def _bigint_from_str_radix(ex, st, c, args, dty):
    r = z3.simplify(args[1].e) if isinstance(args[1], BV) else None
    if r is None or not is_concrete(r) or r.as_long() != 10:
        raise Unsupported("BigInt::from_str_radix with a radix other than the constant 10")
    return _bigint_from_str(ex, st, c, args, dty)


_INT_T = {"usize": (64, False), "u64": (64, False), "isize": (64, True), "i64": (64, True), "u32": (32, False), "i32": (32, True),
          "u8": (8, False), "i8": (8, True), "u16": (16, False), "i16": (16, True), "u128": (128, False), "i128": (128, True)}


@reg("str::parse")
def _str_parse(ex, st, c, args, dty):
    t = c.targs[0] if c.targs else ""
    if _type_head(t) == "BigInt":
        return _bigint_from_str(ex, st, c, args, dty)
    if t not in _INT_T:
        raise Unsupported(f"str::parse::<{t}>")
    bits, signed = _INT_T[t]
    seq = _str_seq(ex, st, args[0])
    # std: [+]?[0-9]+ for unsigned, [+-]?[0-9]+ for signed; Err(PosOverflow/NegOverflow) when the value does not fit.
    sign = _RE_SIGN if signed else _re_unit("+")
    shape = z3.Concat(z3.Option(sign), z3.Plus(_RE_DIGIT))
    safe_digits = len(str(2 ** (bits - 1) - 1)) - 1  # this many digits always fit
    over_digits = len(str(2 ** bits)) + 1  # this many digits with a non-zero lead never fit
    fits = z3.InRe(seq, z3.Concat(z3.Option(sign), z3.Loop(_RE_DIGIT, 1, safe_digits)))
    overflows = z3.InRe(seq, z3.Concat(z3.Option(sign), _re_set("123456789"), z3.Loop(_RE_DIGIT, over_digits - 1, 0)))
    wf = z3.InRe(seq, shape)
    lo, hi = (-(2 ** (bits - 1)), 2 ** (bits - 1) - 1) if signed else (0, 2 ** bits - 1)
    x = z3.Int(fresh("parsed"))
    okv = Adt("Result", "Ok", (BV(x, bits, signed),))
    err = Adt("Result", "Err", (Adt("ParseIntError", None, ()),))
    in_range = z3.And(x >= lo, x <= hi)
    unsure = z3.And(wf, z3.Not(fits), z3.Not(overflows))  # between the two digit counts: either outcome (over-approximation)
    # separate Err cases so that a panic on the definite-overflow path gets a model that replays natively
    return [(z3.And(z3.Or(fits, unsure), in_range), okv), (z3.Not(wf), err), (overflows, err), (unsure, err)]
