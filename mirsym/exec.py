"""Path-based symbolic executor for rustc MIR (textual dump), z3 as the deciding solver.

* machine integers: bit-vectors (exact wrap-around semantics) or, in `int_mode`, mathematical
  integers with explicit range checks on every checked operation (faster for polynomials);
* BigInt -> z3 Int, Vec<u8> -> Seq(BitVec 8), opaque sub-objects -> uninterpreted sort;
* panics (MIR `assert`, unwrap on the failing variant, panic!/unreachable!) end a path with
  kind 'panic'; a callee without summary and without MIR raises Unsupported -> 'undecided'.
"""
from __future__ import annotations

import re
import time
from dataclasses import dataclass, field
from typing import Callable, Dict, List, Optional, Tuple

import z3

from . import mir
from .mir import Function, Module, Operand, Place, split_top, strip_generics
from .rustsrc import Decls
from .values import *  # noqa


class Unsupported(Exception):
    pass


class Infeasible(Exception):
    """Path turned out to be infeasible / UB-only (e.g. downcast to the wrong variant)."""


@dataclass
class Frame:
    fn: Function
    fid: int
    bb: int
    dest: Optional[Tuple[object, Tuple]]  # (cell, proj) in caller's memory for the return value
    ret_bb: Optional[int]
    generics: Dict[str, str] = field(default_factory=dict)
    keep: bool = False  # const items: locals have static lifetime


class State:
    __slots__ = ("mem", "pc", "frames", "events", "steps", "ghost")

    def __init__(self):
        self.mem: Dict[object, V] = {}
        self.pc: List = []
        self.frames: List[Frame] = []
        self.events: List = []
        self.steps = 0
        self.ghost: Dict = {}

    def assign(self, o: "State"):
        self.mem, self.pc, self.frames, self.events, self.steps, self.ghost = o.mem, o.pc, o.frames, o.events, o.steps, o.ghost

    def clone(self) -> "State":
        s = State()
        s.mem = dict(self.mem)
        s.pc = list(self.pc)
        s.frames = [Frame(f.fn, f.fid, f.bb, f.dest, f.ret_bb, f.generics, f.keep) for f in self.frames]
        s.events = list(self.events)
        s.steps = self.steps
        s.ghost = dict(self.ghost)
        return s


@dataclass
class Outcome:
    kind: str  # 'return' | 'panic' | 'undecided'
    value: Optional[V]
    state: State
    msg: str = ""
    ctx: object = None

    @property
    def pc(self):
        return self.state.pc


@dataclass
class Callee:
    raw: str
    qself: Optional[str]
    trait: Optional[str]
    segs: List[str]  # path segments, generics stripped
    targs: List[str]  # generic args of all turbofish groups, in order
    key: str

    @property
    def method(self):
        return self.segs[-1] if self.segs else ""


_callee_cache: Dict[str, Callee] = {}


def _type_head(t: str) -> str:
    return mir._head(t)


def parse_callee(s: str) -> Callee:
    if s in _callee_cache:
        return _callee_cache[s]
    raw = s
    qself = trait = None
    rest = s
    if s.startswith("<"):
        end = mir.find_matching(s, 0)
        q = s[1:end]
        rest = s[end + 1 :]
        # split ' as ' at top level
        depth = 0
        cut = None
        for i in range(len(q)):
            c = q[i]
            if c in "<([":
                depth += 1
            elif c in ")]" or (c == ">" and q[i - 1] not in "-="):
                depth -= 1
            elif depth == 0 and q.startswith(" as ", i):
                cut = i
        if cut is not None:
            qself, trait = q[:cut].strip(), q[cut + 4 :].strip()
        else:
            qself = q.strip()
        rest = rest.lstrip(":")
    # collect turbofish args & strip
    impl_self = None
    targs = []
    i = 0
    segtxt = []
    while i < len(rest):
        if rest.startswith("::<", i) or (rest[i] == "<" and (i == 0 or rest[i - 1] == ":")):
            j = i + (2 if rest.startswith("::<", i) else 0)
            e = mir.find_matching(rest, j)
            inner = rest[j + 1 : e]
            if inner.startswith("impl "):
                # core::slice::<impl [T]>::get  -> pseudo segment ; flat::<impl ast::Term<DeBruijn>>::decode_debug -> qualified self
                t = inner[5:].strip()
                segtxt.append("::" + ("[T]" if t.startswith("[") else _type_head(t)))
                if " for " not in t and "<" in t and not t.startswith("["):
                    impl_self = t
            else:
                targs.extend(split_top(inner))
            i = e + 1
        else:
            segtxt.append(rest[i])
            i += 1
    p = "".join(segtxt)
    segs = [x for x in p.split("::") if x]
    # <impl [T]> / <impl str> / <impl i64> pseudo segments
    norm = []
    for sg in segs:
        m = re.match(r"^<impl (.*)>$", sg)
        if m:
            t = m.group(1).strip()
            if t.startswith("["):
                norm.append("[T]")
            else:
                norm.append(_type_head(t))
        else:
            norm.append(sg)
    segs = norm
    if qself is None and impl_self is not None:
        qself = impl_self
    if qself is not None and trait is not None:
        key = f"<{_type_head(qself)} as {_type_head(trait)}>::{segs[-1] if segs else ''}"
    elif qself is not None:
        key = f"{_type_head(qself)}::{segs[-1] if segs else ''}"
    elif len(segs) >= 2:
        key = f"{segs[-2]}::{segs[-1]}"
    else:
        key = segs[-1] if segs else raw
    c = Callee(raw, qself, trait, segs, targs, key)
    _callee_cache[s] = c
    return c


def is_concrete(e) -> bool:
    return z3.is_bv_value(e) or z3.is_int_value(e) or z3.is_true(e) or z3.is_false(e)


class Executor:
    def __init__(self, module: Module, decls: Decls, *, int_mode=False, timeout_ms=20000, max_steps=4000,
                 max_paths=2000, stubs: Optional[Dict[str, Callable]] = None, extra_modules: Optional[List[Module]] = None):
        self.m = module
        self.modules = [module] + list(extra_modules or [])
        self.decls = decls
        self.int_mode = int_mode
        self.solver = z3.Solver()
        self.solver.set("timeout", timeout_ms)
        self.timeout_ms = timeout_ms
        self.max_steps = max_steps
        self.max_paths = max_paths
        self.stubs = stubs or {}
        self.queries = 0
        self.solver_s = 0.0
        self.unknowns = 0
        self._fid = 0
        self._cell = 0
        self.encoded: Dict[str, str] = {}  # function name -> sha of MIR text (for evidence)
        self.summaries_used: Dict[str, int] = {}
        from . import summaries  # late import (registers table)
        self.summ = summaries

    # ------------------------------------------------------------------ solver helpers
    def check(self, pc: List, *extra) -> str:
        """'sat' | 'unsat' | 'unknown' for the conjunction."""
        cs = [c for c in list(pc) + list(extra)]
        # quick syntactic decisions
        simp = []
        for c in cs:
            if isinstance(c, bool):
                if not c:
                    return "unsat"
                continue
            c2 = z3.simplify(c)
            if z3.is_false(c2):
                return "unsat"
            if z3.is_true(c2):
                continue
            simp.append(c2)
        if not simp:
            return "sat"
        t = time.time()
        self.queries += 1
        try:
            self.solver.push()
            try:
                self.solver.add(*simp)
                r = self.solver.check()
            finally:
                self.solver.pop()
        except z3.Z3Exception:
            # e.g. "reached max unfolding" of the sequence solver: retry once on a fresh solver, else unknown
            self.solver = z3.Solver()
            self.solver.set("timeout", self.timeout_ms)
            try:
                s2 = z3.Solver()
                s2.set("timeout", self.timeout_ms)
                s2.add(*simp)
                r = s2.check()
            except z3.Z3Exception:
                r = z3.unknown
        self.solver_s += time.time() - t
        if r == z3.sat:
            return "sat"
        if r == z3.unsat:
            return "unsat"
        self.unknowns += 1
        return "unknown"

    def model(self, pc: List, *extra):
        s = z3.Solver()
        s.set("timeout", 60000)
        s.add(*[c for c in list(pc) + list(extra) if not isinstance(c, bool)])
        t = time.time()
        self.queries += 1
        r = s.check()
        self.solver_s += time.time() - t
        if r == z3.sat:
            return s.model()
        return None

    # ------------------------------------------------------------------ state helpers
    def new_state(self) -> State:
        return State()

    def alloc(self, st: State, v: V, mut=True) -> Ref:
        self._cell += 1
        cell = ("T", self._cell)
        st.mem[cell] = v
        return Ref(cell, (), mut)

    # ------------------------------------------------------------------ types
    def subst_ty(self, ty: str, fr: Frame) -> str:
        if fr.generics:
            for k, v in fr.generics.items():
                ty = re.sub(rf"\b{re.escape(k)}\b", v, ty)
        return ty

    def int_ty(self, ty: str) -> Optional[Tuple[int, bool]]:
        return INT_TYPES.get(ty.strip())

    # ------------------------------------------------------------------ integer ops (both modes)
    def mk_int(self, val: int, bits: int, signed: bool) -> BV:
        if self.int_mode:
            return BV(z3.IntVal(val), bits, signed)
        return BV(z3.BitVecVal(val, bits), bits, signed)

    def sym_int(self, name: str, bits: int, signed: bool, st: Optional[State] = None) -> BV:
        if self.int_mode:
            e = z3.Int(name)
            lo, hi = self.range_of(bits, signed)
            if st is not None:
                st.pc.append(z3.And(e >= lo, e <= hi))
            return BV(e, bits, signed)
        return BV(z3.BitVec(name, bits), bits, signed)

    @staticmethod
    def range_of(bits, signed):
        return (-(1 << (bits - 1)), (1 << (bits - 1)) - 1) if signed else (0, (1 << bits) - 1)

    def in_range(self, e, bits, signed):
        lo, hi = self.range_of(bits, signed)
        return z3.And(e >= lo, e <= hi)

    def wrap_int(self, e, bits, signed):
        lo, hi = self.range_of(bits, signed)
        m = 1 << bits
        return z3.If(z3.And(e >= lo, e <= hi), e, ((e - lo) % m) + lo)

    def to_int_expr(self, v: BV):
        """Mathematical value of a machine integer as z3 Int."""
        if z3.is_int(v.e):
            return v.e
        e = z3.simplify(v.e)
        if z3.is_bv_value(e):
            return z3.IntVal(e.as_signed_long() if v.signed else e.as_long())
        return z3.BV2Int(v.e, v.signed)

    def binop(self, op: str, a: V, b: V) -> V:
        if isinstance(a, BoolV) and isinstance(b, BoolV):
            if op == "Eq":
                return BoolV(a.e == b.e)
            if op == "Ne":
                return BoolV(a.e != b.e)
            if op == "BitAnd":
                return BoolV(z3.And(a.e, b.e))
            if op == "BitOr":
                return BoolV(z3.Or(a.e, b.e))
            if op == "BitXor":
                return BoolV(z3.Xor(a.e, b.e))
            if op in ("Lt", "Le", "Gt", "Ge"):
                ai, bi = z3.If(a.e, 1, 0), z3.If(b.e, 1, 0)
                return BoolV({"Lt": ai < bi, "Le": ai <= bi, "Gt": ai > bi, "Ge": ai >= bi}[op])
        if isinstance(a, EnumSym) or isinstance(b, EnumSym) or (isinstance(a, Adt) and isinstance(b, Adt)):
            da, db = self.disc_of(a), self.disc_of(b)
            if op == "Eq":
                return BoolV(da.e == db.e)
            if op == "Ne":
                return BoolV(da.e != db.e)
        if not (isinstance(a, BV) and isinstance(b, BV)):
            raise Unsupported(f"binop {op} on {type(a).__name__},{type(b).__name__}")
        bits, signed = a.bits, a.signed
        x, y = a.e, b.e
        isint = z3.is_int(x) or z3.is_int(y)
        if isint:
            if not z3.is_int(x):
                x = z3.BV2Int(x, a.signed)
            if not z3.is_int(y):
                y = z3.BV2Int(y, b.signed)
        cmp = {"Eq": lambda: x == y, "Ne": lambda: x != y}
        if op in cmp:
            return BoolV(cmp[op]())
        if op in ("Lt", "Le", "Gt", "Ge"):
            if isint or signed:
                r = {"Lt": x < y, "Le": x <= y, "Gt": x > y, "Ge": x >= y}[op]
            else:
                r = {"Lt": z3.ULT(x, y), "Le": z3.ULE(x, y), "Gt": z3.UGT(x, y), "Ge": z3.UGE(x, y)}[op]
            return BoolV(r)
        if op in ("AddWithOverflow", "SubWithOverflow", "MulWithOverflow"):
            base = op[:3]
            if isint:
                r = {"Add": x + y, "Sub": x - y, "Mul": x * y}[base]
                ovf = z3.Not(self.in_range(r, bits, signed))
                return Tup((BV(self.wrap_int(r, bits, signed) if False else r, bits, signed), BoolV(ovf)))
            if base == "Add":
                r = x + y
                ok = z3.And(z3.BVAddNoOverflow(x, y, signed), z3.BVAddNoUnderflow(x, y)) if signed else z3.BVAddNoOverflow(x, y, False)
            elif base == "Sub":
                r = x - y
                ok = z3.And(z3.BVSubNoOverflow(x, y), z3.BVSubNoUnderflow(x, y, True)) if signed else z3.BVSubNoUnderflow(x, y, False)
            else:
                r = x * y
                ok = z3.And(z3.BVMulNoOverflow(x, y, signed), z3.BVMulNoUnderflow(x, y)) if signed else z3.BVMulNoOverflow(x, y, False)
            return Tup((BV(r, bits, signed), BoolV(z3.Not(ok))))
        if op in ("Add", "Sub", "Mul", "AddUnchecked", "SubUnchecked", "MulUnchecked"):
            base = op[:3]
            if isint:
                r = {"Add": x + y, "Sub": x - y, "Mul": x * y}[base]
                return BV(self.wrap_int(r, bits, signed), bits, signed)
            return BV({"Add": x + y, "Sub": x - y, "Mul": x * y}[base], bits, signed)
        if op in ("Div", "Rem"):
            # MIR guards division by zero / overflow with separate asserts; truncating semantics
            if isint:
                # truncation toward zero on mathematical integers
                q = z3.If(y == 0, 0, z3.If((x >= 0) == (y > 0), _absdiv(x, y), -_absdiv(x, y)))
                if op == "Div":
                    return BV(q, bits, signed)
                return BV(x - q * y, bits, signed)
            if signed:
                return BV(x / y if op == "Div" else z3.SRem(x, y), bits, signed)
            return BV(z3.UDiv(x, y) if op == "Div" else z3.URem(x, y), bits, signed)
        if op in ("BitAnd", "BitOr", "BitXor"):
            if isint:
                x, y = z3.Int2BV(x, bits), z3.Int2BV(y, bits)
                r = {"BitAnd": x & y, "BitOr": x | y, "BitXor": x ^ y}[op]
                return BV(z3.BV2Int(r, signed), bits, signed)
            return BV({"BitAnd": x & y, "BitOr": x | y, "BitXor": x ^ y}[op], bits, signed)
        if op in ("Shl", "Shr", "ShlUnchecked", "ShrUnchecked"):
            if isint:
                x = z3.Int2BV(x, bits)
                y = z3.Int2BV(y, bits)
            else:
                if b.bits < bits:
                    y = z3.ZeroExt(bits - b.bits, y)
                elif b.bits > bits:
                    y = z3.Extract(bits - 1, 0, y)
            y = y & (bits - 1)  # MIR Shl/Shr mask the shift amount; overflow is asserted separately
            if op.startswith("Shl"):
                r = x << y
            else:
                r = (x >> y) if signed else z3.LShR(x, y)
            if isint:
                return BV(z3.BV2Int(r, signed), bits, signed)
            return BV(r, bits, signed)
        raise Unsupported(f"binop {op}")

    def cast_int(self, v: V, bits: int, signed: bool) -> BV:
        if isinstance(v, BoolV):
            if self.int_mode:
                return BV(z3.If(v.e, z3.IntVal(1), z3.IntVal(0)), bits, signed)
            return BV(z3.If(v.e, z3.BitVecVal(1, bits), z3.BitVecVal(0, bits)), bits, signed)
        if isinstance(v, (EnumSym, Adt)):
            v = self.disc_of(v)
        if not isinstance(v, BV):
            raise Unsupported(f"int cast of {type(v).__name__}")
        if z3.is_int(v.e):
            lo, hi = self.range_of(bits, signed)
            slo, shi = self.range_of(v.bits, v.signed)
            if lo <= slo and shi <= hi:
                return BV(v.e, bits, signed)
            return BV(self.wrap_int(v.e, bits, signed), bits, signed)
        e = v.e
        if bits < v.bits:
            e = z3.Extract(bits - 1, 0, e)
        elif bits > v.bits:
            e = z3.SignExt(bits - v.bits, e) if v.signed else z3.ZeroExt(bits - v.bits, e)
        return BV(z3.simplify(e), bits, signed)

    # ------------------------------------------------------------------ enum helpers
    def decl_of(self, ty: str, hint: str = ""):
        return self.decls.get(_type_head(ty), hint or ty)

    def disc_of(self, v: V) -> BV:
        if isinstance(v, EnumSym):
            return BV(v.disc, 64, True) if not z3.is_int(v.disc) else BV(v.disc, 64, True)
        if isinstance(v, Adt):
            if v.variant is None:
                return self.mk_int(0, 64, True)
            d = self.decl_of(v.ty)
            if d is None or d.kind != "enum":
                raise Unsupported(f"no enum declaration for {v.ty}")
            return self.mk_int(d.variant(v.variant).disc, 64, True)
        if isinstance(v, BoolV):
            return self.cast_int(v, 64, True)
        raise Unsupported(f"discriminant of {type(v).__name__}: {v!r}")

    def mk_variant(self, ty: str, variant: str, fields=()) -> Adt:
        return Adt(_type_head(ty), variant, tuple(fields))

    def some(self, v):
        return Adt("Option", "Some", (v,))

    def none(self):
        return Adt("Option", "None", ())

    def ok(self, v):
        return Adt("Result", "Ok", (v,))

    def err(self, v):
        return Adt("Result", "Err", (v,))

    # ------------------------------------------------------------------ places
    def resolve(self, st: State, fr: Frame, place: Place) -> Tuple[object, Tuple]:
        cell = ("L", fr.fid, place.local)
        proj: Tuple = ()
        prev_wrapper = False
        for el in place.proj:
            k = el[0]
            if k != "field":
                prev_wrapper = False
            if k == "deref":
                v = self.read(st, cell, proj)
                if isinstance(v, Ref):
                    cell, proj = v.cell, v.proj
                elif isinstance(v, BoxV):
                    proj = proj + (("inner",),)
                elif isinstance(v, (BV, BoolV, BigI, Adt, Tup, Opaque, Bytes, Str, VecV)):
                    # read-only pseudo-reference: iterator summaries hand out element *values* where Rust hands out
                    # `&T` (see summaries: iterators); dereferencing such a value is the identity
                    pass
                else:
                    raise Unsupported(f"deref of {type(v).__name__} at {place}")
            elif k == "field":
                if proj and proj[-1][0] == "boxptr":
                    continue
                ty = el[2]
                # transparent wrappers (MaybeUninit / ManuallyDrop / MaybeDangling): `.N` goes to the payload
                if prev_wrapper or ty.startswith(_WRAPPERS):
                    prev_wrapper = ty.startswith(_WRAPPERS)
                    continue
                if ty.startswith(("std::ptr::Unique<", "Unique<", "core::ptr::Unique<")):
                    v = self.read(st, cell, proj)
                    if isinstance(v, BoxV):
                        proj = proj + (("boxptr",),)
                        continue
                proj = proj + (("field", el[1]),)
            elif k == "downcast":
                proj = proj + (("downcast", el[1]),)
            elif k == "index":
                iv = st.mem.get(("L", fr.fid, el[1]))
                if not isinstance(iv, BV):
                    raise Unsupported("index by non-integer")
                proj = proj + (("idx", iv),)
            elif k == "cindex":
                proj = proj + (("cidx", el[1], el[3]),)
            elif k == "subslice":
                proj = proj + (("subslice", el[1], el[2], el[3]),)
            else:
                raise Unsupported(f"projection {el}")
        return cell, proj

    def read(self, st: State, cell, proj: Tuple) -> V:
        if cell not in st.mem:
            raise Unsupported(f"read of unset cell {cell}")
        v = st.mem[cell]
        for i, el in enumerate(proj):
            v = self.project(st, v, el, cell, proj[:i])
        return v

    def project(self, st: State, v: V, el, cell=None, before=()) -> V:
        k = el[0]
        if k == "field":
            n = el[1]
            if isinstance(v, (Tup, Adt)):
                if n >= len(v.fields):
                    raise Unsupported(f"field {n} of {v!r}")
                return v.fields[n]
            if isinstance(v, Closure):
                return v.captures[n][1]
            if isinstance(v, BoxV):
                # field of Rc/Box internals is never meaningful for us
                raise Unsupported(f"field {n} of {v.kind}")
            if v is UNINIT:
                raise Unsupported("read of uninitialised field")
            raise Unsupported(f"field {n} of {type(v).__name__}")
        if k == "downcast":
            if isinstance(v, Adt):
                if v.variant != el[1]:
                    raise Infeasible(f"downcast {v.ty}::{v.variant} as {el[1]}")
                return v
            raise Unsupported(f"downcast of {type(v).__name__}")
        if k == "inner":
            if isinstance(v, BoxV):
                return v.inner
            raise Unsupported(f"inner of {type(v).__name__}")
        if k == "boxptr":
            return Ref(cell, tuple(before) + (("inner",),), True)
        if k == "items":
            if isinstance(v, VecV):
                return v.items
            raise Unsupported("items of non-vec")
        if k in ("idx", "cidx"):
            items = v.items if isinstance(v, VecV) else v
            if k == "cidx":
                if not isinstance(items, Arr):
                    raise Unsupported("const index into non-array")
                n = el[1]
                return items.elems[len(items.elems) - n if el[2] else n]
            iv: BV = el[1]
            if isinstance(items, Arr):
                ie = z3.simplify(iv.e)
                if is_concrete(ie):
                    n = ie.as_long()
                    if n >= len(items.elems):
                        raise Infeasible("index out of bounds on a path that passed the bounds check")
                    return items.elems[n]
                return self.ite_select(items.elems, iv)
            if isinstance(items, SymArr):
                if not items.elems:
                    raise Infeasible("index into an empty bounded array")
                ie = z3.simplify(iv.e)
                if is_concrete(ie):
                    n = ie.as_long()
                    if n >= len(items.elems):
                        raise Infeasible("index beyond capacity")
                    return items.elems[n]
                return self.ite_select(items.elems, iv)
            if isinstance(items, SymSeq):
                return Opaque(self.elem_fn()(items.base, self.to_bv64(iv)), items.elem_ty)
            if isinstance(items, Bytes):
                return BV(items.s[self.to_int_expr(iv)], 8, False) if not self.int_mode else BV(z3.BV2Int(items.s[self.to_int_expr(iv)]), 8, False)
            raise Unsupported(f"index into {type(items).__name__}")
        if k == "subslice":
            items = v.items if isinstance(v, VecV) else v
            if isinstance(items, Arr):
                a, b, from_end = el[1], el[2], el[3]
                if b is None:
                    hi = len(items.elems)
                else:
                    hi = len(items.elems) - b if from_end else b
                return Arr(items.elems[a:hi])
            raise Unsupported("subslice")
        raise Unsupported(f"projection {el}")

    _elem = None

    def elem_fn(self):
        if Executor._elem is None:
            Executor._elem = z3.Function("elem", Obj, z3.BitVecSort(64), Obj)
        return Executor._elem

    def to_bv64(self, v: BV):
        if z3.is_int(v.e):
            return z3.Int2BV(v.e, 64)
        if v.bits < 64:
            return z3.ZeroExt(64 - v.bits, v.e)
        return v.e

    def ite_select(self, elems, iv: BV) -> V:
        r = elems[-1]
        for i in range(len(elems) - 2, -1, -1):
            c = iv.e == (z3.IntVal(i) if z3.is_int(iv.e) else z3.BitVecVal(i, iv.e.size()))
            r = self.ite(c, elems[i], r)
        return r

    def ite(self, c, a: V, b: V) -> V:
        if a is b:
            return a
        if isinstance(a, BV) and isinstance(b, BV):
            ae, be = a.e, b.e
            if z3.is_int(ae) != z3.is_int(be):  # mixed flavours: bring the mathematical one to bits
                if z3.is_int(ae):
                    ae = z3.Int2BV(ae, b.bits)
                else:
                    be = z3.Int2BV(be, a.bits)
            return BV(z3.If(c, ae, be), a.bits, a.signed)
        if isinstance(a, BoolV) and isinstance(b, BoolV):
            return BoolV(z3.If(c, a.e, b.e))
        if isinstance(a, BigI) and isinstance(b, BigI):
            return BigI(z3.If(c, a.e, b.e))
        if isinstance(a, Opaque) and isinstance(b, Opaque):
            return Opaque(z3.If(c, a.e, b.e), a.ty)
        if isinstance(a, Tup) and isinstance(b, Tup) and len(a.fields) == len(b.fields):
            return Tup(tuple(self.ite(c, x, y) for x, y in zip(a.fields, b.fields)))
        if isinstance(a, Adt) and isinstance(b, Adt) and a.ty == b.ty and a.variant == b.variant and len(a.fields) == len(b.fields):
            return Adt(a.ty, a.variant, tuple(self.ite(c, x, y) for x, y in zip(a.fields, b.fields)))
        raise Unsupported(f"ite over {type(a).__name__}/{type(b).__name__}")

    def write(self, st: State, cell, proj: Tuple, nv: V):
        if not proj:
            st.mem[cell] = nv
            return
        old = st.mem.get(cell, UNINIT)
        st.mem[cell] = self._set(st, old, proj, nv)

    def _set(self, st: State, v: V, proj: Tuple, nv: V) -> V:
        if not proj:
            return nv
        el, rest = proj[0], proj[1:]
        k = el[0]
        if k == "field":
            n = el[1]
            if v is UNINIT:
                v = Tup(tuple([UNINIT] * (n + 1)))
            if isinstance(v, Tup):
                fs = list(v.fields)
                while len(fs) <= n:
                    fs.append(UNINIT)
                fs[n] = self._set(st, fs[n], rest, nv)
                return Tup(tuple(fs))
            if isinstance(v, Adt):
                fs = list(v.fields)
                while len(fs) <= n:
                    fs.append(UNINIT)
                fs[n] = self._set(st, fs[n], rest, nv)
                return Adt(v.ty, v.variant, tuple(fs))
            raise Unsupported(f"field write into {type(v).__name__}")
        if k == "downcast":
            if isinstance(v, Adt):
                if v.variant != el[1]:
                    # writing a variant's fields before setting the discriminant
                    v = Adt(v.ty, el[1], ())
                return self._set(st, v, rest, nv)
            if v is UNINIT:
                return self._set(st, Adt("?", el[1], ()), rest, nv)
            raise Unsupported("downcast write")
        if k == "inner":
            if isinstance(v, BoxV):
                return BoxV(self._set(st, v.inner, rest, nv), v.kind)
            if v is UNINIT:
                return BoxV(self._set(st, UNINIT, rest, nv))
            raise Unsupported("inner write")
        if k == "items":
            return VecV(self._set(st, v.items, rest, nv))
        if k in ("idx", "cidx"):
            isvec = isinstance(v, VecV)
            items = v.items if isvec else v
            if not isinstance(items, Arr):
                raise Unsupported(f"indexed write into {type(items).__name__}")
            elems = list(items.elems)
            if k == "cidx":
                n = len(elems) - el[1] if el[2] else el[1]
                elems[n] = self._set(st, elems[n], rest, nv)
            else:
                iv: BV = el[1]
                ie = z3.simplify(iv.e)
                if is_concrete(ie):
                    n = ie.as_long()
                    if n >= len(elems):
                        raise Infeasible("oob write")
                    elems[n] = self._set(st, elems[n], rest, nv)
                else:
                    for i in range(len(elems)):
                        c = iv.e == (z3.IntVal(i) if z3.is_int(iv.e) else z3.BitVecVal(i, iv.e.size()))
                        elems[i] = self.ite(c, self._set(st, elems[i], rest, nv), elems[i])
            out = Arr(tuple(elems))
            return VecV(out) if isvec else out
        raise Unsupported(f"write through {el}")

    # ------------------------------------------------------------------ operands / consts
    def eval_operand(self, st: State, fr: Frame, op: Operand) -> V:
        if op.kind in ("copy", "move"):
            cell, proj = self.resolve(st, fr, op.place)
            return self.read(st, cell, proj)
        return self.eval_const(st, fr, op.const)

    def eval_const(self, st: State, fr: Frame, c: str) -> V:
        c = c.strip()
        if c == "()":
            return UNIT
        if c == "true":
            return BoolV(z3.BoolVal(True))
        if c == "false":
            return BoolV(z3.BoolVal(False))
        m = re.match(r"^(-?[\d_]+)_([iu](?:8|16|32|64|128|size))$", c)
        if m:
            bits, signed = INT_TYPES[m.group(2)]
            return self.mk_int(int(m.group(1).replace("_", "")), bits, signed)
        m = re.match(r"^(?:core::num::<impl )?([iu](?:8|16|32|64|128|size))>?::(MIN|MAX|BITS)$", c)
        if m:
            bits, signed = INT_TYPES[m.group(1)]
            lo, hi = self.range_of(bits, signed)
            if m.group(2) == "BITS":
                return self.mk_int(bits, 32, False)
            return self.mk_int(lo if m.group(2) == "MIN" else hi, bits, signed)
        m = re.match(r"^'(.*)'$", c, re.S)
        if m:
            ch = m.group(1)
            if ch.startswith("\\"):
                esc = {"\\n": "\n", "\\r": "\r", "\\t": "\t", "\\\\": "\\", "\\'": "'", "\\0": "\0", '\\"': '"'}
                if ch in esc:
                    ch = esc[ch]
                else:
                    mm = re.match(r"\\u\{([0-9a-fA-F]+)\}", ch)
                    if mm:
                        ch = chr(int(mm.group(1), 16))
                    else:
                        raise Unsupported(f"char const {c}")
            return self.mk_int(ord(ch), 32, False)
        if c.startswith('"'):
            return self.str_const(st, _unescape(c[1:-1]))
        if c.startswith('b"'):
            bs = _unescape(c[2:-1]).encode("latin-1")
            return self.alloc(st, Bytes(bytes_lit(bs)), False)
        # typed wrappers: `const Foo::BAR`, `const {alloc..}`, `const fn_item`
        m = re.match(r"^(.*) \{transmute\(0x([0-9a-f]+)\): (.*)\}$", c)
        if m:
            ty = m.group(3)
            it = self.int_ty(ty)
            if it:
                return self.mk_int(int(m.group(2), 16), *it)
        m = re.match(r"^\{(alloc\d+): &(.*)\}$", c)
        if m:
            for mod in self.modules:
                nm = mod.static_allocs.get(m.group(1))
                if nm and nm in mod.promoteds:
                    v = self.eval_const_item(st, mod.promoteds[nm])
                    return self.alloc(st, v, False)
            raise Unsupported(f"static allocation {c}")
        m = re.match(r"^ZeroSized: (\{closure@.*\})$", c)
        if m:
            return Closure(m.group(1), (), tuple(sorted(fr.generics.items())))
        # zero-sized function item
        if c.endswith(">") or re.match(r"^[\w:<>{}@#\[\]., '&/-]+$", c):
            # named constant in one of the modules?
            for mod in self.modules:
                last = c.split("::")[-1]
                for k, lit in mod.const_values.items():
                    if k == c or c.endswith("::" + k) or k.split("::")[-1] == last and re.match(r"^[A-Z_0-9]+$", last):
                        return self.eval_const(st, fr, lit)
            for mod in self.modules:
                if c in mod.promoteds:
                    return self.eval_const_item(st, mod.promoteds[c])
                for k in mod.promoteds:
                    if k.endswith("::" + c) or c.endswith("::" + k) or k == c:
                        return self.eval_const_item(st, mod.promoteds[k])
            # promoted[N] of current fn
            m = re.match(r"^(.*)::promoted\[(\d+)\]$", c)
            if m and fr is not None:
                # the promoted of the function being executed, referred to through its type path
                # (`machine::Machine::return_compute::promoted[0]` for `machine::<impl at ..>::return_compute::promoted[0]`)
                key = f"{fr.fn.name}::promoted[{m.group(2)}]"
                if fr.fn.name.split("::")[-1] == m.group(1).split("::")[-1]:
                    for mod in self.modules:
                        if key in mod.promoteds:
                            return self.eval_const_item(st, mod.promoteds[key])
            if m:
                mi = re.match(r"^(.*)<impl (.*) for (.*)>::(\w+)$", m.group(1))
                if mi:
                    for mod in self.modules:
                        for f in mod.find(mi.group(3), mi.group(4), mi.group(2)):
                            for key in (f"promoted[{m.group(2)}] in {f.name}", f"{f.name}::promoted[{m.group(2)}]"):
                                if key in mod.promoteds:
                                    return self.eval_const_item(st, mod.promoteds[key])
                mi = re.match(r"^(.*)<impl ([^<>]*(?:<.*>)?)>::(\w+)$", m.group(1))
                if mi and " for " not in mi.group(2):
                    for mod in self.modules:
                        for f in mod.find(mi.group(2), mi.group(3)):
                            for key in (f"promoted[{m.group(2)}] in {f.name}", f"{f.name}::promoted[{m.group(2)}]"):
                                if key in mod.promoteds:
                                    return self.eval_const_item(st, mod.promoteds[key])
                for mod in self.modules:
                    for k, f in mod.promoteds.items():
                        if k.startswith(f"promoted[{m.group(2)}] in ") and (k.endswith(m.group(1)) or fr.fn.name.endswith(k.split(" in ", 1)[1]) or k.split(" in ", 1)[1].endswith(m.group(1))):
                            return self.eval_const_item(st, f)
            # a field-less enum variant written as a constant (`const num_bigint::Sign::Minus`)
            segs = re.sub(r"<.*>", "", c).split("::")
            if len(segs) >= 2:
                d = self.decls.get(segs[-2])
                if d is not None and d.kind == "enum":
                    for vv in d.variants:
                        if vv.name == segs[-1] and not vv.fields:
                            return Adt(segs[-2], segs[-1], ())
            return FnRef(self.subst_ty(c, fr) if fr is not None else c)
        raise Unsupported(f"const {c}")

    def str_const(self, st: State, s: str) -> V:
        return self.alloc(st, Str(bytes_lit(s.encode("utf-8"))), False)

    def eval_const_item(self, st: State, f: Function) -> V:
        Module.materialize(f)
        sub = State()
        sub.mem = st.mem  # share: const evaluation allocates temp cells only
        self._fid += 1
        fr = Frame(f, self._fid, 0, None, None, {}, True)
        sub.frames = [fr]
        outs = self.run_state(sub)
        if len(outs) != 1 or outs[0].kind != "return":
            raise Unsupported(f"const item {f.name} did not evaluate to a single value")
        return outs[0].value

    # ------------------------------------------------------------------ rvalues
    def eval_rvalue(self, st: State, fr: Frame, rv: mir.Rvalue, dest_ty: str) -> V:
        k = rv.kind
        if k == "use":
            return self.eval_operand(st, fr, rv.args[0])
        if k == "binop":
            op, a, b = rv.args
            return self.binop(op, self.eval_operand(st, fr, a), self.eval_operand(st, fr, b))
        if k == "unop":
            op, a = rv.args
            v = self.eval_operand(st, fr, a)
            if op == "Not":
                if isinstance(v, BoolV):
                    return BoolV(z3.Not(v.e))
                if isinstance(v, BV):
                    if z3.is_int(v.e):
                        return BV(z3.BV2Int(~z3.Int2BV(v.e, v.bits), v.signed), v.bits, v.signed)
                    return BV(~v.e, v.bits, v.signed)
            if op == "Neg" and isinstance(v, BV):
                if z3.is_int(v.e):
                    return BV(self.wrap_int(-v.e, v.bits, v.signed), v.bits, v.signed)
                return BV(-v.e, v.bits, v.signed)
            if op == "PtrMetadata":
                return self.len_of(st, v)
            raise Unsupported(f"unop {op} on {type(v).__name__}")
        if k == "discriminant":
            cell, proj = self.resolve(st, fr, rv.args[0])
            v = self.read(st, cell, proj)
            d = self.disc_of(v)
            it = self.int_ty(dest_ty)
            if it:
                return self.cast_int(d, *it)
            return d
        if k == "len":
            cell, proj = self.resolve(st, fr, rv.args[0])
            return self.len_of(st, Ref(cell, proj))
        if k == "ref":
            cell, proj = self.resolve(st, fr, rv.args[0])
            return Ref(cell, proj, rv.args[1])
        if k == "cast":
            op, ty, kind = rv.args
            v = self.eval_operand(st, fr, op)
            ty = self.subst_ty(ty, fr)
            if kind == "IntToInt":
                it = self.int_ty(ty)
                if not it:
                    raise Unsupported(f"IntToInt to {ty}")
                return self.cast_int(v, *it)
            if kind in ("Transmute", "PtrToPtr") or kind.startswith("PointerCoercion"):
                if isinstance(v, (Ref, FnRef, Closure)):
                    return v
                it = self.int_ty(ty)
                if it and isinstance(v, BV) and v.bits == it[0]:
                    return BV(v.e, *it)
                raise Unsupported(f"cast {kind} of {type(v).__name__} to {ty}")
            raise Unsupported(f"cast kind {kind}")
        if k == "tuple":
            return Tup(tuple(self.eval_operand(st, fr, o) for o in rv.args))
        if k == "array":
            return Arr(tuple(self.eval_operand(st, fr, o) for o in rv.args))
        if k == "repeat":
            v = self.eval_operand(st, fr, rv.args[0])
            n = rv.args[1]
            m = re.match(r"^(?:const )?(\d+)(?:_usize)?$", n)
            if not m:
                cv = self.eval_const(st, fr, n.replace("const ", ""))
                if isinstance(cv, BV) and is_concrete(z3.simplify(cv.e)):
                    cnt = z3.simplify(cv.e).as_long()
                else:
                    raise Unsupported(f"repeat count {n}")
            else:
                cnt = int(m.group(1))
            return Arr(tuple([v] * cnt))
        if k == "closure":
            name, caps = rv.args
            return Closure(name, tuple((n, self.eval_operand(st, fr, o)) for n, o in caps), tuple(sorted(fr.generics.items())))
        if k == "adt":
            return self.build_adt(st, fr, rv, dest_ty)
        raise Unsupported(f"rvalue {rv.text[:80]}")

    def build_adt(self, st: State, fr: Frame, rv: mir.Rvalue, dest_ty: str) -> V:
        path, fields, named = rv.args
        vals = [(n, self.eval_operand(st, fr, o)) for n, o in fields]
        p = strip_generics(path)
        segs = [s for s in p.split("::") if s]
        dest_head = _type_head(self.subst_ty(dest_ty, fr)) if dest_ty else None
        # enum variant or struct?
        ty_name, variant = None, None
        if dest_head and segs and segs[-1] != dest_head:
            d = self.decls.get(dest_head, dest_ty)
            if d is not None and d.kind == "enum" and any(v.name == segs[-1] for v in d.variants):
                ty_name, variant = dest_head, segs[-1]
        if ty_name is None:
            if len(segs) >= 2:
                d = self.decls.get(segs[-2], path)
                if d is not None and d.kind == "enum" and any(v.name == segs[-1] for v in d.variants):
                    ty_name, variant = segs[-2], segs[-1]
        if ty_name is None:
            ty_name = segs[-1]
        d = self.decls.get(ty_name, path if "::" in path else (dest_ty or path))
        if named:
            if d is None:
                raise Unsupported(f"no declaration for {ty_name} (named aggregate)")
            decl_fields = d.variant(variant).fields if variant else d.fields
            order = [fn for fn, _ in decl_fields]
            byname = dict(vals)
            try:
                ordered = tuple(byname[n] for n in order)
            except KeyError as e:
                raise Unsupported(f"field {e} of {ty_name} not in aggregate")
            return Adt(ty_name, variant, ordered)
        if ty_name in ("Box",):
            raise Unsupported("Box aggregate")
        if not vals and variant is None and d is None and dest_ty and self.int_ty(dest_ty) is None:
            # unit struct or unknown path
            return Adt(ty_name, None, ())
        return Adt(ty_name, variant, tuple(v for _, v in vals))

    def len_of(self, st: State, v: V) -> BV:
        if isinstance(v, Ref):
            t = self.read(st, v.cell, v.proj)
        else:
            t = v
        if isinstance(t, VecV):
            t = t.items
        if isinstance(t, Arr):
            return self.mk_int(len(t.elems), 64, False)
        if isinstance(t, SymSeq):
            return BV(t.length, 64, False)
        if isinstance(t, SymArr):
            return BV(t.length, 64, False)
        if isinstance(t, (Bytes, Str)):
            return BV(z3.Length(t.s), 64, False)  # int-flavoured usize (lengths are assumed < 2^63)
        raise Unsupported(f"len of {type(t).__name__}")

    # ------------------------------------------------------------------ running
    def start(self, fn: Function, args: List[V], st: Optional[State] = None, generics=None) -> State:
        Module.materialize(fn)
        st = st or State()
        self._fid += 1
        fr = Frame(fn, self._fid, 0, None, None, generics or {})
        st.frames.append(fr)
        if len(args) != len(fn.params):
            raise Unsupported(f"{fn.name}: {len(args)} args for {len(fn.params)} params")
        for (n, _ty), v in zip(fn.params, args):
            st.mem[("L", fr.fid, n)] = v
        self.encoded[fn.name] = fn.sha
        return st

    def run(self, fn: Function, args: List[V], st: Optional[State] = None, generics=None) -> List[Outcome]:
        try:
            st = self.start(fn, args, st, generics)
        except Unsupported as e:
            return [Outcome("undecided", None, st or State(), str(e))]
        return self.run_state(st)

    def run_state_nested(self, st0: State, depth: int) -> List[Outcome]:
        return self.run_state(st0)

    def run_state(self, st0: State) -> List[Outcome]:
        outs: List[Outcome] = []
        work = [st0]
        base_depth = len(st0.frames)
        while work:
            if len(outs) + len(work) > self.max_paths:
                outs.append(Outcome("undecided", None, work.pop(), "path budget"))
                break
            st = work.pop()
            try:
                self._run_path(st, work, outs, base_depth)
            except Unsupported as e:
                fr = st.frames[-1] if st.frames else None
                where = f" in {fr.fn.name.split('>::')[-1]} bb{fr.bb}" if fr else ""
                outs.append(Outcome("undecided", None, st, f"{e}{where}"))
            except Infeasible:
                pass
        return outs

    def _run_path(self, st: State, work: List[State], outs: List[Outcome], base_depth: int):
        while True:
            fr = st.frames[-1]
            st.steps += 1
            if st.steps > self.max_steps:
                outs.append(Outcome("undecided", None, st, "step budget"))
                return
            blk = fr.fn.blocks[fr.bb]
            for s in blk.stmts:
                self.exec_stmt(st, fr, s)
            t = blk.term
            k = t.kind
            if k == "goto":
                fr.bb = t.target
            elif k == "drop":
                fr.bb = t.target
            elif k == "switch":
                v = self.eval_operand(st, fr, t.op)
                if isinstance(v, BoolV):
                    sv = self.cast_int(v, 8, False)
                elif isinstance(v, (EnumSym, Adt)):
                    sv = self.disc_of(v)
                else:
                    sv = v
                if not isinstance(sv, BV):
                    raise Unsupported(f"switch on {type(v).__name__}")
                e = z3.simplify(sv.e)
                if is_concrete(e):
                    val = e.as_long()
                    if not z3.is_int(e) and sv.signed and val >= (1 << (sv.bits - 1)):
                        val -= 1 << sv.bits
                    tgt = None
                    for (tv, bb) in t.targets:
                        if tv is None:
                            if tgt is None:
                                tgt = bb
                        elif tv == val or (tv % (1 << sv.bits)) == (val % (1 << sv.bits)):
                            tgt = bb
                            break
                    fr.bb = tgt
                else:
                    conds = []
                    others = []
                    for (tv, bb) in t.targets:
                        if tv is None:
                            conds.append((z3.And(*others) if others else z3.BoolVal(True), bb))
                        else:
                            lit = z3.IntVal(tv) if z3.is_int(e) else z3.BitVecVal(tv, sv.bits)
                            conds.append((e == lit, bb))
                            others.append(e != lit)
                    feas = []
                    for c, bb in conds:
                        r = self.check(st.pc, c)
                        if r == "unknown":
                            raise Unsupported("solver unknown at switch")
                        if r == "sat":
                            feas.append((c, bb))
                    if not feas:
                        raise Infeasible("no feasible switch target")
                    for c, bb in feas[1:]:
                        s2 = st.clone()
                        s2.pc.append(c)
                        s2.frames[-1].bb = bb
                        work.append(s2)
                    st.pc.append(feas[0][0])
                    fr.bb = feas[0][1]
            elif k == "assert":
                v = self.eval_operand(st, fr, t.op)
                if not isinstance(v, BoolV):
                    raise Unsupported("assert on non-bool")
                ok = z3.Not(v.e) if t.negate else v.e
                ok = z3.simplify(ok)
                if z3.is_true(ok):
                    fr.bb = t.target
                else:
                    bad = z3.Not(ok)
                    rb = "unsat" if z3.is_true(ok) else self.check(st.pc, bad)
                    if rb == "unknown":
                        raise Unsupported("solver unknown at assert")
                    if rb == "sat":
                        s2 = st.clone()
                        s2.pc.append(bad)
                        outs.append(Outcome("panic", None, s2, _clean_msg(t.msg) + f" [{fr.fn.name.split('>::')[-1]}]"))
                    rg = self.check(st.pc, ok)
                    if rg == "unknown":
                        raise Unsupported("solver unknown at assert")
                    if rg == "unsat":
                        return
                    st.pc.append(ok)
                    fr.bb = t.target
            elif k == "call":
                if self.exec_call(st, fr, t, work, outs):
                    return
            elif k == "return":
                rv = st.mem.get(("L", fr.fid, 0), UNIT)
                st.frames.pop()
                # free locals
                if not fr.keep and not _refs_frame(rv, fr.fid):
                    for key in [c for c in st.mem if c[0] == "L" and c[1] == fr.fid]:
                        del st.mem[key]
                if len(st.frames) < base_depth or fr.dest is None and fr.ret_bb is None:
                    outs.append(Outcome("return", rv, st))
                    return
                self.write(st, fr.dest[0], fr.dest[1], rv)
                st.frames[-1].bb = fr.ret_bb
            elif k == "unreachable":
                outs.append(Outcome("undecided", None, st, f"reached `unreachable` in {fr.fn.name} bb{fr.bb}"))
                return
            elif k == "resume":
                return
            else:
                raise Unsupported(f"terminator {t.text[:80]}")

    def exec_stmt(self, st: State, fr: Frame, s: mir.Stmt):
        if s.kind == "nop":
            return
        if s.kind == "assign":
            if s.rv.kind == "raw":
                raise Unsupported(f"rvalue {s.text[:100]}")
            dest_ty = self.place_ty(fr, s.place)
            v = self.eval_rvalue(st, fr, s.rv, dest_ty)
            cell, proj = self.resolve(st, fr, s.place)
            self.write(st, cell, proj, v)
            return
        if s.kind == "setdisc":
            cell, proj = self.resolve(st, fr, s.place)
            v = self.read(st, cell, proj) if cell in st.mem else UNINIT
            ty = self.place_ty(fr, s.place)
            d = self.decl_of(self.subst_ty(ty, fr))
            if d is None:
                raise Unsupported(f"set discriminant on {ty}")
            var = d.variant_by_disc(s.extra)
            fields = v.fields if isinstance(v, Adt) and v.variant == var.name else ()
            self.write(st, cell, proj, Adt(d.name, var.name, fields))
            return
        if s.kind == "assume":
            v = self.eval_operand(st, fr, s.extra)
            if isinstance(v, BoolV):
                st.pc.append(v.e)
            return
        raise Unsupported(f"statement {s.text[:100]}")

    def place_ty(self, fr: Frame, place: Place) -> str:
        ty = fr.fn.locals.get(place.local, "")
        for el in place.proj:
            if el[0] == "field":
                ty = el[2]
            elif el[0] == "deref":
                ty = re.sub(r"^(&(?:'\w+ )?(?:mut )?|\*const |\*mut )", "", ty)
            elif el[0] in ("index", "cindex"):
                m = re.match(r"^\[(.*?)(; .*)?\]$", ty)
                ty = m.group(1) if m else ""
        return ty

    # ------------------------------------------------------------------ calls
    def exec_call(self, st: State, fr: Frame, t: mir.Term, work, outs) -> bool:
        """Returns True if the path ended (diverging call)."""
        args = [self.eval_operand(st, fr, a) for a in t.args]
        if t.callee_op is not None:
            fv = self.eval_operand(st, fr, t.callee_op)
            if isinstance(fv, FnRef):
                callee_s = fv.name
            elif isinstance(fv, Closure):
                res = self.summ.Forked(self.summ.call_closure(self, st, fv, args))
                return self.finish_call(st, fr, res, t.dest, t.target, work, outs, parse_callee("closure"))
            else:
                raise Unsupported(f"indirect call through {type(fv).__name__}")
        else:
            callee_s = t.callee
        callee_s = self.subst_ty(callee_s, fr)
        dest_ty = self.subst_ty(self.place_ty(fr, t.dest), fr)
        return self.do_call(st, fr, callee_s, args, t.dest, t.target, dest_ty, work, outs)

    def do_call(self, st, fr, callee_s, args, dest_place, ret_bb, dest_ty, work, outs) -> bool:
        c = parse_callee(callee_s)
        # 1. obligation-specific stubs
        handler = self.stubs.get(c.key)
        if handler is None:
            # 2. project function from MIR (the real code always wins over a library summary)
            fn = self.resolve_fn(c, args)
            if fn is not None:
                self.push_frame(st, fr, fn, c, args, dest_place, ret_bb)
                return False
            handler = self.summ.lookup(c)
        if handler is None:
            raise Unsupported(f"no summary or MIR for callee `{c.key}` ({callee_s[:120]})")
        self.summaries_used[c.key] = self.summaries_used.get(c.key, 0) + 1
        res = handler(self, st, c, args, dest_ty)
        return self.finish_call(st, fr, res, dest_place, ret_bb, work, outs, c)

    def push_frame(self, st, fr, fn, c, args, dest_place, ret_bb):
        if len(st.frames) > 80:
            raise Unsupported("call depth")
        Module.materialize(fn)
        self._fid += 1
        dcell, dproj = self.resolve(st, fr, dest_place)
        nf = Frame(fn, self._fid, 0, (dcell, dproj), ret_bb, self.infer_generics(fn, c, fr))
        st.frames.append(nf)
        if len(args) != len(fn.params):
            if len(fn.params) >= 1 and len(args) == 2 and isinstance(args[1], Tup) and len(args[1].fields) + 1 == len(fn.params):
                args = [args[0]] + list(args[1].fields)
            else:
                raise Unsupported(f"arity mismatch calling {fn.name}")
        for (n, _ty), v in zip(fn.params, args):
            st.mem[("L", nf.fid, n)] = v
        self.encoded[fn.name] = fn.sha

    def infer_generics(self, fn: Function, c: Callee, fr: Frame) -> Dict[str, str]:
        g = {}
        if fr is not None and fr.generics and ("{closure" in fn.name or fn.impl_generics == [] and fn.self_ty is None and "::<" not in c.raw):
            # closures (and non-generic helpers) live in their parent's generic context
            g.update(fr.generics)
        if fn.self_ty and c.qself is None and fn.impl_generics and c.targs:
            # inherent method called as Type::<Args>::method
            st_tree = mir.type_tree(fn.self_ty)
            k = len(st_tree[1])
            if k and len(c.targs) >= k:
                b = {}
                mir.unify_ty(st_tree, (st_tree[0], [mir.type_tree(a) for a in c.targs[:k]]), fn.impl_generics, b)
                for kk, v in b.items():
                    g[kk] = mir.tree_str(v)
        if fn.self_ty and c.qself and fn.impl_generics:
            b = {}
            mir.unify_ty(mir.type_tree(fn.self_ty), mir.type_tree(c.qself), fn.impl_generics, b)
            if fn.trait and c.trait:
                mir.unify_ty(mir.type_tree(fn.trait), mir.type_tree(c.trait), fn.impl_generics, b)
            for k, v in b.items():
                g[k] = mir.tree_str(v)
        return g

    _EXTERN = ("std::", "core::", "alloc::", "num_bigint::", "num_integer::", "num_traits::", "hashbrown::")

    def resolve_fn(self, c: Callee, args) -> Optional[Function]:
        n = len(args)
        if c.qself is None and c.raw.startswith(self._EXTERN):
            return None
        if c.qself is not None and c.trait is None and c.qself.startswith(self._EXTERN) and False:
            return None
        for mod in self.modules:
            cands: List[Function] = []
            if c.qself is not None and c.trait is not None:
                cands = []
                for f in mod.find(c.qself, c.method, c.trait):
                    b = {}
                    if mir.unify_ty(mir.type_tree(f.self_ty), mir.type_tree(c.qself), f.impl_generics, b) and \
                            mir.unify_ty(mir.type_tree(f.trait), mir.type_tree(c.trait), f.impl_generics, b):
                        cands.append(f)
            elif c.qself is not None:
                cands = mod.find(c.qself, c.method)
                cands = [f for f in cands if f.trait is None] or cands
            else:
                if "{closure" in c.raw:
                    f = mod.functions.get(c.raw)
                    if f:
                        return f
                if len(c.segs) >= 2:
                    cands = [f for f in mod.find(c.segs[-2], c.method) if f.trait is None]
                    if not cands:
                        # trait method called by path: Trait::method(self, ..) -> use self arg type? skip
                        pass
                if not cands:
                    cands = mod.find_free("::".join(c.segs))
            cands2 = [f for f in cands if len(f.params) == n]
            if len(cands2) == 1:
                return cands2[0]
            if len(cands2) > 1:
                # inherent impls on different instantiations (impl Foo<A> { fn m } / impl Foo<B> { fn m }): select by the
                # instantiation written in the callee path `Foo::<A>::m`
                mt = re.match(r"^(.*)::<(.*)>::" + re.escape(c.method) + r"$", c.raw) if c.qself is None else None
                if mt:
                    want = mir.type_tree(f"{mt.group(1)}<{mt.group(2)}>")
                    cands3 = [f for f in cands2 if f.self_ty and mir.unify_ty(mir.type_tree(f.self_ty), want, f.impl_generics, {})]
                    if len(cands3) == 1:
                        return cands3[0]
                raise Unsupported(f"ambiguous callee {c.raw}: {[f.name for f in cands2][:4]}")
        return None

    def finish_call(self, st, fr, res, dest_place, ret_bb, work, outs, c) -> bool:
        """`res` is a value, a list of (cond|None, value|Panic) cases, a CallProject or Forked."""
        S = self.summ
        if isinstance(res, S.CallProject):
            cases = S.call_sync(self, st, res.callee, res.args)
            res = S.Forked([(s2, v if isinstance(v, Panic) else res.post(v)) for s2, v in cases])
        if isinstance(res, S.Forked):
            cont = []
            for s2, val in res.cases:
                if self._apply_ret(s2, s2.frames[-1], val, dest_place, ret_bb, outs):
                    cont.append(s2)
            if not cont:
                return True
            for s2 in cont[1:]:
                work.append(s2)
            st.assign(cont[0])
            return False
        if not isinstance(res, list):
            res = [(None, res)]
        live = []
        for cond, val in res:
            if cond is not None:
                cond = z3.simplify(cond)
                if z3.is_false(cond):
                    continue
                if not z3.is_true(cond):
                    r = self.check(st.pc, cond)
                    if r == "unknown":
                        raise Unsupported(f"solver unknown in summary {c.key}")
                    if r == "unsat":
                        continue
                else:
                    cond = None
            live.append((cond, val))
        if not live:
            raise Infeasible("no feasible summary case")
        for cond, val in live[1:]:
            s2 = st.clone()
            if cond is not None:
                s2.pc.append(cond)
            if self._apply_ret(s2, s2.frames[-1], val, dest_place, ret_bb, outs):
                work.append(s2)
        cond, val = live[0]
        if cond is not None:
            st.pc.append(cond)
        return not self._apply_ret(st, fr, val, dest_place, ret_bb, outs)

    def _apply_ret(self, st, fr, val, dest_place, ret_bb, outs) -> bool:
        """Write result and advance; returns False if the path ended here."""
        if isinstance(val, Panic):
            outs.append(Outcome("panic", None, st, val.msg))
            return False
        if isinstance(val, Diverge):
            return False
        if isinstance(val, Effect):
            val = val.fn(st)
        cell, proj = self.resolve(st, fr, dest_place)
        self.write(st, cell, proj, val)
        if ret_bb is None:
            return False
        fr.bb = ret_bb
        return True


_WRAPPERS = ("std::mem::ManuallyDrop<", "std::mem::MaybeDangling<", "core::mem::ManuallyDrop<", "ManuallyDrop<", "MaybeDangling<",
             "std::mem::MaybeUninit<", "MaybeUninit<")


@dataclass
class Panic:
    msg: str


@dataclass
class Diverge:
    pass


@dataclass
class Effect:
    """A summary result that needs to mutate the (possibly forked) state: fn(state) -> return value."""
    fn: Callable


def _refs_frame(v, fid, depth=0) -> bool:
    """does value v contain a reference into the locals of frame fid?  (values are immutable, so a `&self.field`
    computed from a by-value copy of an argument points into the callee's locals; those cells must then outlive the frame)"""
    if depth > 12:
        return True
    if isinstance(v, Ref):
        c = v.cell
        return isinstance(c, tuple) and len(c) == 3 and c[0] == "L" and c[1] == fid
    if isinstance(v, (list, tuple)):
        return any(_refs_frame(x, fid, depth + 1) for x in v)
    if isinstance(v, V):
        d = getattr(v, "__dict__", None)
        if d:
            return any(_refs_frame(x, fid, depth + 1) for x in d.values() if isinstance(x, (V, list, tuple)))
    return False


def _norm_ty(t: str) -> str:
    t = re.sub(r"'\w+\s*,?\s*", "", t)
    t = re.sub(r"\b(\w+::)+", "", t)
    return t.replace(" ", "")


def _absdiv(x, y):
    ax = z3.If(x >= 0, x, -x)
    ay = z3.If(y >= 0, y, -y)
    return ax / ay  # z3 Int division is floor for positive operands


def _clean_msg(m: str) -> str:
    return m.strip().strip('"')


def _unescape(s: str) -> str:
    out = []
    i = 0
    while i < len(s):
        c = s[i]
        if c == "\\" and i + 1 < len(s):
            n = s[i + 1]
            if n == "n":
                out.append("\n"); i += 2
            elif n == "t":
                out.append("\t"); i += 2
            elif n == "r":
                out.append("\r"); i += 2
            elif n == "0":
                out.append("\0"); i += 2
            elif n == "x":
                out.append(chr(int(s[i + 2 : i + 4], 16))); i += 4
            elif n == "u":
                e = s.index("}", i)
                out.append(chr(int(s[i + 3 : e], 16))); i = e + 1
            else:
                out.append(n); i += 2
        else:
            out.append(c)
            i += 1
    return "".join(out)


def bytes_lit(bs: bytes):
    if len(bs) == 0:
        return z3.Empty(ByteSeq)
    units = [z3.Unit(z3.BitVecVal(b, 8)) for b in bs]
    return z3.Concat(*units) if len(units) > 1 else units[0]
