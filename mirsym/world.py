"""Loads the MIR of the crates under study from /repo's *current* sources and offers builders for
the project's data types (field order is read from the current declarations)."""
from __future__ import annotations

import fcntl
import glob
import hashlib
import os
import time
from typing import Dict, List, Optional

import z3

from vlib.common import CACHE, REPO, log, run

from . import mir, rustsrc
from .exec import Executor, Unsupported
from .values import *  # noqa

NIGHTLY = os.environ.get("VERIF_NIGHTLY", "nightly")


def _hash_tree(paths: List[str]) -> str:
    h = hashlib.sha256()
    for root in paths:
        if os.path.isfile(root):
            h.update(root.encode())
            h.update(open(root, "rb").read())
            continue
        for dp, dn, fns in sorted(os.walk(root)):
            dn.sort()
            for fn in sorted(fns):
                if fn.endswith((".rs", ".toml", ".lock")):
                    p = os.path.join(dp, fn)
                    h.update(p.encode())
                    h.update(open(p, "rb").read())
    return h.hexdigest()[:20]


def dump_mir(crate: str, repo_crate_dir: Optional[str]) -> str:
    """Dump the MIR of `crate` built from the current /repo sources; returns the path of the dump.

    The dump is keyed by the SHA-256 of every source file that can influence it, so it is regenerated
    whenever anything under the crate (or Cargo.lock) changed and never reused across source states."""
    os.makedirs(CACHE, exist_ok=True)
    if repo_crate_dir:
        key = _hash_tree([os.path.join(REPO, repo_crate_dir, "src"), os.path.join(REPO, repo_crate_dir, "Cargo.toml"), os.path.join(REPO, "Cargo.lock")])
    else:
        key = _hash_tree([os.path.join(REPO, "Cargo.lock")])
    out = os.path.join(CACHE, f"mir-{crate}-{key}.mir")
    lock = open(os.path.join(CACHE, f"mir-{crate}.lock"), "w")
    fcntl.flock(lock, fcntl.LOCK_EX)
    try:
        if os.path.exists(out) and os.path.getsize(out) > 1000:
            return out
        t = time.time()
        nonce = f'verif_nonce="{key}{int(time.time())}"'
        cmd = ["cargo", f"+{NIGHTLY}", "rustc", "--offline", "--lib", "--target-dir", os.path.join(CACHE, "mir-target")]
        if not repo_crate_dir:
            cmd += ["-p", crate]
        cmd += ["--", "-Zunpretty=mir", "-C", "debug-assertions=off", "-C", "overflow-checks=on", "--cfg", nonce, "-A", "unexpected_cfgs"]
        cwd = os.path.join(REPO, repo_crate_dir) if repo_crate_dir else REPO
        p = run(cmd, cwd=cwd, timeout=1800)
        if len(p.stdout) < 1000:
            raise RuntimeError(f"empty MIR dump for {crate}: {p.stderr[-2000:]}")
        for old in glob.glob(os.path.join(CACHE, f"mir-{crate}-*.mir")):
            os.unlink(old)
        with open(out + ".tmp", "w") as f:
            f.write(p.stdout)
        os.rename(out + ".tmp", out)
        log(f"[mirsym] MIR of {crate} dumped in {time.time() - t:.1f}s ({len(p.stdout) >> 10} KiB)")
        return out
    finally:
        fcntl.flock(lock, fcntl.LOCK_UN)
        lock.close()


def _registry_src(crate_prefix: str) -> Optional[str]:
    for base in glob.glob(os.path.expanduser("~/.cargo/registry/src/*")):
        c = sorted(glob.glob(os.path.join(base, crate_prefix + "-[0-9]*")))
        if c:
            return c[-1]
    return None


class World:
    def __init__(self, crates=("uplc",), deps=(), decl_crates=("pallas-primitives", "pallas-codec")):
        self.modules: Dict[str, mir.Module] = {}
        self.decls = rustsrc.Decls()
        crate_dirs = {"uplc": "crates/uplc", "aiken-lang": "crates/aiken-lang", "aiken-project": "crates/aiken-project"}
        for c in crates:
            path = dump_mir(c, crate_dirs[c])
            self.modules[c] = mir.load(path, REPO, crate_dirs[c])
            self.decls.scan_dir(os.path.join(REPO, crate_dirs[c], "src"))
        for d in deps:
            path = dump_mir(d, None)
            src = _registry_src(d) or ""
            self.modules[d] = mir.load(path, src, "")
            if src:
                self.decls.scan_dir(os.path.join(src, "src"))
        for dc in decl_crates:
            src = _registry_src(dc)
            if src and dc not in deps:
                self.decls.scan_dir(os.path.join(src, "src"))
        self.decls.add_builtin()
        self.main = self.modules[crates[0]]

    def executor(self, **kw) -> Executor:
        mods = list(self.modules.values())
        ex = Executor(mods[0], self.decls, extra_modules=mods[1:], **kw)
        ex.world = self
        return ex

    def fn(self, self_ty: Optional[str], method: str, trait: Optional[str] = None, nargs: Optional[int] = None, module: Optional[str] = None) -> mir.Function:
        mods = [self.modules[module]] if module else list(self.modules.values())
        for m in mods:
            if self_ty is None:
                c = m.find_free(method, nargs)
            else:
                c = m.find(self_ty, method, trait, nargs)
                if trait is None:
                    c = [f for f in c if f.trait is None] or c
                elif "<" in trait:
                    c = [f for f in c if f.trait and mir._norm_ws(f.trait) == mir._norm_ws(trait)] or c
            if len(c) == 1:
                return c[0]
            if len(c) > 1:
                raise Unsupported(f"ambiguous function {self_ty}::{method}: {[f.name for f in c]}")
        raise Unsupported(f"function {self_ty}::{method} not found in MIR (renamed or removed?)")

    # ------------------------------------------------------------------ builders
    def adt(self, ty: str, variant: Optional[str] = None, *pos, **named) -> Adt:
        d = self.decls.get(ty)
        if d is None:
            raise Unsupported(f"no declaration of {ty} in the current sources")
        if variant is not None:
            if d.kind != "enum" or not any(v.name == variant for v in d.variants):
                raise Unsupported(f"{ty}::{variant} not declared in the current sources")
            fields = d.variant(variant).fields
        else:
            fields = d.fields
        if named:
            order = [n for n, _ in fields]
            missing = [n for n in order if n not in named]
            if missing or len(order) != len(named):
                raise Unsupported(f"fields of {ty}::{variant}: declared {order}, given {sorted(named)}")
            return Adt(ty, variant, tuple(named[n] for n in order))
        if len(pos) != len(fields):
            raise Unsupported(f"arity of {ty}::{variant}: declared {len(fields)}, given {len(pos)}")
        return Adt(ty, variant, tuple(pos))

    def field_index(self, ty: str, variant: Optional[str], name: str) -> int:
        d = self.decls.get(ty)
        fields = d.variant(variant).fields if variant else d.fields
        for i, (n, _) in enumerate(fields):
            if n == name:
                return i
        raise Unsupported(f"field {name} of {ty} not declared")

    def get(self, v: Adt, name: str) -> V:
        return v.fields[self.field_index(v.ty, v.variant, name)]

    def variants(self, ty: str) -> List[rustsrc.Variant]:
        d = self.decls.get(ty)
        if d is None or d.kind != "enum":
            raise Unsupported(f"no enum {ty}")
        return d.variants

    # uplc value builders ---------------------------------------------------------------------
    def rc(self, v):
        return BoxV(v, "Rc")

    def con(self, c: V) -> Adt:
        return self.adt("Value", "Con", self.rc(c))

    def c_int(self, e) -> Adt:
        return self.adt("Constant", "Integer", BigI(e))

    def c_bytes(self, s) -> Adt:
        return self.adt("Constant", "ByteString", VecV(Bytes(s)))

    def c_bool(self, b) -> Adt:
        return self.adt("Constant", "Bool", BoolV(b))

    def c_unit(self) -> Adt:
        return self.adt("Constant", "Unit")


def sym_struct(world: World, ex: Executor, st, ty: str, prefix: str, leaves: dict, variant_of=None):
    """Build a fully symbolic value of a (non-recursive) struct type made of machine integers and
    nested structs/Box/enums.  `leaves` receives name -> z3 expr for every integer leaf.
    `variant_of(enum_name, path)` chooses the variant for nested enums."""
    ty = ty.strip()
    it = INT_TYPES.get(ty)
    if it:
        v = ex.sym_int(prefix, it[0], it[1], st)
        leaves[prefix] = v.e
        return v
    if ty == "bool":
        b = z3.Bool(prefix)
        leaves[prefix] = b
        return BoolV(b)
    import re as _re
    m = _re.match(r"^(?:std::boxed::)?Box<(.*)>$", ty)
    if m:
        return BoxV(sym_struct(world, ex, st, m.group(1), prefix, leaves, variant_of))
    head = mir._head(ty)
    d = world.decls.get(head)
    if d is None:
        raise Unsupported(f"no declaration for {ty}")
    # generic instantiation: Head<A, B> with declared parameters
    sub = {}
    mg = _re.match(r"^[\w:]+<(.*)>$", ty)
    if mg and d.generics:
        for g, a in zip(d.generics, mir.split_top(mg.group(1))):
            sub[g] = a.strip()

    def inst(t):
        for g, a in sub.items():
            t = _re.sub(rf"\b{g}\b", a, t)
        return t
    if d.kind == "struct":
        fs = []
        for i, (fname, fty) in enumerate(d.fields):
            fs.append(sym_struct(world, ex, st, inst(fty), f"{prefix}.{fname or i}", leaves, variant_of))
        return Adt(head, None, tuple(fs))
    if variant_of is None:
        raise Unsupported(f"enum {head} needs a variant choice")
    vn = variant_of(head, prefix)
    var = d.variant(vn)
    fs = []
    for i, (fname, fty) in enumerate(var.fields):
        fs.append(sym_struct(world, ex, st, inst(fty), f"{prefix}.{fname or i}", leaves, variant_of))
    leaves[prefix + ".$variant"] = vn
    return Adt(head, vn, tuple(fs))
