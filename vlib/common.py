"""Shared plumbing of the checks: context, evidence files, known findings, verdict protocol."""
from __future__ import annotations

import hashlib
import json
import os
import subprocess
import sys
import time
from dataclasses import dataclass, field
from typing import Any, Dict, List, Optional

VERIF = os.path.dirname(os.path.dirname(os.path.abspath(__file__)))
REPO = os.environ.get("VERIF_REPO", "/repo")
CACHE = os.path.join(VERIF, ".cache")
EVID = os.path.join(VERIF, "evidence")
REPLAYS = os.path.join(VERIF, "replays")


def log(*a):
    print(*a, file=sys.stderr, flush=True)


@dataclass
class Obligation:
    """One solver-decided statement.  status: 'discharged' | 'violated' | 'undecided'."""
    name: str
    status: str
    detail: str = ""
    queries: int = 0
    solver_s: float = 0.0
    model: Optional[dict] = None  # concrete counterexample (when violated)
    finding_key: Optional[str] = None  # stable key used by known_findings.json
    witness: Optional[bool] = None  # reachability witness satisfied?


@dataclass
class Result:
    prop: str
    tier: str
    seed: int
    level: str
    obligations: List[Obligation] = field(default_factory=list)
    functions: Dict[str, str] = field(default_factory=dict)
    bounds: Dict[str, Any] = field(default_factory=dict)
    assumptions: List[str] = field(default_factory=list)
    samples: List[Any] = field(default_factory=list)
    extra: Dict[str, Any] = field(default_factory=dict)
    violations: List[dict] = field(default_factory=list)  # confirmed (replayed) violations
    known: List[str] = field(default_factory=list)
    mismatches: List[str] = field(default_factory=list)
    t0: float = field(default_factory=time.time)

    def add(self, ob: Obligation):
        self.obligations.append(ob)
        return ob


class KnownFindings:
    def __init__(self, path=os.path.join(VERIF, "known_findings.json")):
        self.entries = []
        if os.path.exists(path):
            self.entries = json.load(open(path)).get("findings", [])

    def lookup(self, prop: str, key: str) -> Optional[dict]:
        for e in self.entries:
            if e.get("property") == prop and e.get("key") == key and e.get("status", "open") == "open":
                return e
        return None


def write_replay(prop: str, payload: dict) -> str:
    os.makedirs(REPLAYS, exist_ok=True)
    body = json.dumps(payload, sort_keys=True, indent=1, default=str)
    h = hashlib.sha256(body.encode()).hexdigest()[:12]
    p = os.path.join(REPLAYS, f"{prop}-{h}.json")
    with open(p, "w") as f:
        f.write(body)
    return p


def finish(res: Result) -> int:
    """Write the evidence file, print verdict lines, return the exit code."""
    os.makedirs(EVID, exist_ok=True)
    obs = res.obligations
    n = len(obs)
    discharged = sum(1 for o in obs if o.status == "discharged")
    undecided = [o for o in obs if o.status == "undecided"]
    violated = [o for o in obs if o.status == "violated"]
    queries = sum(o.queries for o in obs)
    solver_s = round(sum(o.solver_s for o in obs), 3)
    cov: Dict[str, Any] = {
        "obligations": n,
        "discharged": discharged,
        "undecided": len(undecided),
        "violated": len(violated),
        "undecided_reasons": sorted({f"{o.name}: {o.detail}"[:300] for o in undecided})[:80],
        "evaluations": max(n, 1),
        "distinct_nontrivial": max(len({o.name for o in obs if o.queries > 0 or o.status != 'undecided'}), 0),
        "rule": "one evaluation = one solver-decided obligation (an SMT query family over all values of the symbolic inputs "
                "within the stated bounds); distinct = distinct obligation names that issued at least one solver query",
        "samples": res.samples[:12] if res.samples else [{"obligation": o.name, "status": o.status, "detail": o.detail[:200]} for o in obs[:8]],
        "functions_encoded": res.functions,
        "bounds": res.bounds,
        "solver_queries": queries,
        "solver_seconds": solver_s,
        "known_findings_hit": sorted(set(res.known)),
        "violation_keys": sorted({(o.finding_key or o.name) for o in obs if o.status == "violated"}),
        "encoder_mismatches": res.mismatches,
        "explanation": res.extra.get("explanation", ""),
        "checker_cmd": f"./check {res.prop} --tier {res.tier}",
        "trusted_base": res.extra.get("trusted_base", []),
    }
    for k, v in res.extra.items():
        if k not in cov:
            cov[k] = v
    ev = {
        "property_id": res.prop,
        "tier": res.tier,
        "seed": res.seed,
        "level": res.level,
        "coverage": cov,
        "assumptions": res.assumptions,
        "wall_s": round(time.time() - res.t0, 2),
        "violations": len(res.violations),
    }
    with open(os.path.join(EVID, f"{res.prop}.json"), "w") as f:
        json.dump(ev, f, indent=1, default=str)
    for k in sorted(set(res.known)):
        print(f"KNOWN-FINDING: property={res.prop} {k}")
    for m in res.mismatches:
        print(f"ENCODER-MISMATCH property={res.prop} {m}")
    for v in res.violations:
        print(f"VIOLATION property={res.prop} replay={v['replay']}")
        if v.get("what"):
            print(f"  what: {v['what']}")
    print(f"[{res.prop}] tier={res.tier} obligations={n} discharged={discharged} undecided={len(undecided)} "
          f"violations={len(res.violations)} known={len(res.known)} queries={queries} solver_s={solver_s} wall_s={ev['wall_s']}")
    if res.violations:
        return 1
    if n > 0 and discharged == 0 and not res.known:
        print(f"[{res.prop}] nothing could be decided")
        return 2
    return 0


def run(cmd, cwd=None, env=None, timeout=None, check=True, quiet=True):
    e = dict(os.environ)
    e.setdefault("CARGO_NET_OFFLINE", "true")
    if env:
        e.update(env)
    p = subprocess.run(cmd, cwd=cwd, env=e, stdout=subprocess.PIPE, stderr=subprocess.PIPE, text=True, timeout=timeout)
    if check and p.returncode != 0:
        raise RuntimeError(f"command failed ({p.returncode}): {cmd}\n{p.stderr[-3000:]}")
    return p
