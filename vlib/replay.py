"""`./check <id> --replay <path>`: re-decide, on /repo's CURRENT tree, the obligation a replay file was written for.

A replay file records the property, the obligation name, the finding key and the concrete counterexample.  Replaying
re-runs the quick tier of the check restricted to the obligation's family (so the encoding is regenerated from the current
sources and the counterexample search is repeated) and reports whether a violation with the SAME finding key is found again:
exit 1 + `VIOLATION ...` if it reproduces, exit 0 (`not reproduced`) if it does not.  The evidence file is left alone."""
from __future__ import annotations

import importlib
import json
import re


def family_filter(prop: str, ob: str):
    """--only filter that selects the family / module / builtin the obligation belongs to (None = whole check)"""
    p = prop.upper()
    if p == "C01":
        m = re.match(r"^gen/(\w+):", ob)
        if m:
            return m.group(1)
        return "when" if ob.startswith("when/") else None
    if p in ("C02", "C06", "C14"):
        m = re.match(r"^([\w]+/[\w.-]+):", ob)
        return m.group(1).split("/", 1)[1] if m else None
    if p == "C04":
        m = re.match(r"^builtin/(\w+)\[", ob)
        return m.group(1) if m else None
    if p == "C05":
        return ob.split("/", 1)[0]
    if p == "C07":
        return {"rnd": "random", "fixed": "fixed", "enum": "enum"}.get(ob.split("/", 1)[0])
    if p == "C10":
        m = re.match(r"^(?:nopanic/)?(\w+)/", ob)
        return m.group(1) if m else None
    if p == "C12":
        m = re.match(r"^type/(.*)/(accepts|inhabits)$", ob)
        return m.group(1) if m else None
    if p == "C15":
        return {"names": "builtin", "types": "types", "data": "data"}.get(ob.split("/", 1)[0])
    if p in ("C18", "C20"):
        return ob.split("/", 1)[0]
    return None


def replay(prop: str, path: str) -> int:
    rec = json.load(open(path))
    prop = (rec.get("property") or prop).upper()
    ob, key = rec.get("obligation", ""), rec.get("finding_key")
    mod = importlib.import_module(f"props.{prop.lower()}")
    only = family_filter(prop, ob)
    print(f"[{prop}] replaying {ob!r} (finding key {key!r}) on the current tree" + (f", family {only!r}" if only else ""))
    tier = "thorough" if (prop == "C07" and only == "enum") else "quick"
    res = mod.run(tier, int(rec.get("seed", 1) or 1), only=only)
    hit = [v for v in res.violations]
    same = []
    for o in res.obligations:
        if o.status in ("violated", "known") and (o.finding_key or o.name) == key:
            same.append(o)
    for o in same:
        print(f"VIOLATION property={prop} replay={path}")
        print(f"  what: {o.name}: {o.detail[:300]}")
        return 1
    if hit:
        print(f"[{prop}] the recorded finding does not reproduce; {len(hit)} other violation(s) in the same family:")
        for v in hit[:5]:
            print(f"  {v.get('what', '')[:200]}")
        return 0
    print(f"[{prop}] not reproduced on the current tree")
    return 0
