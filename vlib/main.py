"""Entry point: ./check <id> --tier quick|thorough [--replay file]"""
import argparse
import importlib
import os
import sys
import traceback

HERE = os.path.dirname(os.path.dirname(os.path.abspath(__file__)))
sys.path.insert(0, HERE)

from vlib import common  # noqa: E402


def main():
    ap = argparse.ArgumentParser()
    ap.add_argument("prop")
    ap.add_argument("--tier", default=os.environ.get("VERIF_TIER", "quick"), choices=["quick", "thorough"])
    ap.add_argument("--replay", default=None)
    ap.add_argument("--only", default=None, help="run only obligation families whose name contains this")
    a = ap.parse_args()
    os.environ["VERIF_TIER"] = a.tier  # the command line wins; helpers read the tier from the environment
    seed = int(os.environ.get("VERIF_SEED", "1"))
    pid = a.prop.upper()
    try:
        mod = importlib.import_module(f"props.{pid.lower()}")
    except ModuleNotFoundError:
        print(f"no check for {pid}")
        return 2
    if a.replay:
        from vlib import replay as R
        try:
            return R.replay(pid, a.replay)
        except Exception:
            traceback.print_exc()
            print(f"[{pid}] internal error while replaying (not a verdict)")
            return 2
    try:
        res = mod.run(a.tier, seed, only=a.only)
    except Exception:
        traceback.print_exc()
        print(f"[{pid}] internal error in the checking machinery (not a verdict)")
        return 2
    return common.finish(res)


if __name__ == "__main__":
    sys.exit(main())
