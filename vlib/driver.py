"""Client for the native replay/compile drivers (Rust, /verif/driver).  The binaries are rebuilt from
/repo's current working tree (cargo incremental build) before first use in every check run."""
from __future__ import annotations

import fcntl
import json
import os
import select
import subprocess
import threading
import time
from typing import Optional

from .common import CACHE, VERIF, log, run

TARGET = os.path.join(CACHE, "driver-target")
_built = set()


def build(pkg: str):
    if pkg in _built:
        return
    os.makedirs(CACHE, exist_ok=True)
    lock = open(os.path.join(CACHE, "driver-build.lock"), "w")
    fcntl.flock(lock, fcntl.LOCK_EX)
    try:
        t = time.time()
        # always the whole workspace in ONE invocation: cargo unifies features across the packages it builds together
        # (aiken-project turns on serde_json/preserve_order), so building single packages alternately would recompile
        # the shared dependencies every time
        run(["cargo", "build", "--offline", "-j", "14", "--workspace", "--target-dir", TARGET], cwd=os.path.join(VERIF, "driver"), timeout=7200)
        dt = time.time() - t
        if dt > 5:
            log(f"[driver] built the driver workspace in {dt:.0f}s")
    finally:
        fcntl.flock(lock, fcntl.LOCK_UN)
        lock.close()
    _built.update(("drv-uplc", "drv-lang", "drv-project"))


class DriverError(Exception):
    pass


class Driver:
    def __init__(self, pkg: str):
        self.pkg = pkg
        build(pkg)
        self.proc: Optional[subprocess.Popen] = None
        self.n = 0
        self.lock = threading.Lock()

    def _start(self):
        exe = os.path.join(TARGET, "debug", self.pkg)
        self.proc = subprocess.Popen([exe], stdin=subprocess.PIPE, stdout=subprocess.PIPE, stderr=subprocess.DEVNULL, bufsize=0)
        self.buf = b""

    def call(self, op: str, timeout: float = 60.0, **kw) -> dict:
        with self.lock:
            if self.proc is None or self.proc.poll() is not None:
                self._start()
            self.n += 1
            req = dict(kw)
            req["op"] = op
            req["id"] = self.n
            try:
                self.proc.stdin.write((json.dumps(req) + "\n").encode())
                self.proc.stdin.flush()
            except (BrokenPipeError, OSError):
                self.proc = None
                return {"died": "broken pipe"}
            deadline = time.time() + timeout
            while True:
                nl = self.buf.find(b"\n")
                if nl != -1:
                    line, self.buf = self.buf[:nl], self.buf[nl + 1:]
                    try:
                        r = json.loads(line)
                    except json.JSONDecodeError:
                        continue
                    if r.get("id") == self.n or "id" not in r:
                        return r
                    continue
                left = deadline - time.time()
                if left <= 0:
                    self.proc.kill()
                    self.proc = None
                    return {"timeout": timeout}
                rl, _, _ = select.select([self.proc.stdout], [], [], min(left, 1.0))
                if rl:
                    chunk = os.read(self.proc.stdout.fileno(), 1 << 16)
                    if not chunk:
                        rc = self.proc.wait()
                        self.proc = None
                        return {"died": f"exit status {rc} (stack overflow / abort?)"}
                    self.buf += chunk

    def close(self):
        if self.proc is not None:
            try:
                self.proc.stdin.close()
                self.proc.wait(timeout=2)
            except Exception:
                self.proc.kill()
            self.proc = None


_drivers = {}


def get(pkg: str) -> Driver:
    if pkg not in _drivers:
        _drivers[pkg] = Driver(pkg)
    return _drivers[pkg]


# ---------------------------------------------------------------------------------------------- JSON term helpers


def t_builtin(name):
    return {"builtin": name}


def t_app(f, *args):
    for a in args:
        f = {"app": [f, a]}
    return f


def t_force(t, n=1):
    for _ in range(n):
        t = {"force": t}
    return t


def c_int(n: int):
    return {"con": {"int": str(n)}}


def c_bytes(b: bytes):
    return {"con": {"bytes": b.hex()}}


def c_bool(b: bool):
    return {"con": {"bool": bool(b)}}


def c_unit():
    return {"con": {"unit": None}}


def c_string(s: str):
    return {"con": {"string": s}}
