#!/usr/bin/env python3
"""Regenerates /verif/MANIFEST.json from the table below (single source of truth for what is claimed)."""
import json
import os

HERE = os.path.dirname(os.path.dirname(os.path.abspath(__file__)))

M_NOTE = ("trusted: rustc nightly MIR dump, mirsym interpreter + library summaries (mirsym/summaries.py), hand-written "
          "specification tables under /verif/specs, z3; bounds and undecided obligations are listed in the evidence")
U_NOTE = ("trusted: uplcsym (symbolic CEK machine + z3 models of the builtins, validated against the native evaluator on the "
          "repository's conformance suite), the driver (real parser / type checker / code generator / optimiser of /repo, rebuilt "
          "from the working tree), z3; the program quantifier is a corpus (stated in the evidence), the argument quantifier is "
          "decided by the solver within the stated Data depth/width; every reported disagreement was replayed on the native evaluator")

CHECKS = [
    dict(id="C01", engine="uplcsym", cat="translation_validation",
         text="compiled programs (real parser, type checker, code generator, optimiser) of generated and hand-written probe modules are "
              "executed by a symbolic CEK machine on symbolic arguments of the declared types; z3 decides equality of value and of "
              "abort/no-abort with an independent denotational semantics of the Aiken fragment (strict let, first-match when, floor "
              "div/mod, short-circuit, expect, field/tuple access, Data casts, recursion over bounded lists). PARTIAL: the program "
              "quantifier is a seeded generator + a deterministic probe suite over a first-order fragment",
         note=U_NOTE, tech="SMT translation validation: symbolic CEK execution of compiled code vs reference semantics (z3)"),
    dict(id="C02", engine="uplcsym", cat="translation_validation",
         text="for every (pre-optimisation, post-optimisation) program pair the real compiler produces for the corpus, both programs "
              "are run by a symbolic CEK machine on the same symbolic arguments (typed and arbitrary Data) and z3 is asked for an "
              "argument on which value or abort/no-abort differ; optimiser/code-generator panics on corpus modules are reported",
         note=U_NOTE, tech="SMT translation validation of optimiser output (symbolic CEK machine + z3), native replay"),
    dict(id="C06", engine="uplcsym", cat="model_checking",
         text="compiled corpus programs are explored by the symbolic CEK machine on all arguments of the declared types (bounded "
              "depth/width); z3 decides reachability of every structural machine error (type mismatch, non-function application, "
              "open term, missing case branch, non-constant where constant expected)",
         note=U_NOTE, tech="bounded symbolic execution of compiled UPLC (z3): reachability of structural machine errors"),
    dict(id="C14", engine="uplcsym", cat="translation_validation",
         text="each corpus program is compiled under the trace levels x scopes; all builds are run by the symbolic CEK machine on the "
              "same symbolic arguments and z3 is asked for an argument on which the value or abort/no-abort differs from the silent build",
         note=U_NOTE, tech="SMT translation validation across tracing configurations (symbolic CEK machine + z3)"),
    dict(id="C07", engine="uplcsym", cat="model_checking",
         text="clause lists (fixed hard cases, seeded random, enumerated in the thorough tier) over 18 scrutinee types are given to the real "
              "type checker; its accept / NotExhaustive(missing patterns) / Redundant(clause) verdict is compared with a z3 decision over ALL "
              "values of the scrutinee type (exact for the generated patterns by a small-model bound); for accepted matches the compiled `when` "
              "is run by the symbolic CEK machine on a symbolic scrutinee and z3 decides that the first matching clause runs with the right bindings",
         note=U_NOTE + "; reference matching relation in aikengen/lang.py", tech="SMT decision of exhaustiveness/redundancy over all values + symbolic CEK execution of the compiled match (z3)"),
    dict(id="C12", engine="uplcsym", cat="translation_validation",
         text="for a fixed family of 24 types (enums, records, nested and recursive ADTs, Option, lists, tuples, pairs/maps, Bool, Int, "
              "ByteArray, Data) the real blueprint code publishes the schema and the real compiler produces `expect _: T = d`; the acceptor "
              "is run by the symbolic CEK machine on a symbolic Data value and z3 decides accepted <=> conforms to a direct z3 reading of the "
              "schema JSON (CIP-57), and that every value of T conforms; the blueprint code's own reading of a schema (Parameter::validate) "
              "is decided under C18",
         note=U_NOTE + "; driver drv-project (real Annotated::<Schema>::from_type and finalisation passes); z3 reading of CIP-57 in props/c12.py",
         tech="SMT translation validation: compiled `expect` on symbolic Data vs z3 reading of the published schema"),
    dict(id="C15", engine="mirsym", cat="model_checking",
         text="PARTIAL: decided are the tables printer and parser keep separately - <DefaultFunction as Display>::fmt and FromStr::from_str executed "
              "from MIR for a symbolic builtin tag (round trip and injectivity for every tag), Type::to_doc (leaf and nested list/pair types) "
              "against the grammar rule type_info - and the data syntax the printer emits (Constant::to_doc_list_plutus_data from MIR over a "
              "document model: token stream of the grammar with the logical constructor index, symbolic tags/integers/bytes); layout, numbers, "
              "string escapes and the peg parser as a whole are outside the claim",
         note=M_NOTE, tech="SMT-based symbolic execution of rustc MIR (z3) with a symbolic builtin tag"),
    dict(id="C18", engine="mirsym", cat="model_checking",
         text="PARTIAL: (validate) Parameter validation (validate_data / validate_schema, the acceptance test of Validator::apply) executed from the "
              "MIR of aiken-project on enumerated schema shapes x data shapes with symbolic constructor indices, tags, integers and bytes: Ok <=> the "
              "data conforms to the schema (reference reading of CIP-57), never a panic; (apply) Validator::apply from MIR on 0..3 remaining "
              "parameters and an opaque program: exactly the head is consumed, the program becomes [program (con data arg)], nothing else changes. "
              "Hash/address freshness, JSON round trips and $ref resolution are outside the claim",
         note=M_NOTE, tech="SMT-based symbolic execution of rustc MIR of aiken-project (z3)"),
    dict(id="C03", engine="mirsym", cat="model_checking",
         text="bounded symbolic execution of the MIR of Machine::compute/return_compute/force_evaluate/apply_evaluate/lookup_var/"
              "transfer_arg_stack and discharge::value_as_term on symbolic machine states (opaque sub-terms, symbolic tags/indices); "
              "micro-traces are compared with the CEK rules of the Plutus Core specification by z3",
         note=M_NOTE, tech="SMT-based symbolic execution of rustc MIR (z3), one inductive step per CEK rule"),
    dict(id="C04", engine="mirsym", cat="model_checking",
         text="every arm of DefaultFunction::call (preceded by its costing/size checks) executed symbolically from MIR on symbolic "
              "arguments under semantics variants A-E; z3 decides equality with the builtin specification, failure-iff-specified-"
              "failure, absence of panics and rejection of ill-typed arguments",
         note=M_NOTE + "; hashing/signature/BLS digests are uninterpreted or undecided (listed)",
         tech="SMT-based symbolic execution of rustc MIR (z3) against z3 specifications of the builtins"),
    dict(id="C05", engine="mirsym", cat="model_checking",
         text="bounded symbolic execution of the MIR of the real costing functions, the size-to-costing-function wiring "
              "(BuiltinCosts::to_ex_budget) and the step-accounting functions; every obligation is decided by z3 over all i64 values "
              "within stated envelopes; the accounting invariant is inductive so it covers histories of any length and every slippage",
         note=M_NOTE, tech="SMT-based symbolic execution of rustc MIR (z3), inductive invariant for step accounting"),
    dict(id="C08", engine="mirsym", cat="model_checking",
         text="uplc's flat Encode/Decode implementations (Program, Term, Constant, type tags, builtin tags, binders) executed from MIR "
              "on enumerated program shapes with symbolic leaves; decode(encode(p)) = p decided by z3; the pallas-codec primitives "
              "are abstracted to typed tokens. PARTIAL: CBOR/hex wrapping, PlutusData CBOR, hashes, addresses and blueprint JSON are "
              "outside the claim",
         note=M_NOTE, tech="SMT-based symbolic execution of rustc MIR (z3), token-stream abstraction of the bit codec"),
    dict(id="C10", engine="mirsym", cat="model_checking",
         text="every feasible panic / arithmetic-overflow path of the evaluator's transition functions, builtin applications (costing + "
              "call, well- and ill-typed arguments, semantics A-E) and budget accounting, found by symbolic execution of the MIR; "
              "PARTIAL: compiler panics outside the corpus-driven crash leg of C02 and hangs are outside the solver claim",
         note=M_NOTE, tech="SMT-based symbolic execution of rustc MIR (z3): panic-path feasibility"),
    dict(id="C11", engine="mirsym", cat="model_checking",
         text="debruijn::Converter (name<->index conversions) executed from MIR on all term shapes up to a node bound with symbolic "
              "uniques and indices; z3 compares every variable's resolution with an independent binder-resolution function and checks "
              "that free variables are rejected",
         note=M_NOTE, tech="SMT-based symbolic execution of rustc MIR (z3) with symbolic uniques/indices"),
    dict(id="C20", engine="mirsym", cat="model_checking",
         text="no-panic of the flat decoders, compositionally: (prim) every pallas-codec Decoder primitive from MIR on an arbitrary "
              "decoder state (symbolic buffer up to a stated capacity, symbolic position/used_bits under the representation invariant); "
              "(dec) uplc's Decode impls (Program, Term, Constant, types, builtins, binders) from MIR with the primitives replaced by "
              "havoc stubs returning any Ok/Err; (act) the semantic actions of the UPLC text grammar over matched text (builtin-name lookup and "
              "every rule `x:$(PATTERN) {action}`, text symbolic in the regular language of PATTERN, <= 24/40 bytes) from MIR, panics replayed "
              "through uplc::parser::program; (hex) Program::from_hex prefix handling. PARTIAL: CBOR, JSON, the matching code of the UPLC text "
              "parser and the Aiken lexer/parser/formatter are outside the claim; the two panics in pallas-codec are listed known findings",
         note=M_NOTE, tech="SMT-based symbolic execution of rustc MIR (z3): compositional panic-path feasibility of decoders"),
]

NA = [
    ("C09", "the quantifier ranges over hash-map seeds, file-discovery order, thread counts and compile histories of the whole compiler; "
            "no kernel whose symbolic execution decides it (a symbolic iteration order through gen_uplc/Project is out of reach of mirsym "
            "and Kani) - DESIGN.md section 5"),
    ("C13", "parse . pretty . parse over strings: chumsky combinators, the `pretty` document engine and comment cursors are heap-built, "
            "input-proportional loops with no separable kernel; a model would verify the model, not the code - DESIGN.md section 5"),
    ("C16", "control flow of the shrinker is driven by oracle replays through a PatriciaMap cache and an on-chain fuzzer run by the CEK "
            "machine; not encodable within reach (Kani probe did not finish on a 2-element choice sequence) - DESIGN.md section 5"),
    ("C17", "a statement about thread interleavings and Rc reachability across a whole test set; Kani does not model concurrency and heap "
            "reachability of Vec<Test> is not a solver question - DESIGN.md section 5"),
    ("C19", "needs a symbolic Conway transaction (pallas MintedTx, CBOR, script-context construction, sorting); the budget hand-over loop "
            "cannot be isolated from it - DESIGN.md section 5"),
]

NOT_BUILT = {
    "C12": "not claimed: the solver legs relating the published schema of a type to the compiled `expect` for that type (symbolic CEK "
           "execution against a z3 reading of the schema JSON) are not built; the blueprint code's own reading of a schema "
           "(Parameter::validate) is decided under C18 - DESIGN.md section 8.2",
}


def main():
    claimed = set()
    checks = []
    for c in CHECKS:
        if not os.path.exists(os.path.join(HERE, "props", c["id"].lower() + ".py")):
            NOT_BUILT[c["id"]] = "check not built"
            continue
        claimed.add(c["id"])
        checks.append({
            "property_id": c["id"],
            "quick_cmd": f"./check {c['id']} --tier quick",
            "thorough_cmd": f"./check {c['id']} --tier thorough",
            "evidence_file": f"/verif/evidence/{c['id']}.json",
            "replay_cmd_template": f"./check {c['id']} --replay {{path}}",
            "engine": c["engine"],
            "level_claimed": {"category": c["cat"], "text": c["text"], "design_ref": f"DESIGN.md section 4 {c['id']}"},
            "level_note": c["note"],
            "technique": c["tech"],
        })
    checks.sort(key=lambda x: x["property_id"])
    na = [{"property_id": i, "reason": r} for i, r in NA if i not in claimed]
    for i in range(1, 21):
        pid = f"C{i:02d}"
        if pid not in claimed and pid not in [x["property_id"] for x in na]:
            na.append({"property_id": pid, "reason": NOT_BUILT.get(pid, "solver-based check not built in the time available (design in DESIGN.md section 4); not claimed")})
    na.sort(key=lambda x: x["property_id"])
    man = {
        "version": 1,
        "setup_cmd": "./setup.sh",
        "hooks": {
            "guard": "cargo feature verif-hooks (aiken-lang)",
            "enable": "driver crates depend on aiken-lang with features=[\"verif-hooks\"]",
            "baseline_off_cmd": "cd /repo && cargo test --workspace --no-fail-fast --offline",
            "source_commits": ["adc4765"],
            "add_only": True,
        },
        "engines": [
            {"name": "mirsym", "path": "/verif/mirsym", "serves_properties": sorted(c["property_id"] for c in checks if c["engine"] == "mirsym"),
             "kind_free_text": "symbolic executor for rustc MIR text dumps (regenerated from /repo on every run) with z3"},
            {"name": "uplcsym", "path": "/verif/uplcsym", "serves_properties": sorted(c["property_id"] for c in checks if c["engine"] == "uplcsym"),
             "kind_free_text": "symbolic CEK machine for the UPLC programs the real compiler of /repo emits, with z3"},
        ],
        "checks": checks,
        "notes": "all checks: ./check <id> --tier quick|thorough; known findings in /verif/known_findings.json; see DESIGN.md",
        "not_applicable": na,
    }
    json.dump(man, open(os.path.join(HERE, "MANIFEST.json"), "w"), indent=1)
    print("claimed:", sorted(claimed), "n/a:", [x["property_id"] for x in na])


if __name__ == "__main__":
    main()
