#!/bin/bash
# tools/seedtest.sh <seeded-dir> <check-id>... : apply seeded/<dir>/patch.diff to /repo, run the quick tier of the given checks,
# print one line per check (DETECTED / missed), always undo the patch afterwards.  Never commits anything in /repo.
DIR=$1; shift
cd /repo || exit 9
if ! git diff --quiet; then echo "repo dirty"; exit 9; fi
git apply "$DIR/patch.diff" || { echo "patch does not apply"; exit 3; }
trap 'git -C /repo checkout -- . ; git -C /repo clean -fdq -- crates >/dev/null 2>&1' EXIT
cd /verif
for ID in "$@"; do
  OUT=$(./check "$ID" --tier quick ${SEED_ONLY:+--only $SEED_ONLY} 2>&1)
  RC=$?
  if echo "$OUT" | grep -q "^VIOLATION property=$ID"; then
    echo "$ID DETECTED rc=$RC: $(echo "$OUT" | grep -A1 "^VIOLATION" | grep "what:" | head -1 | cut -c1-260)"
  else
    echo "$ID missed rc=$RC: $(echo "$OUT" | tail -1 | cut -c1-200)"
  fi
done
