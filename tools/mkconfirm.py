#!/usr/bin/env python3
"""Collects my own confirmation of every seeded change into seeded/confirmations.json:
suite result with the patch applied on the current /repo HEAD (run in a scratch worktree) and which check(s) catch it."""
import glob, json, os, re, sys
res = json.load(open("/verif/seeded/results.json"))
suite = {}
for f in glob.glob("/tmp/confirm_conf*.txt"):
    for line in open(f):
        m = re.match(r"^(C\d\d-\d+)\s+(.*)$", line.strip())
        if m:
            suite[m.group(1)] = m.group(2).strip()
out = {}
for d in sorted(os.listdir("/verif/seeded")):
    if not os.path.isdir(os.path.join("/verif/seeded", d)):
        continue
    out[d] = {"suite_with_patch": suite.get(d, "not re-run"), "checks": res.get(d, {})}
json.dump(out, open("/verif/seeded/confirmations.json", "w"), indent=1)
bad = [k for k, v in out.items() if "861 passed" not in v["suite_with_patch"]]
print(len(out), "changes;", "suite not confirmed for:", bad)
