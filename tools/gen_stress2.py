#!/usr/bin/env python3
"""Generates corpus/stress2.ak: shapes the optimiser's reducers key on (shrinker.rs), systematically.

 * every binary Int / ByteArray operator and two/three-argument builtin, with the SAME constant used three times in the
   same argument position next to three different non-constant operands (builtin_curry_reducer hoists `f CONST`;
   is_order_agnostic_builtin decides whether arguments may be swapped), for each argument position, plus a mixed variant;
 * constant on either side of comparisons / subtraction / addition of a negative constant (convert_arithmetic_ops,
   flip_constants);
 * let-bound lambdas that are / look like the identity (identity_reducer), projections, constant functions;
 * lets used 0/1/2 times, under branches, bound to constants, variables, lambdas, throwing expressions (inline_reducer,
   lambda_reducer, force_delay_reducer);
 * constant-foldable applications, including ones that fail (builtin_eval_reducer + is_error_safe);
 * functions of several arguments applied at once (case_constr_apply_reducer / split_body_lambda).
The file is committed; this script documents how it was produced (python3 tools/gen_stress2.py > corpus/stress2.ak)."""

out = ["use aiken/builtin", ""]


def fn(name, params, ret, body):
    ps = ", ".join(f"{n}: {t}" for n, t in params)
    out.append(f"pub fn {name}({ps}) -> {ret} {{\n  {body}\n}}\n")


III = [("a", "Int"), ("b", "Int"), ("c", "Int")]
BBB = [("x", "ByteArray"), ("y", "ByteArray"), ("z", "ByteArray")]

# ---- infix Int operators, constant left / right / both -------------------------------------------------
INT_OPS = [("add", "+"), ("sub", "-"), ("mul", "*"), ("div", "/"), ("mod", "%")]
CMP_OPS = [("lt", "<"), ("le", "<="), ("gt", ">"), ("ge", ">="), ("eq", "=="), ("ne", "!=")]
for nm, op in INT_OPS:
    fn(f"{nm}_const_left3", III, "List<Int>", f"[100 {op} a, 100 {op} b, 100 {op} c]")
    fn(f"{nm}_const_right3", III, "List<Int>", f"[a {op} 7, b {op} 7, c {op} 7]")
    fn(f"{nm}_const_mixed", III, "List<Int>", f"[13 {op} a, b {op} 13, 13 {op} c, a {op} 13]")
    fn(f"{nm}_neg_const", III, "List<Int>", f"[a {op} -5, -5 {op} b, c {op} -5, -5 {op} a]")
    fn(f"{nm}_two_consts", III, "List<Int>", f"[3 {op} a, 3 {op} b, 3 {op} c, a {op} 9, b {op} 9, c {op} 9]")
for nm, op in CMP_OPS:
    fn(f"{nm}_const_left3", III, "List<Bool>", f"[5 {op} a, 5 {op} b, 5 {op} c]")
    fn(f"{nm}_const_right3", III, "List<Bool>", f"[a {op} 5, b {op} 5, c {op} 5]")
    fn(f"{nm}_const_mixed", III, "List<Bool>", f"[5 {op} a, b {op} 5, 5 {op} c, a {op} 5]")

# ---- builtins with two arguments --------------------------------------------------------------------------
B2 = [
    ("quotient_integer", "Int", "Int", "Int", "41", "41"), ("remainder_integer", "Int", "Int", "Int", "41", "41"),
    ("divide_integer", "Int", "Int", "Int", "-41", "-41"), ("mod_integer", "Int", "Int", "Int", "-41", "-41"),
    ("subtract_integer", "Int", "Int", "Int", "100", "100"), ("less_than_integer", "Int", "Int", "Bool", "3", "3"),
    ("less_than_equals_integer", "Int", "Int", "Bool", "3", "3"),
    ("append_bytearray", "ByteArray", "ByteArray", "ByteArray", '#"ff"', '#"ff"'),
    ("less_than_bytearray", "ByteArray", "ByteArray", "Bool", '#"80"', '#"80"'),
    ("less_than_equals_bytearray", "ByteArray", "ByteArray", "Bool", '#"80"', '#"80"'),
    ("cons_bytearray", "Int", "ByteArray", "ByteArray", "65", '#"6162"'),
    ("index_bytearray", "ByteArray", "Int", "Int", '#"0a0b0c0d"', "1"),
]
names = {"Int": ["a", "b", "c"], "ByteArray": ["x", "y", "z"]}
for b, t1, t2, tr, k1, k2 in B2:
    ps1 = [(n, t2) for n in names[t2]]
    fn(f"{b}_const_first3", ps1, f"List<{tr}>", "[" + ", ".join(f"builtin.{b}({k1}, {n})" for n in names[t2]) + "]")
    ps2 = [(n, t1) for n in names[t1]]
    fn(f"{b}_const_second3", ps2, f"List<{tr}>", "[" + ", ".join(f"builtin.{b}({n}, {k2})" for n in names[t1]) + "]")
    if t1 == t2:
        n = names[t1]
        fn(f"{b}_const_mixed", ps2, f"List<{tr}>", f"[builtin.{b}({k1}, {n[0]}), builtin.{b}({n[1]}, {k1}), builtin.{b}({k1}, {n[2]}), builtin.{b}({n[0]}, {k1})]")

# three arguments
fn("slice_const_12", BBB, "List<ByteArray>", "[builtin.slice_bytearray(1, 2, x), builtin.slice_bytearray(1, 2, y), builtin.slice_bytearray(1, 2, z)]")
fn("slice_const_1", BBB + [("a", "Int")], "List<ByteArray>", "[builtin.slice_bytearray(1, a, x), builtin.slice_bytearray(1, a + 1, y), builtin.slice_bytearray(1, a + 2, z)]")
fn("slice_const_3", III, "List<ByteArray>", '[builtin.slice_bytearray(a, b, #"00010203"), builtin.slice_bytearray(b, c, #"00010203"), builtin.slice_bytearray(c, a, #"00010203")]')
fn("bytearray_concat3", BBB, "List<ByteArray>", '[builtin.append_bytearray(x, #"ff"), builtin.append_bytearray(y, #"ff"), builtin.append_bytearray(z, #"ff"), builtin.append_bytearray(#"ff", x)]')
fn("bytearray_eq3", BBB, "List<Bool>", '[x == #"00", y == #"00", #"00" == z]')

# ---- identity-like lambdas -----------------------------------------------------------------------------
fn("lam_identity", [("a", "Int")], "Int", "let i = fn(v: Int) { v }\n  i(a) + i(1)")
fn("lam_const", BBB[:2], "Bool", "let k = fn(_ignored: ByteArray) { x }\n  k(y) == x")
fn("lam_const2", BBB[:2], "ByteArray", "let k = fn(_ignored: ByteArray) { x }\n  builtin.append_bytearray(k(y), k(x))")
fn("lam_first", III[:2], "Int", "let f = fn(p: Int, _q: Int) { p }\n  f(a, b) - f(b, a)")
fn("lam_second", III[:2], "Int", "let f = fn(_p: Int, q: Int) { q }\n  f(a, b) - f(b, 1)")
fn("lam_twice", [("a", "Int")], "Int", "let i = fn(v: Int) { v }\n  let j = fn(v: Int) { i(v) }\n  j(a) * j(2)")
fn("lam_shadow", III[:2], "Int", "let a = a + b\n  let f = fn(a: Int) { a }\n  f(b) + a")
fn("lam_apply_many", III, "Int", "let g = fn(p: Int, q: Int, r: Int) { p - q * r }\n  g(a, b, c) + g(c, b, a)")
fn("lam_partial_order", III, "Int", "let g = fn(p: Int, q: Int) { p / q }\n  g(a, b) - g(b, c)")

# ---- lets: usage count x position x purity ---------------------------------------------------------------
fn("let_throw_unused_branch", [("a", "Int"), ("p", "Bool")], "Int", "let t = 10 / a\n  if p {\n    t\n  } else {\n    0\n  }")
fn("let_throw_both_branches", [("a", "Int"), ("p", "Bool")], "Int", "let t = 10 / a\n  if p {\n    t\n  } else {\n    t + 1\n  }")
fn("let_throw_in_and", [("a", "Int"), ("p", "Bool")], "Bool", "let t = 10 / a > 1\n  p && t")
fn("let_throw_in_or", [("a", "Int"), ("p", "Bool")], "Bool", "let t = 10 / a > 1\n  p || t")
fn("let_throw_when", [("a", "Int"), ("o", "Option<Int>")], "Int", "let t = 10 % a\n  when o is {\n    Some(v) -> v\n    None -> t\n  }")
fn("let_expect_order", [("a", "Int"), ("o", "Option<Int>")], "Int", "let t = 10 / a\n  expect Some(v) = o\n  v + t")
fn("let_const_twice", [("a", "Int")], "Int", "let k = 1000\n  k * a + k")
fn("let_var_alias", III[:2], "Int", "let t = a\n  let u = t\n  u - b")
fn("let_nested_throw", [("a", "Int"), ("p", "Bool"), ("q", "Bool")], "Int", "let t = 10 / a\n  if p {\n    if q {\n      t\n    } else {\n      1\n    }\n  } else {\n    2\n  }")
fn("let_fail_branch", [("a", "Int"), ("p", "Bool")], "Int", "let t = if a > 0 {\n    a\n  } else {\n    fail\n  }\n  if p {\n    t\n  } else {\n    0\n  }")
fn("let_lambda_delayed_throw", [("a", "Int"), ("p", "Bool")], "Int", "let f = fn() { 10 / a }\n  if p {\n    f()\n  } else {\n    0\n  }")

# ---- constant folding --------------------------------------------------------------------------------------
fn("fold_arith", [("a", "Int")], "Int", "a + ( 2 + 3 ) * ( 10 / 3 ) - ( -7 % 3 )")
fn("fold_bytes", [("x", "ByteArray")], "ByteArray", 'builtin.append_bytearray(x, builtin.append_bytearray(#"00", builtin.slice_bytearray(1, 2, #"0a0b0c0d")))')
fn("fold_len", [("a", "Int")], "Int", 'a + builtin.length_of_bytearray(#"001122") + builtin.index_bytearray(#"0a0b", 1)')
fn("fold_div_zero_guarded", [("a", "Int")], "Int", "if a > 0 {\n    a\n  } else {\n    1 / 0\n  }")
fn("fold_index_oob_guarded", [("a", "Int")], "Int", 'if a > 0 {\n    a\n  } else {\n    builtin.index_bytearray(#"00", 5)\n  }')
fn("fold_cmp", [("p", "Bool")], "Bool", 'p && 3 < 5 || builtin.less_than_bytearray(#"00", #"01") && !p')
fn("fold_cons_range", [("a", "Int")], "ByteArray", 'if a > 0 {\n    builtin.cons_bytearray(65, #"")\n  } else {\n    builtin.cons_bytearray(256, #"")\n  }')
fn("fold_replicate_too_big", [("a", "Int")], "ByteArray", 'if a > 0 {\n    #""\n  } else {\n    builtin.replicate_byte(10000, 0)\n  }')
fn("fold_shift_huge", [("a", "Int")], "ByteArray", 'if a > 0 {\n    #""\n  } else {\n    builtin.shift_bytearray(#"00", 18446744073709551616)\n  }')
fn("fold_rotate_huge", [("a", "Int")], "ByteArray", 'if a > 0 {\n    #""\n  } else {\n    builtin.rotate_bytearray(#"00", -18446744073709551616)\n  }')
fn("fold_slice_huge", [("a", "Int")], "ByteArray", 'if a > 0 {\n    #""\n  } else {\n    builtin.slice_bytearray(18446744073709551616, 1, #"00")\n  }')
fn("fold_int_to_bytes", [("a", "Int")], "ByteArray", 'if a > 0 {\n    builtin.integer_to_bytearray(True, 0, 258)\n  } else {\n    builtin.integer_to_bytearray(False, 2, 70000)\n  }')
fn("fold_data", [("a", "Int")], "Int", "builtin.un_i_data(builtin.i_data(a)) + builtin.un_i_data(builtin.i_data(5))")

print("\n".join(out))
