#!/bin/bash
# tools/mutest.sh <prop> <file-relative-to-repo> <python-regex-old> <new> [--only fam]
# applies a one-line textual mutation to /repo, runs the quick check, reverts.
PROP=$1; FILE=$2; OLD=$3; NEW=$4; shift 4
cd /repo || exit 9
if ! git diff --quiet; then echo "repo dirty"; exit 9; fi
python3 - "$FILE" "$OLD" "$NEW" <<'PY'
import sys,re
f,old,new=sys.argv[1:4]
s=open(f).read()
n=s.count(old)
if n!=1:
    print(f"pattern occurs {n} times"); sys.exit(3)
open(f,'w').write(s.replace(old,new))
PY
rc=$?
if [ $rc -ne 0 ]; then git checkout -- .; exit $rc; fi
cd /verif && ./check $PROP --tier quick "$@" 2>&1 | grep -v "^\[mirsym\]" | tail -8
echo "exit=${PIPESTATUS[0]}"
git -C /repo checkout -- .
