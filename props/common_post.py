"""Turns violated obligations into VIOLATION / KNOWN-FINDING / ENCODER-MISMATCH verdicts."""
from vlib.common import KnownFindings, Result, write_replay


def postprocess(res: Result, kf: KnownFindings, replay_fn=None):
    for ob in res.obligations:
        if ob.status != "violated":
            continue
        confirmed = None
        how = "not replayable through a public entry point; model re-evaluated in the encoder only"
        if replay_fn is not None:
            try:
                confirmed, how = replay_fn(ob)
            except Exception as e:  # replay machinery failure is not a verdict
                confirmed, how = None, f"replay failed to run: {e}"
        if confirmed is False:
            res.mismatches.append(f"{ob.name}: model did not reproduce natively ({how})")
            ob.status = "undecided"
            ob.detail = "ENCODER-MISMATCH: " + ob.detail
            continue
        key = ob.finding_key or ob.name
        known = kf.lookup(res.prop, key)
        if known:
            res.known.append(f"{key}: {known.get('what', '')}")
            ob.status = "discharged-known"
            continue
        path = write_replay(res.prop, {"property": res.prop, "obligation": ob.name, "finding_key": key, "detail": ob.detail,
                                       "model": ob.model, "replay": how, "confirmed_natively": bool(confirmed)})
        res.violations.append({"replay": path, "what": f"{ob.name}: {ob.detail[:300]}"})
    # 'discharged-known' counts as decided (listed finding), keep status text for the evidence
    for ob in res.obligations:
        if ob.status == "discharged-known":
            ob.status = "known"
