"""C18 apply family: Validator::apply executed from MIR (engine M) + native replay through drv-project when available.

For a validator with n = 0..3 remaining parameters (head schema enumerated: opaque / integer / bytes; the others opaque),
an OPAQUE program term (so the statement holds for programs of any size), symbolic version numbers and an argument
that is an enumerated Data shape with symbolic leaves, one call of the real `Validator::<SerializableProgram>::apply`:

  n = 0                          -> Err(NoParametersToApply)
  head schema rejects arg        -> Err, nothing applied
  otherwise                      -> Ok(v') with v'.parameters = tail (exactly the head is consumed),
                                    v'.program = Program{version unchanged, term = [program (con data arg)]} under the same
                                    Plutus-version wrapper, and title/datum/redeemer untouched
so the applied validator IS the original applied to the parameter (evaluation equality follows from the CEK rule for
application, C03).  No path panics."""
from __future__ import annotations

import z3

from mirsym.exec import Unsupported
from mirsym.values import *  # noqa
from specs import data as SD
from vlib.common import Obligation, Result, log


def _param(ex, schema_variant):
    d = Adt("Data", schema_variant, ())
    return Adt("Parameter", None, (ex.none(), Adt("Declaration", "Inline", (BoxV(Adt("Schema", "Data", (d,))),))))


def apply_obligations(world, res: Result, tier: str):
    ex = world.executor(timeout_ms=20000, max_paths=500, max_steps=50000)
    try:
        f = world.fn("Validator", "apply")
    except Unsupported as e:
        res.add(Obligation("apply/*", "undecided", str(e)))
        return
    from mirsym.summaries import ByteSeq, fresh_obj
    heads = ["Opaque", "Integer", "Bytes"]
    args = ["int", "bytes", "list"]
    for wrapper in ("PlutusV1Program", "PlutusV2Program", "PlutusV3Program"):
        for n in range(0, 4):
            for head in (heads if n else ["-"]):
                for argk in args:
                    name = f"apply/{wrapper}/params={n}/head={head}/arg={argk}"
                    ob = Obligation(name, "discharged", "")
                    st = ex.new_state()
                    term = fresh_obj("prog", "Term")
                    v1, v2, v3 = (ex.sym_int(f"ver{i}", 64, False, st) for i in range(3))
                    program = Adt("Program", None, (Tup((v1, v2, v3)), term))
                    sp = Adt("SerializableProgram", wrapper, (program,))
                    params = [_param(ex, head)] + [_param(ex, "Opaque") for _ in range(n - 1)] if n else []
                    title = Str(z3.Const("title", ByteSeq))
                    datum = fresh_obj("datum", "Option<Parameter>")
                    redeemer = fresh_obj("redeemer", "Option<Parameter>")
                    defs = Adt("Definitions", None, (LibV("btreemap", ()),))
                    try:
                        d = world.decls.get("Validator")
                        vals = {"title": title, "description": ex.none(), "datum": datum, "redeemer": redeemer,
                                "parameters": VecV(Arr(tuple(params))), "program": sp, "definitions": defs}
                        validator = Adt("Validator", None, tuple(vals[fn] for fn, _ in d.fields))
                        if argk == "int":
                            arg, c = SD.mk_int(world, z3.Int("argn"), "small")
                            st.pc.append(c)
                        elif argk == "bytes":
                            arg = SD.mk_bytes(world, z3.Const("argb", ByteSeq))
                        else:
                            arg = SD.mk_list(world, [SD.mk_opaque()])
                        outs = ex.run(f, [validator, ex.alloc(st, defs), ex.alloc(st, arg)], st)
                    except Unsupported as e:
                        ob.status, ob.detail = "undecided", str(e)
                        res.add(ob)
                        continue
                    accept = n > 0 and (head == "Opaque" or (head == "Integer" and argk == "int") or (head == "Bytes" and argk == "bytes"))
                    fnames = [fn for fn, _ in d.fields]
                    for o in outs:
                        if o.kind == "undecided":
                            ob.status, ob.detail = "undecided", o.msg
                            continue
                        if o.kind == "panic":
                            ob.status, ob.detail, ob.finding_key = "violated", f"Validator::apply panics: {o.msg}", "apply: panic"
                            continue
                        r = o.value
                        isok = isinstance(r, Adt) and r.variant == "Ok"
                        if isok != accept:
                            ob.status = "violated"
                            ob.detail = f"apply {'accepts' if isok else 'rejects'} although " + ("there is no parameter left" if n == 0 else f"the head schema is {head} and the argument is {argk}")
                            ob.finding_key = "apply: acceptance"
                            continue
                        if not isok:
                            if n == 0 and not (isinstance(r.fields[0], Adt) and r.fields[0].variant == "NoParametersToApply"):
                                ob.status, ob.detail, ob.finding_key = "violated", "no parameters left but the error is not NoParametersToApply", "apply: error kind"
                            continue
                        v2_ = r.fields[0]
                        got = dict(zip(fnames, v2_.fields))
                        ps = got["parameters"]
                        items = ps.items if isinstance(ps, VecV) else ps
                        if not isinstance(items, Arr) or len(items.elems) != n - 1 or any(a is not b for a, b in zip(items.elems, params[1:])):
                            ob.status, ob.detail, ob.finding_key = "violated", f"remaining parameters are not the tail of the list ({len(items.elems) if isinstance(items, Arr) else '?'} left of {n})", "apply: tail"
                            continue
                        p2 = got["program"]
                        okp = isinstance(p2, Adt) and p2.variant == wrapper
                        if okp:
                            prog2 = p2.fields[0]
                            ver, t2 = prog2.fields[0], prog2.fields[1]
                            okp = isinstance(t2, Adt) and t2.variant == "Apply"
                            if okp:
                                fn_, arg_ = t2.fields
                                fn_ = fn_.inner if isinstance(fn_, BoxV) else fn_
                                arg_ = arg_.inner if isinstance(arg_, BoxV) else arg_
                                okp = fn_ is term and isinstance(arg_, Adt) and arg_.variant == "Constant"
                                if okp:
                                    cst = arg_.fields[0]
                                    cst = cst.inner if isinstance(cst, BoxV) else cst
                                    okp = isinstance(cst, Adt) and cst.variant == "Data" and cst.fields[0] is arg
                            if okp:
                                vs = ver.fields
                                if ex.check(o.pc, z3.Or(vs[0].e != v1.e, vs[1].e != v2.e, vs[2].e != v3.e)) == "sat":
                                    okp = False
                        if not okp:
                            ob.status, ob.detail, ob.finding_key = "violated", "the new program is not [program (con data arg)] with the version and Plutus wrapper unchanged", "apply: program"
                            continue
                        if got["title"] is not title or got["datum"] is not datum or got["redeemer"] is not redeemer:
                            ob.status, ob.detail, ob.finding_key = "violated", "title / datum / redeemer changed by apply", "apply: other fields"
                    if ob.status == "discharged":
                        ob.detail = f"{len(outs)} path(s): " + ("accepted, head consumed, program = [program (con data arg)]" if accept else "rejected, nothing applied")
                        ob.witness = len(outs) > 0
                    ob.queries, ob.solver_s = ex.queries, round(ex.solver_s, 3)
                    res.add(ob)
    res.functions.update(ex.encoded)


def apply_family(res: Result, tier: str, seed: int, world=None):
    if world is None:
        from mirsym.world import World
        world = World(("aiken-project", "uplc"), deps=("pallas-codec",))
    apply_obligations(world, res, tier)


def replay(ob):
    return None, "structural statement about Validator::apply; the validate family replays through Parameter::validate"
