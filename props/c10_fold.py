"""C10 (compiler half) / C02 ("the optimiser never crashes on compiler output"): the constant folder.

`builtin_eval_reducer` folds a saturated builtin application on constants when `DefaultFunction::is_error_safe`
says so, by EVALUATING it.  For every builtin and every constant argument vector of the right kinds (symbolic
integers, byte strings, strings, booleans):

   z3 looks for arguments with    is_error_safe(b, args) = true   (MIR of is_error_safe)
                              and  the evaluation of  [b args]  fails or panics (MIR of to_ex_budget + DefaultFunction::call,
                                                                                semantics E = what Program::eval uses)

Each such argument vector is a CANDIDATE only: it is replayed through the real optimiser
(`aiken_optimize_and_intern` on `[(builtin b) consts]`, driver drv-uplc) and reported iff the optimiser panics - so a
folder that checks the outcome of the evaluation is not blamed for an imprecise gate, and one that unwraps is."""
from __future__ import annotations

import itertools
import json

import z3

from mirsym.exec import Unsupported
from mirsym.values import *  # noqa
from mirsym.world import World
from props import c04 as C04
from specs import builtins as SB
from vlib import driver as D
from vlib.common import Obligation, Result, log


def const_json(m, sv):
    """spec value -> CONST JSON of the driver under model m (first-order kinds only)"""
    k = sv[0]
    if k == "int":
        return {"int": str(m.eval(sv[1], True))}
    if k in ("bytes", "str"):
        from mirsym.summaries import _concrete_bytes
        b = _concrete_bytes(m.eval(sv[1], True))
        if b is None:
            return None
        return {"bytes": b.hex()} if k == "bytes" else {"string": b.decode("utf-8", "replace")}
    if k == "bytesN":
        return {"bytes": bytes(m.eval(x, True).as_long() for x in sv[1]).hex()}
    if k == "bool":
        return {"bool": z3.is_true(m.eval(sv[1], True))}
    if k == "unit":
        return {"unit": None}
    return None


def replay_candidate(name, consts):
    term = {"builtin": name}
    for c in consts:
        term = {"app": [term, {"con": c}]}
    # the folder works on the Name form; a program without binders is the same in every form
    r = D.get("drv-uplc").call("optimize", program={"version": [1, 1, 0], "term": term}, timeout=60)
    return r


def fold_family(world: World, res: Result, tier: str, only=None):
    try:
        f_safe = world.fn("DefaultFunction", "is_error_safe")
        fn_call = world.fn("DefaultFunction", "call")
    except Unsupported as e:
        res.add(Obligation("fold/*", "undecided", str(e)))
        return
    from specs.cek import variant_of
    table = dict(SB.SPEC)
    for nm, ks in SB.KINDS_ONLY.items():
        table.setdefault(nm, (ks, None))
    for name, (kinds, _spec) in sorted(table.items()):
        if only and only != name:
            continue
        if any(k in ("any", "elem", "data") or k.startswith(("list", "pair")) for k in kinds):
            continue  # folded constants of these kinds cannot make the evaluation fail in a way the gate does not already exclude (not encoded)
        ob = Obligation(f"fold/{name}", "discharged", "")
        ex = world.executor(timeout_ms=20000, max_paths=400)
        ngate = ncand = nconf = 0
        harmless = []
        try:
            for (ks, lens), region in itertools.product(C04.instantiate(kinds, "quick"), SB.REGIONS.get(name, [None])):
                g = C04.Gen(world, ex)
                pairs = [g.const(k, ln) for k, ln in zip(ks, lens)]
                if region is not None:
                    g.assume += region(*[C04.spec_arg(sv) for _, sv in pairs])
                st = ex.new_state()
                st.pc += list(g.assume)
                terms = [ex.alloc(st, world.adt("Term", "Constant", world.rc(c))) for c, _ in pairs]
                outs = ex.run(f_safe, [Adt("DefaultFunction", variant_of(name), ()), ex.alloc(st, Arr(tuple(terms)))], st)
                for o in outs:
                    if o.kind == "undecided":
                        ob.status, ob.detail = "undecided", f"is_error_safe: {o.msg}"
                        continue
                    if o.kind == "panic":
                        vb = Obligation(f"fold/{name}/gate-panic", "violated", f"is_error_safe panics: {o.msg}")
                        vb.finding_key = f"fold {name}: gate panic"
                        res.add(vb)
                        continue
                    r = o.value
                    cond = r.e if isinstance(r, BoolV) else None
                    if cond is None or ex.check(o.pc, cond) != "sat":
                        continue
                    ngate += 1
                    g2 = C04.Gen(world, ex)
                    g2.vars, g2.assume = g.vars, list(g.assume) + [c for c in o.pc if c is not None] + [cond]
                    vals = [world.con(c) for c, _ in pairs]
                    outs2, _ = C04.run_call(world, ex, fn_call, variant_of(name), "E", vals, g2)
                    for o2 in outs2:
                        bad = o2.kind == "panic" or (o2.kind == "return" and isinstance(o2.value, Adt) and o2.value.variant == "Err")
                        if o2.kind == "undecided":
                            if ob.status == "discharged":
                                ob.status, ob.detail = "undecided", f"evaluation of the folded application: {o2.msg}"
                            continue
                        if not bad:
                            continue
                        m = ex.model(o2.pc)
                        if m is None:
                            continue
                        consts = [const_json(m, sv) for _, sv in pairs]
                        if any(c is None for c in consts):
                            continue
                        ncand += 1
                        why = o2.msg if o2.kind == "panic" else (o2.value.fields[0].variant if isinstance(o2.value.fields[0], Adt) else "Err")
                        rr = replay_candidate(name, consts)
                        res.extra["disagreements_checked"] = res.extra.get("disagreements_checked", 0) + 1
                        if "panic" in rr or "died" in rr:
                            nconf += 1
                            vb = Obligation(f"fold/{name}/crash:{why}", "violated",
                                            f"the optimiser panics while folding [(builtin {name}) {' '.join(json.dumps(c) for c in consts)}]: is_error_safe accepts the "
                                            f"arguments but the evaluation fails ({why}); {str(rr.get('panic') or rr.get('died'))[:160]}")
                            vb.model = {"builtin": name, "constants": consts, "evaluation": why, "optimiser": rr.get("panic") or rr.get("died")}
                            vb.finding_key = f"fold {name}: crash {why}"
                            if not any(x.finding_key == vb.finding_key for x in res.obligations):
                                res.add(vb)
                        else:
                            harmless.append(f"{why} on {[json.dumps(c)[:30] for c in consts]}")
        except Unsupported as e:
            if ob.status == "discharged":
                ob.status, ob.detail = "undecided", str(e)
        if ob.status == "discharged":
            ob.detail = (f"{ngate} gate-open path(s), {ncand} candidate(s) where the evaluation fails, {nconf} make the optimiser panic"
                         + (f"; gate imprecise but harmless: {harmless[0]}" if harmless and not nconf else ""))
            ob.witness = True
        ob.queries, ob.solver_s = ex.queries, round(ex.solver_s, 3)
        res.functions.update(ex.encoded)
        res.add(ob)


def replay(ob):
    m = ob.model or {}
    if "constants" not in m:
        return None, "no native replay"
    rr = replay_candidate(m["builtin"], m["constants"])
    if "panic" in rr or "died" in rr:
        return True, f"aiken_optimize_and_intern panics: {str(rr.get('panic') or rr.get('died'))[:160]}"
    return False, f"optimiser answers {str(rr)[:100]}"
