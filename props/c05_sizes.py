"""C05 sizes family: the size measures that feed the costing functions (ExMemoryUsage of the ledger).

`Value::to_ex_mem_with_semantics` (-> constant_to_ex_mem, integer_to_ex_mem, integer_log2, byte_string_to_ex_mem,
utf8_text_to_ex_mem, data_to_ex_mem_inner) executed from MIR on constants with symbolic payloads:

  integer i        1 if i = 0, else floor(log2 |i|) / 64 + 1                          (|i| < 2^256: stated bound)
  byte string b    1 if empty, else (len - 1) / 8 + 1                                  (symbolic length)
  string s         number of characters (older variants) / UTF-8 bytes / 4 (variants that cost strings by bytes)
  unit, bool       1
  list, pair       sum over the components (shapes enumerated, leaves symbolic)
  data             4 per node + the integer / byte string measure of the leaves        (shapes enumerated)
  non-constants    1
and `integer_log2` alone against floor(log2 i).  The big-endian byte view of an integer (num-bigint `to_bytes_be`) is
axiomatised by its definition: length = number of base-256 digits, first byte = leading digit."""
from __future__ import annotations

import z3

from mirsym import summaries as S
from mirsym.exec import Unsupported
from mirsym.values import *  # noqa
from mirsym.world import World
from specs import data as SD
from vlib.common import Obligation, Result, log

MAXBYTES = 32  # integers below 2^256


def be_axioms(f, e):
    """facts about f(e) = big-endian bytes of the positive integer e (e < 2^(8*MAXBYTES))"""
    ln = z3.IntVal(MAXBYTES)
    first = e / (1 << (8 * (MAXBYTES - 1)))
    for k in range(MAXBYTES - 1, 0, -1):
        ln = z3.If(e < (1 << (8 * k)), z3.IntVal(k), ln)
        first = z3.If(e < (1 << (8 * k)), e / (1 << (8 * (k - 1))), first)
    return [z3.Length(f(e)) == ln, z3.BV2Int(f(e)[0], False) == first]


def log2_spec(a):
    """floor(log2 a) for 0 < a < 2^(8*MAXBYTES)"""
    r = z3.IntVal(0)
    for k in range(1, 8 * MAXBYTES):
        r = z3.If(a >= (1 << k), z3.IntVal(k), r)
    return r


def int_mem(i):
    if isinstance(i, SInt):
        return i.mem
    a = z3.If(i >= 0, i, -i)
    return z3.If(i == 0, 1, log2_spec(a) / 64 + 1)


class SInt:
    """a symbolic integer of exactly k base-256 digits: +-(first * 256^(k-1) + rest), or zero when k = 0.  Its
    big-endian byte view has length k and leading byte `first` by construction, and floor(log2 |i|) = 8(k-1) + floor(log2 first)."""

    def __init__(self, name, k, signed=True):
        self.k = k
        if k == 0:
            self.e, self.cs, self.mem, self.log2, self.ax = z3.IntVal(0), [], z3.IntVal(1), z3.IntVal(0), []
            return
        first, rest, neg = z3.Int(name + "_first"), z3.Int(name + "_rest"), z3.Bool(name + "_neg")
        a = first * (1 << (8 * (k - 1))) + rest
        self.abs = a
        self.e = z3.If(neg, -a, a) if signed else a
        self.cs = [first >= 1, first <= 255, rest >= 0, rest < (1 << (8 * (k - 1)))]
        l8 = z3.IntVal(0)
        for j in range(1, 8):
            l8 = z3.If(first >= (1 << j), z3.IntVal(j), l8)
        self.log2 = 8 * (k - 1) + l8
        self.mem = self.log2 / 64 + 1
        f = S.be_bytes_fn()["f"]
        absx = z3.If(self.e >= 0, self.e, -self.e)
        self.ax = [z3.Length(f(absx)) == k, f(absx)[0] == z3.Int2BV(first, 8), z3.Length(f(a)) == k, f(a)[0] == z3.Int2BV(first, 8)]


def bytes_mem(s):
    n = z3.Length(s)
    return z3.If(n == 0, 1, (n - 1) / 8 + 1)


def _collect_be_terms(ex, pc):
    """every application f(e) of the big-endian byte function occurring in the path condition -> axioms"""
    f = S.be_bytes_fn()["f"]
    seen, out = set(), []

    def walk(t):
        if t.get_id() in seen:
            return
        seen.add(t.get_id())
        if z3.is_app(t):
            if t.decl().eq(f):
                out.append(t.arg(0))
            for c in t.children():
                walk(c)
    for c in pc:
        if c is not None:
            walk(c)
    return f, out


def decide_equal(ex, o, got, want, extra=()):
    """-> None if got == want on path o, else a model"""
    f, args = _collect_be_terms(ex, list(o.pc) + [got != want])
    ax = []
    for a in args:
        ax += be_axioms(f, a)
    r = ex.check(o.pc, got != want, *ax, *extra)
    if r == "unsat":
        return None, "unsat"
    if r == "unknown":
        return None, "unknown"
    return ex.model(o.pc, got != want, *ax, *extra), "sat"


_TASKS = {}


def _task_worker(i):
    name, mk, spec, assume = _TASKS["tasks"][i]
    return _TASKS["do"](name, mk, spec, assume)


def sizes_family(world: World, res: Result, tier: str, kf=None):
    try:
        f_mem = world.fn("Value", "to_ex_mem_with_semantics")
        f_log2 = world.fn(None, "integer_log2")
    except Unsupported as e:
        res.add(Obligation("sizes/*", "undecided", str(e)))
        return
    sems = ["A", "B", "C", "D", "E"]
    ity = world.adt("Type", "Integer")

    tasks = []

    def run_one(name, mk, spec_for_sem, assume=()):
        tasks.append((name, mk, spec_for_sem, assume))

    def do_one(name, mk, spec_for_sem, assume=()):
        ob = Obligation(f"sizes/{name}", "discharged", "")
        ex = world.executor(timeout_ms=30000, max_paths=600, max_steps=60000)
        npaths = 0
        try:
            for sem in sems:
                st = ex.new_state()
                val, leaves = mk(ex, st)
                st.pc += list(assume(leaves) if callable(assume) else assume)
                # the big-endian byte view of every integer leaf, by construction (so that `bytes.first()` is known to exist)
                for iv in [leaves[k] for k in ("i", "j", "e") if k in leaves] + list(leaves.get("xs", [])) + list(leaves.get("ints", [])):
                    if isinstance(iv, SInt):
                        st.pc += iv.cs + iv.ax
                outs = ex.run(f_mem, [ex.alloc(st, val), Adt("BuiltinSemantics", sem, ())], st)
                want = spec_for_sem(sem, leaves)
                for o in outs:
                    npaths += 1
                    if o.kind == "undecided":
                        ob.status, ob.detail = "undecided", f"{o.msg} (semantics {sem})"
                        continue
                    if o.kind == "panic":
                        m = ex.model(o.pc)
                        ob.status, ob.detail, ob.finding_key = "violated", f"size measure panics: {o.msg}; {str(m)[:200]}", f"sizes {name}: panic"
                        continue
                    got = ex.to_int_expr(o.value)
                    r = ex.check(o.pc, got != want)
                    m = ex.model(o.pc, got != want) if r == "sat" else None
                    if r == "unknown":
                        ob.status, ob.detail = "undecided", f"solver unknown (semantics {sem})"
                    elif r == "sat":
                        ob.status = "violated"
                        ob.detail = f"size measure under semantics {sem} is {m.eval(got, True)}, the ledger's ExMemoryUsage gives {m.eval(want, True)}; {str(m)[:300]}"
                        ob.finding_key = f"sizes {name}: wrong measure"
                        ob.model = {"assignment": str(m)[:600], "semantics": sem}
                if ob.status == "violated":
                    break
        except Unsupported as e:
            if ob.status == "discharged":
                ob.status, ob.detail = "undecided", str(e)
        if ob.status == "discharged":
            ob.detail = f"{npaths} paths x semantics A-E: measure equals the ledger's"
            ob.witness = npaths > 0
        ob.queries, ob.solver_s = ex.queries, round(ex.solver_s, 3)
        return ob, dict(ex.encoded)

    # integers: every digit count around the 64-bit word boundaries
    KS = (0, 1, 2, 7, 8, 9, 16, 17, 32) if tier == "quick" else tuple(range(0, 34)) + (40, 64, 65, 128)
    for k in KS:
        run_one(f"integer/{k}digits", lambda ex, st, k=k: (lambda si: (world.con(world.c_int(si.e)), {"i": si}))(SInt("i", k)),
                lambda sem, lv: int_mem(lv["i"]))
    # byte strings
    run_one("bytestring", lambda ex, st: (lambda s: (world.con(world.c_bytes(s)), {"s": s}))(z3.Const("s", S.ByteSeq)),
            lambda sem, lv: bytes_mem(lv["s"]), assume=lambda lv: [z3.Length(lv["s"]) < (1 << 40)])
    # unit / bool / non-constants
    run_one("unit", lambda ex, st: (world.con(world.c_unit()), {}), lambda sem, lv: z3.IntVal(1))
    run_one("bool", lambda ex, st: (world.con(world.c_bool(z3.Bool("b"))), {}), lambda sem, lv: z3.IntVal(1))
    run_one("delay", lambda ex, st: (world.adt("Value", "Delay", world.rc(S.fresh_obj("t", "Term")), world.rc(S.fresh_obj("env", "Env"))), {}), lambda sem, lv: z3.IntVal(1))
    # strings: code points -> bytes; chars count vs bytes/4 by variant (which variants cost by bytes is read from the real predicate)
    f_by_bytes = world.fn("BuiltinSemantics", "costs_strings_by_utf8_bytes")
    by_bytes = {}
    for sem in sems:
        ex0 = world.executor()
        (o0,) = ex0.run(f_by_bytes, [ex0.alloc(ex0.new_state(), Adt("BuiltinSemantics", sem, ()))] if False else [Adt("BuiltinSemantics", sem, ())], ex0.new_state())
        by_bytes[sem] = z3.is_true(z3.simplify(o0.value.e))
    def enc_fixed(cp, w):
        def b(e):
            return z3.Unit(z3.Int2BV(e, 8))
        if w == 1:
            return [z3.And(cp >= 0, cp < 0x80)], b(cp)
        if w == 2:
            return [z3.And(cp >= 0x80, cp < 0x800)], z3.Concat(b(0xC0 + cp / 64), b(0x80 + cp % 64))
        if w == 3:
            return [z3.And(cp >= 0x800, cp < 0x10000, z3.Or(cp < 0xD800, cp > 0xDFFF))], z3.Concat(b(0xE0 + cp / 4096), b(0x80 + (cp / 64) % 64), b(0x80 + cp % 64))
        return [z3.And(cp >= 0x10000, cp <= 0x10FFFF)], z3.Concat(b(0xF0 + cp / 262144), b(0x80 + (cp / 4096) % 64), b(0x80 + (cp / 64) % 64), b(0x80 + cp % 64))

    widths = [(), (1,), (2,), (3,), (4,), (1, 1, 1, 1), (4, 1), (2, 3), (1, 2, 3, 4), (3, 3, 3)] if tier == "quick" else \
        [()] + [w for n in (1, 2, 3) for w in __import__("itertools").product((1, 2, 3, 4), repeat=n)] + [(1, 2, 3, 4, 4, 3, 2, 1)]
    for ws in widths:
        def mk(ex, st, ws=ws):
            cps = [z3.Int(f"cp{k}") for k in range(len(ws))]
            parts = []
            for cp, w in zip(cps, ws):
                cs, enc = enc_fixed(cp, w)
                st.pc += cs
                parts.append(enc)
            s_ = z3.Concat(*parts) if len(parts) > 1 else (parts[0] if parts else z3.Empty(S.ByteSeq))
            return world.con(world.adt("Constant", "String", Str(s_, tuple(cps)))), {"nbytes": sum(ws), "n": len(ws)}
        run_one("string/widths" + "".join(map(str, ws)), mk, lambda sem, lv: z3.IntVal(lv["nbytes"] // 4) if by_bytes[sem] else z3.IntVal(lv["n"]))
    # lists and pairs: sum over components
    for n in ((0, 1, 3) if tier == "quick" else (0, 1, 2, 3, 5)):
        def mkl(ex, st, n=n):
            xs = [SInt(f"x{k}", (1, 9, 17, 8, 2)[k % 5]) for k in range(n)]
            return world.con(world.adt("Constant", "ProtoList", ity, VecV(Arr(tuple(world.c_int(x.e) for x in xs))))), {"xs": xs}
        run_one(f"list/{n}ints", mkl, lambda sem, lv: z3.Sum([int_mem(x) for x in lv["xs"]]) if lv["xs"] else z3.IntVal(0))

    def mkp(ex, st):
        i, s = SInt("pi", 9), z3.Const("ps", S.ByteSeq)
        st.pc += [z3.Length(s) < (1 << 40)]
        bty = world.adt("Type", "ByteString")
        return world.con(world.adt("Constant", "ProtoPair", ity, bty, world.rc(world.c_int(i.e)), world.rc(world.c_bytes(s)))), {"i": i, "s": s}
    run_one("pair/int-bytes", mkp, lambda sem, lv: int_mem(lv["i"]) + bytes_mem(lv["s"]))

    def mknest(ex, st):
        i, j = SInt("ni", 8), SInt("nj", 17)
        lty = world.adt("Type", "List", world.rc(ity))
        inner = world.adt("Constant", "ProtoList", ity, VecV(Arr((world.c_int(i.e), world.c_int(j.e)))))
        return world.con(world.adt("Constant", "ProtoList", lty, VecV(Arr((inner, world.adt("Constant", "ProtoList", ity, VecV(Arr(())))))))), {"i": i, "j": j}
    run_one("list/nested", mknest, lambda sem, lv: int_mem(lv["i"]) + int_mem(lv["j"]))
    # data: 4 per node + leaves
    shapes = [("i",), ("b",), ("list", ()), ("list", (("i",), ("b",))), ("constr", (("i",),)), ("constr", ()), ("map", ((("i",), ("b",)),)),
              ("constr", (("list", (("i",), ("i",))), ("constr", (("b",),))))]
    if tier != "quick":
        shapes += [("list", (("list", (("list", (("i",),)),)),)), ("map", ((("constr", ()), ("list", (("b",),))), (("i",), ("i",)))), ("constr", (("i",), ("i",), ("i",), ("b",)))]
    for k, shp in enumerate(shapes):
        def mkd(ex, st, shp=shp):
            leaves = {"ints": [], "bytes": [], "nodes": 0}

            def build(s):
                leaves["nodes"] += 1
                if s[0] == "i":
                    si = SInt(f"d{len(leaves['ints'])}", (1, 8, 3, 2)[len(leaves["ints"]) % 4])
                    v, c = SD.mk_int(world, si.e, "small")
                    st.pc.append(c)
                    leaves["ints"].append(si)
                    return v
                if s[0] == "b":
                    b = z3.Const(f"db{len(leaves['bytes'])}", S.ByteSeq)
                    st.pc.append(z3.Length(b) < (1 << 40))
                    leaves["bytes"].append(b)
                    return SD.mk_bytes(world, b)
                if s[0] == "list":
                    return SD.mk_list(world, [build(x) for x in s[1]])
                if s[0] == "map":
                    return SD.mk_map(world, [(build(a), build(b)) for a, b in s[1]])
                tag = ex.sym_int("tag", 64, False, st)
                return SD.mk_constr(world, ex, tag, ex.none(), [build(x) for x in s[1]])
            d = build(shp)
            return world.con(world.adt("Constant", "Data", d)), leaves
        run_one(f"data/{k}:{str(shp)[:50]}", mkd,
                lambda sem, lv: z3.IntVal(4 * lv["nodes"]) + z3.Sum([int_mem(x) for x in lv["ints"]] + [bytes_mem(b) for b in lv["bytes"]] + [z3.IntVal(0)]))
    # big integer representations inside data
    for rep in ("big", "neg"):
        for kd in (9, 16, 17):
            def mkbig(ex, st, rep=rep, kd=kd):
                si = SInt("dbig", kd)
                v, c = SD.mk_int(world, si.e, rep)
                st.pc += [c]
                return world.con(world.adt("Constant", "Data", v)), {"e": si}
            run_one(f"data/int-{rep}/{kd}digits", mkbig, lambda sem, lv: 4 + int_mem(lv["e"]))

    # run the collected obligations in forked workers (closures are inherited by fork, only the index is sent)
    import multiprocessing as mp
    import os
    _TASKS["tasks"], _TASKS["do"] = tasks, do_one
    n = min(14, os.cpu_count() or 4, len(tasks))
    if n <= 1:
        parts = [_task_worker(i) for i in range(len(tasks))]
    else:
        with mp.get_context("fork").Pool(n) as pool:
            parts = pool.map(_task_worker, range(len(tasks)), chunksize=1)
    for ob_, enc in parts:
        res.add(ob_)
        res.functions.update(enc)

    # integer_log2 alone
    ob = Obligation("sizes/integer_log2", "discharged", "")
    ex = world.executor(timeout_ms=30000)
    try:
        n = 0
        for k in KS:
            st = ex.new_state()
            si = SInt("li", k, signed=False)
            st.pc += si.cs + si.ax
            outs = ex.run(f_log2, [BigI(si.e)], st)
            for o in outs:
                n += 1
                if o.kind != "return":
                    if o.kind == "panic":
                        ob.status, ob.detail, ob.finding_key = "violated", f"integer_log2 panics on a {k}-digit integer: {o.msg}; {str(ex.model(o.pc))[:200]}", "sizes integer_log2: panic"
                    else:
                        ob.status, ob.detail = "undecided", o.msg
                    continue
                got = ex.to_int_expr(o.value)
                r = ex.check(o.pc, got != si.log2)
                if r == "unknown":
                    ob.status, ob.detail = "undecided", "solver unknown"
                elif r == "sat":
                    m = ex.model(o.pc, got != si.log2)
                    ob.status, ob.detail, ob.finding_key = "violated", f"integer_log2({m.eval(si.e, True)}) = {m.eval(got, True)}, floor(log2) = {m.eval(si.log2, True)}", "sizes integer_log2: wrong"
        if ob.status == "discharged":
            ob.detail = f"{n} paths: floor(log2 i) for every digit count in {list(KS)}"
            ob.witness = True
    except Unsupported as e:
        ob.status, ob.detail = "undecided", str(e)
    ob.queries, ob.solver_s = ex.queries, round(ex.solver_s, 3)
    res.functions.update(ex.encoded)
    res.add(ob)
