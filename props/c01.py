"""C01 Compiled code computes what the Aiken source means — engine U, translation validation against a reference semantics.

Programs come from a typed program generator we own (aikengen), so the source semantics is stated without parsing
Aiken: a denotational semantics of that AST in z3 (aikengen/lang.py: strict evaluation, first-match `when`, floor `/`
and `%`, short-circuit `&&`/`||`, `expect`/`fail`/`todo` abort, Data representation of structured values), written
from the language reference and independent of gen_uplc.  Each generated function goes through the REAL parser, type
checker, code generator and optimiser (driver), the emitted UPLC is run by the symbolic CEK machine on symbolic
arguments of the declared types, and z3 is asked for an argument on which compiled outcome and reference differ."""
from __future__ import annotations

import json
import time

import z3

from aikengen import gen as G
from aikengen import lang as L
from props import ucommon as U
from uplcsym import values as V
from vlib.common import Obligation, Result, KnownFindings, log

Data, DataList = V.Data, V.DataList


def value_eq(ret_ty, compiled, ref):
    """z3 Bool (or None): the compiled result value equals the reference value of type ret_ty"""
    if not isinstance(compiled, V.Con):
        return None
    k = ret_ty[0]
    cty, cv = compiled.ty, compiled.v
    if k == "int":
        return V.int_z(cv) == ref if cty == "integer" else None
    if k == "bool":
        return V.bool_z(cv) == ref if cty == "bool" else None
    if k == "bytes":
        return V.bytes_z(cv) == ref if cty == "bytestring" else None
    if k in ("list", "tuple"):
        if cty == V.T_LD:
            return cv == Data.litems(ref) if not isinstance(cv, (list, tuple)) else V.mk_datalist([V.payload_z("data", x) for x in cv]) == Data.litems(ref)
        if cty == "data":
            return cv == ref
        return None
    if cty == "data":
        return cv == ref
    return None


def check_function(res: Result, name: str, fn_ast: L.Fn, allf, compiled: dict, which: str, depth: int, width: int):
    ob = Obligation(name, "discharged", "")
    try:
        args, assume = U.sym_args(compiled, "typed", depth, width)
    except U.NotRepresentable as e:
        ob.status, ob.detail = "undecided", str(e)
        res.add(ob)
        return
    paths, stats, _ = U.run_program(compiled[which], args, assume, max_paths=600)
    sem = L.Sem(allf, width)
    env = {n: L.from_data(t, a.v) for (n, t), a in zip(fn_ast.params, args)}
    try:
        ref_v, ref_abort = sem.eval(fn_ast.body, env)
    except RecursionError:
        ob.status, ob.detail = "undecided", "reference semantics recursion"
        res.add(ob)
        return
    ob.queries, ob.solver_s = stats["queries"], round(stats["solver_s"], 3)
    n_val = n_err = n_und = 0
    bad = None
    for p in paths:
        o = p.outcome
        if o[0] == "undecided":
            n_und += 1
            continue
        # paths of unsettled feasibility (`approx`) are checked like the others: an infeasible path adds nothing to a
        # universally quantified statement and a `sat` answer comes with a model that is replayed natively
        s = z3.SimpleSolver()
        s.set("timeout", 15000)
        s.add(*p.pc)
        ob.queries += 1
        if o[0] == "error":
            n_err += 1
            s.add(z3.Not(ref_abort))
            r = s.check()
            kind = f"compiled code fails ({o[1]}:{o[2]}) where the source semantics returns a value"
        else:
            n_val += 1
            eq = value_eq(fn_ast.ret, o[1], ref_v)
            if eq is None:
                n_und += 1
                continue
            s.add(z3.Or(ref_abort, z3.Not(eq)))
            r = s.check()
            kind = "compiled code returns a value that differs from the source semantics (or the source aborts)"
        if r == z3.unknown:
            n_und += 1
            continue
        if r == z3.sat:
            m = s.model()
            try:
                aj = [V.value_to_json(m, a)["con"]["data"] for a in args]
            except Exception:
                n_und += 1
                continue
            # replay natively and evaluate the reference on the concrete arguments
            no = U.native_outcome(U.native_apply(compiled[which]["term"], aj))
            res.extra["disagreements_checked"] = res.extra.get("disagreements_checked", 0) + 1
            cargs = [V.Con("data", V.data_from_json(a)) for a in aj]
            cenv = {n: L.from_data(t, a.v) for (n, t), a in zip(fn_ast.params, cargs)}
            sem2 = L.Sem(allf, width, unroll_extra=60)
            cv, ca = sem2.eval(fn_ast.body, cenv)
            ca = z3.simplify(ca)
            ref_desc = "aborts" if z3.is_true(ca) else f"returns {z3.simplify(cv)}"
            native_is_value = no[0] == "value"
            agrees = None
            if z3.is_true(ca):
                agrees = not native_is_value
            elif z3.is_false(ca) and native_is_value:
                nv = V.con_from_json(no[1]["con"]) if "con" in no[1] else None
                e2 = value_eq(fn_ast.ret, nv, cv) if nv is not None else None
                agrees = bool(z3.is_true(z3.simplify(e2))) if e2 is not None else None
            elif z3.is_false(ca):
                agrees = False
            if agrees is False:
                bad = (kind, aj, f"native: {no[0]} {json.dumps(no[1])[:160]}; reference {ref_desc}")
                break
            if agrees is True and not sem.hit_bound:
                res.mismatches.append(f"{name}: solver model not reproduced natively")
            n_und += 1
    if bad:
        kind, aj, desc = bad
        ob.status = "violated"
        ob.detail = f"{kind}: arguments {json.dumps(aj)[:300]}; {desc}"
        ob.model = {"function": fn_ast.name, "source": fn_ast.show(), "args": aj, "native_vs_reference": desc}
        ob.finding_key = f"{name}"
    else:
        ob.detail = f"{len(paths)} paths ({n_val} value, {n_err} abort, {n_und} undecided) agree with the source semantics"
        if n_val + n_err == 0 or n_und == len(paths):
            ob.status = "undecided"
        ob.witness = n_val > 0
    res.add(ob)


def _when_job(job):
    """first-match `when` over overlapping clause lists: the dynamic leg of C07's hand-picked matrices (same machinery)"""
    _, tier, idx, depth, width = job
    from props import c07
    sub = Result("C01", tier, 0, "translation_validation")
    for j, (t, pats) in enumerate(c07.fixed_matrices()):
        if j % 6 == idx:
            c07.check_matrix(sub, f"when/{j}", t, pats, depth, max(width, c07.WIDTH))
    res = Result("C01", tier, 0, "translation_validation")
    for ob in sub.obligations:
        if "/run" in ob.name:
            res.add(ob)
    res.mismatches = sub.mismatches
    res.extra["programs"] = len(res.obligations)
    res.extra["disagreements_checked"] = sub.extra.get("disagreements_checked", 0)
    return res


def _seed_job(job):
    if job[0] == "when":
        return _when_job(job)
    seed, tier, nfns, edepth, depth, width = job
    res = Result("C01", tier, seed, "translation_validation")
    t0 = time.time()
    if seed == "probe":
        fns, allf, src = G.probe_module(width)
    else:
        fns, allf, src = G.make_module(seed, nfns, edepth, width)
    r = U.compile_module(src, "silent", "all", "lib")
    if "Ok" not in r:
        res.add(Obligation(f"gen/{seed}", "undecided", f"generated module rejected: {r['Err'].get('kind')} {r['Err'].get('text', '')[:120]}"))
        return res
    byname = {f["name"]: f for f in r["Ok"]["functions"]}
    n = 0
    for f in fns:
        c = byname.get(f.name)
        if c is None or c.get("skipped") or not c.get("post"):
            continue
        if c.get("gen_panic"):
            vb = Obligation(f"gen/{seed}:{f.name}/crash", "violated", f"compiler panicked: {c['gen_panic'][:200]}")
            vb.finding_key = f"gen/{seed}:{f.name} crash"
            vb.model = {"source": f.show()}
            res.add(vb)
            continue
        check_function(res, f"gen/{seed}:{f.name}", f, allf, c, "post", depth, width)
        n += 1
        if len(res.samples) < 1:
            res.samples.append({"function": f.show()[:600], "result": res.obligations[-1].detail[:160]})
    res.extra["programs"] = n
    log(f"[C01] seed {seed}: {n} functions, {time.time() - t0:.1f}s")
    return res


def run(tier: str, seed: int, only=None) -> Result:
    res = Result("C01", tier, seed, "translation_validation")
    nmods, nfns, edepth = (40, 6, 3) if tier == "quick" else (200, 8, 4)
    depth, width = (3, 2) if tier == "quick" else (4, 3)
    res.assumptions = [
        "uplcsym trusted base (validated against the native evaluator)",
        "reference semantics of the MiniAiken fragment (aikengen/lang.py), written from the language reference",
        f"arguments: values of the declared parameter types with nesting <= {depth}, list lengths <= {width}; integers and byte strings unbounded",
        "PARTIAL: programs outside the generator's grammar (strings, generics beyond Option/List, higher-order functions, mutual recursion, validators) are outside the claim; "
        "the program quantifier is sampled, only the argument quantifier is decided",
    ]
    res.bounds = {"probe suite": "every construct of the fragment once, in isolation, on symbolic parameters (aikengen.gen.probe_functions)", "modules": nmods, "functions/module": nfns, "expression depth": edepth, "data depth": depth, "width": width}
    res.extra["explanation"] = "compiled UPLC of generated typed Aiken functions vs a z3 denotational semantics of the source, for all arguments (z3); models replayed natively"
    res.extra["trusted_base"] = ["uplcsym (symbolic CEK)", "aikengen/lang.py (reference semantics)", "driver drv-lang (real compiler)", "z3 5.1"]
    kf = KnownFindings()
    seeds = ["probe"] + [seed * 1000 + i for i in range(nmods)]
    if only:
        seeds = ["probe"] if only == "probe" else [int(only)]
    jobs = [(s, tier, nfns, edepth, depth, width) for s in seeds]
    if not only or only == "when":
        jobs += [("when", tier, i, depth, width) for i in range(6)]
    if only == "when":
        jobs = [j for j in jobs if j[0] == "when"]
    U.merge(res, U.pmap(_seed_job, jobs))
    res.extra.setdefault("programs", 0)
    res.extra.setdefault("disagreements_checked", 0)
    from props import common_post
    common_post.postprocess(res, kf, replay_fn=lambda ob: (True, "replayed natively and against the reference semantics on the concrete arguments"))
    return res
