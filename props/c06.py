"""C06 Well-typed programs cannot go wrong — engine U, bounded symbolic exploration of compiled programs.

Every compiled corpus function is run on symbolic arguments constrained to be the Data representation of SOME value
of its declared parameter types; z3 is asked whether any path ending in a structural machine error (non-function
application, force of a non-delay, builtin given a constant of the wrong type or a non-constant, unbound variable,
case on a non-constructor / missing branch) is feasible.  A model is replayed natively and must yield one of the
forbidden machine::Error variants there."""
from __future__ import annotations

import json

import z3

from props import ucommon as U
from uplcsym import values as V
from vlib.common import Obligation, Result, KnownFindings, log


def _module_job(job):
    import time
    m_, tier, seed, depth, width, builds = job
    mname, src, kind = m_[:3]
    res = Result("C06", tier, seed, "model_checking")
    t0 = time.time()
    programs = 0
    for level, scope in builds:
        r = U.compile_module(src, level, scope, kind)
        if "Ok" not in r:
            if (level, scope) == builds[0]:
                res.add(Obligation(mname, "undecided", f"corpus module does not compile: {json.dumps(r)[:200]}"))
            continue
        for fi, fn in enumerate(r["Ok"]["functions"]):
            if fn.get("skipped") or not fn.get("post") or not U.passes_natively(fn) or not U.in_chunk(m_, fi):
                continue
            for which in ("post",):  # the program that ships; pre/post discrepancies are C02's business
                if not fn.get(which):
                    continue
                name = f"{mname}:{fn['name']}[{level}/{which}]"
                ob = Obligation(name, "discharged", "")
                try:
                    args, assume = U.sym_args(fn, "typed", depth, width)
                except U.NotRepresentable as e:
                    ob.status, ob.detail = "undecided", str(e)
                    res.add(ob)
                    continue
                paths, stats, _ = U.run_program(fn[which], args, assume)
                programs += 1
                ob.queries, ob.solver_s = stats["queries"], round(stats["solver_s"], 3)
                bad = [p for p in paths if p.outcome[0] == "error" and p.outcome[1] == "structural"]
                und = [p for p in paths if p.outcome[0] == "undecided"]
                confirmed = None
                mism = 0
                for p in bad[:6]:
                    s = z3.SimpleSolver()
                    s.set("timeout", 10000)
                    s.add(*p.pc)
                    if s.check() != z3.sat:
                        continue
                    m = s.model()
                    try:
                        aj = [V.value_to_json(m, a)["con"]["data"] for a in args]
                    except Exception:
                        continue
                    res.extra["disagreements_checked"] = res.extra.get("disagreements_checked", 0) + 1
                    no = U.native_outcome(U.native_apply(fn[which]["term"], aj))
                    if no[0] == "panic" or (no[0] == "error" and no[1] in U.STRUCTURAL_NATIVE):
                        confirmed = (aj, no, p.outcome)
                        break
                    mism += 1
                if confirmed:
                    aj, no, o = confirmed
                    ob.status = "violated"
                    ob.detail = f"structural machine error {no[1]} ({o[2]}) on well-typed argument(s) {json.dumps(aj)[:300]}"
                    ob.model = {"function": fn["name"], "args": aj, "native": no}
                    ob.finding_key = f"{mname}:{fn['name']}[{which}] {no[1]}"
                elif mism:
                    res.mismatches.append(f"{name}: structural-error path not reproduced natively")
                    ob.status, ob.detail = "undecided", "ENCODER-MISMATCH"
                elif und:
                    ob.detail = f"{len(paths)} paths, none structural; {len(und)} undecided ({und[0].outcome[1]})"
                    if len(und) == len(paths):
                        ob.status = "undecided"
                else:
                    ob.detail = f"{len(paths)} paths: " + ", ".join(sorted({p.outcome[0] + (':' + p.outcome[1] if p.outcome[0] == 'error' else '') for p in paths}))
                ob.witness = len(paths) > 0
                res.add(ob)
                if len(res.samples) < 6:
                    res.samples.append({"program": name, "params": [p["type"]["k"] for p in fn["params"]], "result": ob.detail[:160]})
    res.extra["programs"] = programs
    log(f"[C06] {mname}: {programs} programs, {time.time() - t0:.1f}s")
    return res


def validation_obligation(res: Result, tier: str, seed: int):
    """the trusted base of engine U, re-validated on every run: the symbolic CEK machine in concrete mode vs the native evaluator on
    the repository's conformance programs, on random closed terms, and symbolic paths replayed natively (uplcsym/validate.py)"""
    import re
    import subprocess
    import sys
    import time
    from vlib.common import VERIF
    args = ["--limit", "500", "--random", "100", "--symrandom", "30"] if tier == "quick" else ["--random", "300", "--symrandom", "80"]
    t0 = time.time()
    ob = Obligation("uplcsym/validation", "discharged", "")
    try:
        p = subprocess.run([sys.executable, "-m", "uplcsym.validate", "--seed", str(seed)] + args, cwd=VERIF, capture_output=True, text=True, timeout=3600)
        m = re.search(r"VALIDATE conformance ok=(\d+) bad=(\d+) skipped=(\d+) ; random ok=(\d+) bad=(\d+) skipped=(\d+) ; symbolic ok=(\d+) bad=(\d+) skipped=(\d+)", p.stdout)
        if not m:
            ob.status, ob.detail = "undecided", f"validation did not report: {(p.stdout + p.stderr)[-300:]}"
        else:
            cok, cbad, csk, rok, rbad, rsk, sok, sbad, ssk = map(int, m.groups())
            ob.detail = (f"symbolic CEK vs native evaluator: conformance {cok} agree / {cbad} disagree / {csk} skipped (unparsable or unmodelled), "
                         f"random terms {rok}/{rbad}, symbolic paths replayed {sok}/{sbad}")
            res.extra["uplcsym_validation"] = {"conformance_ok": cok, "conformance_bad": cbad, "random_ok": rok, "random_bad": rbad, "symbolic_ok": sok, "symbolic_bad": sbad}
            if cbad or rbad or sbad:
                ob.status = "undecided"
                bad_lines = [l for l in p.stdout.splitlines() if l.startswith("BAD")][:3]
                res.mismatches.append(f"uplcsym disagrees with the native evaluator: {bad_lines}")
            ob.witness = cok > 0
    except Exception as e:  # the validation harness failing is not a verdict about the property
        ob.status, ob.detail = "undecided", f"validation harness failed: {e}"
    ob.solver_s = round(time.time() - t0, 1)
    res.add(ob)


def run(tier: str, seed: int, only=None) -> Result:
    res = Result("C06", tier, seed, "model_checking")
    depth, width = (3, 2) if tier == "quick" else (4, 3)
    builds = [("silent", "all"), ("verbose", "all")] if tier == "quick" else [("silent", "all"), ("verbose", "all"), ("compact", "all")]
    res.assumptions = [
        "uplcsym trusted base (validated against the native evaluator); its error classification follows machine::Error",
        f"arguments: Data representations of values of the declared parameter types, nesting <= {depth}, list/map lengths <= {width}",
        "budget exhaustion is not modelled; the program quantifier is sampled (corpus)",
    ]
    res.bounds = {"data depth": depth, "width": width, "builds": [f"{a}/{b}" for a, b in builds], "which": "optimised programs (what is published and run)"}
    res.extra["explanation"] = "reachability of structural machine errors in compiled programs on well-typed symbolic arguments (z3), models replayed natively"
    res.extra["trusted_base"] = ["uplcsym (symbolic CEK)", "driver drv-lang (real compiler)", "z3 5.1"]
    kf = KnownFindings()
    mods = [m for m in U.corpus(tier, seed) if not only or only in m[0]]
    U.merge(res, U.pmap(_module_job, [(m, tier, seed, depth, width, builds) for m in U.chunked(mods)]))
    validation_obligation(res, tier, seed)
    res.extra.setdefault("programs", 0)
    res.extra.setdefault("disagreements_checked", 0)
    from props import common_post
    common_post.postprocess(res, kf, replay_fn=lambda ob: (True, "replayed natively (driver eval)"))
    return res
