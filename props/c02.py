"""C02 The optimiser never changes what compiler output computes — engine U, translation validation.

For every program the real code generator emits for the corpus (driver drv-lang, hook `verif-hooks`), the
pre-optimisation program and the program returned by aiken_optimize_and_intern are run by the symbolic CEK
machine on the same symbolic argument vector (arbitrary Data: the optimiser may not assume types) and z3 is asked
for an argument on which the outcomes differ (value vs value, value vs abort).  Every model is replayed natively
on both programs before it is reported.
"""
from __future__ import annotations

import json
import time

import z3

from props import ucommon as U
from uplcsym import values as V
from uplcsym.compare import equivalent
from vlib.common import Obligation, Result, KnownFindings, log


def is_const_json(t):
    return isinstance(t, dict) and ("con" in t or ("constr" in t and all(is_const_json(x) for x in t["constr"][1])))


def outcome_class(o):
    if o[0] == "value":
        return "value"
    if o[0] == "error":
        return "error"
    return o[0]


def replay(fn, arg_jsons, a="pre", b="post", lang="v3"):
    """native outcomes of both programs on concrete arguments -> (differs: bool|None, description)"""
    ra = U.native_outcome(U.native_apply(fn[a]["term"], arg_jsons, lang))
    rb = U.native_outcome(U.native_apply(fn[b]["term"], arg_jsons, lang))
    desc = f"{a}: {ra[0]} {json.dumps(ra[1])[:120]} | {b}: {rb[0]} {json.dumps(rb[1])[:120]}"
    if ra[0] == "panic" or rb[0] == "panic":
        return (ra[0] != rb[0]), desc, ra, rb
    if ra[0] != rb[0]:
        return True, desc, ra, rb
    if ra[0] == "error":
        return False, desc, ra, rb
    if is_const_json(ra[1]) and is_const_json(rb[1]):
        return (ra[1] != rb[1]), desc, ra, rb
    return None, desc, ra, rb  # closures: not comparable


def compare_pair(res: Result, kf, name: str, fn: dict, mode: str, depth: int, width: int, a="pre", b="post", prop="C02",
                 sem="E", lang="v3", cls_suffix=""):
    """one obligation: programs fn[a] and fn[b] agree on all arguments (within the bound)"""
    ob = Obligation(name, "discharged", "")
    t0 = time.time()
    try:
        args, assume = U.sym_args(fn, mode, depth, width)
    except U.NotRepresentable as e:
        ob.status, ob.detail = "undecided", str(e)
        res.add(ob)
        return ob
    pa, sa, _ = U.run_program(fn[a], args, assume, sem)
    pb, sb, _ = U.run_program(fn[b], args, assume, sem)
    rep = equivalent(pa, pb, args=args)
    ob.queries = sa["queries"] + sb["queries"] + rep.queries
    ob.solver_s = round(sa["solver_s"] + sb["solver_s"], 3)
    und_paths = [p for p in pa + pb if p.outcome[0] == "undecided"]
    confirmed = []
    mismatches = 0
    for dis in rep:
        arg_jsons = dis.get("args")
        if not arg_jsons or any(isinstance(x, dict) and "not_concrete" in x for x in arg_jsons):
            continue
        aj = [x["con"]["data"] if isinstance(x, dict) and "con" in x and "data" in x["con"] else x for x in arg_jsons]
        differs, desc, ra, rb = replay(fn, aj, a, b, lang)
        res.extra["disagreements_checked"] = res.extra.get("disagreements_checked", 0) + 1
        if differs:
            cls = f"{a}={ra[0]}{':' + str(ra[1]) if ra[0] == 'error' else ''} {b}={rb[0]}{':' + str(rb[1]) if rb[0] == 'error' else ''}"
            confirmed.append((cls, aj, desc))
        elif differs is False:
            mismatches += 1
    if confirmed:
        # one violated obligation per distinct class of disagreement
        seen = set()
        for cls, aj, desc in confirmed:
            if cls in seen:
                continue
            seen.add(cls)
            vb = Obligation(f"{name}/{cls}", "violated", f"programs disagree natively on {json.dumps(aj)[:300]}: {desc}")
            vb.model = {"function": fn["name"], "args": aj, "native": desc, "a": a, "b": b}
            vb.finding_key = f"{name} {cls}{cls_suffix}"
            res.add(vb)
        ob.detail = f"{len(seen)} class(es) of disagreement reported separately; "
    if not fn.get("params") and fn.get("kind") != "validator" and not confirmed and (und_paths or rep.undecided or not rep.pairs):
        # closed program the symbolic machine cannot decide (unmodelled builtin, closures): there is no argument quantifier,
        # so both programs are simply run natively
        differs, desc, ra, rb = replay(fn, [], a, b, lang)
        res.extra["disagreements_checked"] = res.extra.get("disagreements_checked", 0) + 1
        if differs:
            cls = f"{a}={ra[0]}{':' + str(ra[1]) if ra[0] == 'error' else ''} {b}={rb[0]}{':' + str(rb[1]) if rb[0] == 'error' else ''}"
            vb = Obligation(f"{name}/{cls}", "violated", f"closed programs evaluate differently: {desc}")
            vb.model = {"function": fn["name"], "args": [], "native": desc, "a": a, "b": b}
            vb.finding_key = f"{name} {cls}{cls_suffix}"
            res.add(vb)
            ob.detail = "closed program: native outcomes differ (reported separately)"
            res.add(ob)
            return ob
        if differs is False:
            ob.detail = f"closed program outside the symbolic machine's model: native outcomes agree ({desc[:120]})"
            ob.witness = True
            res.add(ob)
            return ob
    if mismatches and not confirmed:
        res.mismatches.append(f"{name}: {mismatches} solver model(s) did not reproduce natively")
        ob.status, ob.detail = "undecided", "ENCODER-MISMATCH: symbolic disagreement not reproduced natively"
    elif und_paths or rep.undecided:
        why = und_paths[0].outcome[1] if und_paths else str(rep.undecided[0].get("reason", "undecided pair"))[:120] + " " + str(rep.undecided[0].get("outcomes"))[:120]
        # decided on the explored part only
        ob.detail += f"paths {a}={len(pa)} {b}={len(pb)}, joint pairs {rep.pairs}, agreed {rep.agreed}; {len(und_paths)} path(s)/{len(rep.undecided)} pair(s) undecided ({why})"
        if rep.agreed == 0:
            ob.status = "undecided"
    else:
        ob.detail += f"paths {a}={len(pa)} {b}={len(pb)}, joint pairs {rep.pairs}, all agree"
    ob.witness = rep.pairs > 0
    res.add(ob)
    return ob


def _module_job(job):
    m_, tier, seed, depth, width = job
    mname, src, kind = m_[:3]
    res = Result("C02", tier, seed, "translation_validation")
    kf = None
    t0 = time.time()
    r = U.compile_module(src, "silent", "all", kind)
    if "Ok" not in r:
        res.add(Obligation(f"{mname}", "undecided", f"corpus module does not compile: {json.dumps(r)[:200]}"))
        return res
    programs = 0
    job_budget = 420 if tier == "quick" else 1500
    for fi, fn in enumerate(r["Ok"]["functions"]):
        if fn.get("skipped") or not U.in_chunk(m_, fi):
            continue
        name = f"{mname}:{fn['name']}"
        if time.time() - t0 > job_budget:
            res.add(Obligation(name, "undecided", f"job time budget ({job_budget} s) exhausted before this program pair"))
            continue
        if fn.get("gen_panic"):
            vb = Obligation(name + "/crash", "violated", f"code generation / optimiser panicked: {fn['gen_panic'][:300]}")
            vb.finding_key = f"{name} crash"
            vb.model = {"module": mname, "function": fn["name"]}
            res.add(vb)
            continue
        if not fn.get("pre") or not fn.get("post"):
            res.add(Obligation(name, "undecided", f"no program pair: {fn.get('pre_err') or fn.get('post_err')}"))
            continue
        if not U.passes_natively(fn):
            continue
        programs += 1
        ob = compare_pair(res, kf, name + "[typed]", fn, "typed", depth + 1, width)
        if fn["params"]:
            compare_pair(res, kf, name + "[anydata]", fn, "anydata", depth, width)
        if len(res.samples) < 2:
            res.samples.append({"program": name, "params": [p["type"]["k"] for p in fn["params"]], "result": ob.detail[:160]})
    res.extra["programs"] = programs
    log(f"[C02] {mname}{'#%d' % m_[3] if len(m_) > 3 and m_[4] > 1 else ''}: {programs} programs, {time.time() - t0:.1f}s")
    return res


def run(tier: str, seed: int, only=None) -> Result:
    res = Result("C02", tier, seed, "translation_validation")
    depth, width = (2, 2) if tier == "quick" else (3, 3)
    res.assumptions = [
        "uplcsym trusted base: symbolic CEK machine + builtin models (validated against the native evaluator: uplcsym/validate.py)",
        f"[typed] arguments: Data representations of values of the declared parameter types (nesting <= {depth + 1}, lengths <= {width}); "
        f"[anydata] arguments: arbitrary Data with nesting depth <= {depth} and list/map/field counts <= {width}",
        "programs come from the corpus (hand-written stress modules + single-file acceptance projects): the program quantifier is sampled, the argument quantifier is decided by z3",
        "results that are closures are compared only when their read-back terms coincide; budget is not modelled",
    ]
    res.bounds = {"data depth": depth, "width": width, "steps/path": 20000, "paths/program": 400}
    res.extra["explanation"] = "pre- vs post-optimisation programs of the real compiler compared for all arguments by symbolic execution (z3), disagreements replayed natively"
    res.extra["trusted_base"] = ["uplcsym (symbolic CEK)", "driver drv-lang (real parser/type checker/code generator/optimiser)", "z3 5.1"]
    kf = KnownFindings()
    mods = [m for m in U.corpus(tier, seed) if not only or only in m[0]]
    U.merge(res, U.pmap(_module_job, [(m, tier, seed, depth, width) for m in U.chunked(mods)]))
    res.extra.setdefault("programs", 0)
    res.extra.setdefault("disagreements_checked", 0)
    from props import common_post
    common_post.postprocess(res, kf, replay_fn=lambda ob: (True, "replayed natively on both programs (driver eval)"))
    return res
