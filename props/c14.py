"""C14 Trace settings never change what a program decides — engine U, translation validation.

Every corpus module is type-checked and compiled by the real compiler under the trace levels silent / compact /
verbose and the scopes all / user-defined / compiler-generated; each variant's (optimised) program is compared with
the silent build on the same symbolic arguments.  Traces themselves are not compared."""
from __future__ import annotations

import json

from props import ucommon as U
from props.c02 import compare_pair
from vlib.common import Obligation, Result, KnownFindings, log

VARIANTS_Q = [("verbose", "all")]
VARIANTS_T = [("verbose", "all"), ("compact", "all"), ("verbose", "user"), ("verbose", "compiler"), ("compact", "user"), ("compact", "compiler"),
              ("silent", "user"), ("silent", "compiler")]


def _module_job(job):
    import time
    m_, tier, seed, depth, width, variants = job
    mname, src, kind = m_[:3]
    res = Result("C14", tier, seed, "translation_validation")
    kf = None
    t0 = time.time()
    job_budget = 420 if tier == "quick" else 1500
    programs = 0
    base = U.compile_module(src, "silent", "all", kind)
    if "Ok" not in base:
        res.add(Obligation(mname, "undecided", f"corpus module does not compile: {json.dumps(base)[:200]}"))
        return res
    bfns = {f["name"]: f for f in base["Ok"]["functions"]}
    for level, scope in variants:
        r = U.compile_module(src, level, scope, kind)
        if "Ok" not in r:
            vb = Obligation(f"{mname}[{level}/{scope}]/compile", "violated", f"module compiles silently but not under {level}/{scope}: {json.dumps(r)[:200]}")
            vb.finding_key = f"{mname} compile {level}/{scope}"
            res.add(vb)
            continue
        for fi, fn in enumerate(r["Ok"]["functions"]):
            if not U.in_chunk(m_, fi):
                continue
            if time.time() - t0 > job_budget:
                # the wall-clock budget of this job is spent: what is left is reported as undecided, never as passed
                res.add(Obligation(f"{mname}:{fn['name']}[{level}/{scope}]", "undecided", f"job time budget ({job_budget} s) exhausted before this comparison"))
                continue
            b = bfns.get(fn["name"])
            if b is None or fn.get("skipped") or not fn.get("post") or not b.get("post") or not U.passes_natively(fn):
                continue
            if fn.get("gen_panic"):
                vb = Obligation(f"{mname}:{fn['name']}[{level}/{scope}]/crash", "violated", f"compiler panicked under {level}/{scope}: {fn['gen_panic'][:200]}")
                vb.finding_key = f"{mname}:{fn['name']} crash {level}/{scope}"
                res.add(vb)
                continue
            pair = dict(fn)
            pair["silent"] = b["post"]
            pair["traced"] = fn["post"]
            programs += 1
            name = f"{mname}:{fn['name']}[{level}/{scope}]"
            ob = compare_pair(res, kf, name + "[typed]", pair, "typed", depth + 1, width, a="silent", b="traced")
            if fn["params"] and tier != "quick" and (level, scope) == ("verbose", "all") and mname.startswith("corpus/"):
                compare_pair(res, kf, name + "[anydata]", pair, "anydata", depth, width, a="silent", b="traced")
            if len(res.samples) < 2:
                res.samples.append({"program": name, "result": ob.detail[:160]})
    res.extra["programs"] = programs
    log(f"[C14] {mname}: {programs} program pairs, {time.time() - t0:.1f}s")
    return res


def run(tier: str, seed: int, only=None) -> Result:
    res = Result("C14", tier, seed, "translation_validation")
    if tier != "quick":
        # eight variants per program: a shorter wall-clock budget per exploration (programs that print values in traces run the
        # compiler-generated diagnostic printer symbolically and exhaust any budget; they end as undecided either way)
        import os
        os.environ.setdefault("VERIF_EXPLORE_DEADLINE", "100")
    depth, width = (2, 3) if tier == "quick" else (3, 3)
    variants = VARIANTS_Q if tier == "quick" else VARIANTS_T
    res.assumptions = [
        "uplcsym trusted base (validated against the native evaluator)",
        f"[typed] arguments: representations of values of the declared types (nesting <= {depth + 1}, lengths <= {width}); [anydata]: arbitrary Data (depth <= {depth}, width <= {width})",
        "the program quantifier is sampled (corpus); the argument quantifier is decided by z3; traces are ignored by construction",
    ]
    res.bounds = {"data depth": depth, "width": width, "variants": [f"{l}/{s}" for l, s in variants], "baseline": "silent/all",
                  "thorough": "all variants on corpus/*.ak (typed; arbitrary Data for verbose/all), verbose/all and compact/all on the acceptance projects (typed)"}
    res.extra["explanation"] = "programs compiled under different Tracing settings compared for all arguments by symbolic execution (z3), disagreements replayed natively"
    res.extra["trusted_base"] = ["uplcsym (symbolic CEK)", "driver drv-lang (real compiler)", "z3 5.1"]
    kf = KnownFindings()
    mods = [m for m in U.corpus(tier, seed) if not only or only in m[0]]
    # thorough: every level x scope on the hand-written corpus (where the tracing-sensitive constructs are), the two levels with all
    # traces on the whole acceptance corpus
    jobs = [(m, tier, seed, depth, width, variants if (tier == "quick" or m[0].startswith("corpus/")) else variants[:2]) for m in U.chunked(mods)]
    U.merge(res, U.pmap(_module_job, jobs))
    res.extra.setdefault("programs", 0)
    res.extra.setdefault("disagreements_checked", 0)
    from props import common_post
    common_post.postprocess(res, kf, replay_fn=lambda ob: (True, "replayed natively on both programs (driver eval)"))
    return res
