"""C07 Pattern matching is exhaustive when accepted and first-match when run — engine U + z3 reference matcher.

Clause lists (a pattern matrix) are generated for a fixed set of scrutinee types and handed to the REAL type checker
(driver `compile`: parser -> infer -> check_exhaustiveness).  Its verdict is compared with a z3 decision over ALL values
of the scrutinee's type (symbolic Data value constrained by the type's representation predicate):

  static  V1  accepted                     => no value escapes every clause, and every clause is reachable
          V2  NotExhaustivePatternMatch    => some value escapes every clause (the rejection is justified), and every
                                              reported missing pattern contains such a value (is a genuine witness)
          V3  RedundantMatchClause(i)      => no value reaches clause i (matches p_i and none of p_1..p_{i-1})
  dynamic V4  for accepted matrices the compiled `when` (real code generator + optimiser) is run by the symbolic CEK
              machine on a symbolic scrutinee; z3 decides that the result is the body of the FIRST matching clause with
              every pattern variable bound to the corresponding sub-value (bodies encode clause index and bindings).

Small-model argument for the value bound: a pattern of depth d inspects at most d constructor levels, and a list
pattern with k element patterns distinguishes lists only up to length k+1; the bound used (depth, width) exceeds both
for every generated matrix, so the static verdicts are exact for the generated matrices, not merely bounded."""
from __future__ import annotations

import itertools
import json
import random
import re
import time

import z3

from aikengen import lang as L
from aikengen.lang import PVar, PDiscard, PInt, PCtor, PTuple, PList, PAs, PBytes, PRec, E, INT, BOOL, BYTES
from props import ucommon as U
from props import c01 as C01
from uplcsym import values as V
from vlib.common import Obligation, Result, KnownFindings, log

Data, DataList = V.Data, V.DataList

TYPES = [
    L.t_adt("Colour"), L.t_adt("Shape"), L.t_adt("Wrap"), L.t_adt("Acc"), BOOL, INT, BYTES,
    L.t_opt(INT), L.t_opt(L.t_adt("Colour")), L.t_opt(L.t_tuple(INT, L.t_adt("Colour"))),
    L.t_tuple(INT, BOOL), L.t_tuple(L.t_adt("Colour"), L.t_opt(INT)), L.t_tuple(BOOL, BOOL, L.t_adt("Colour")),
    L.t_list(INT), L.t_list(L.t_adt("Colour")), L.t_list(L.t_opt(INT)), L.t_list(L.t_tuple(INT, BOOL)),
    L.t_opt(L.t_list(INT)),
]

MAX_LIST_PAT = 3
DEPTH, WIDTH = 5, MAX_LIST_PAT + 1


# ------------------------------------------------------------------------------------------------ pattern generation


class PatGen:
    def __init__(self, rnd):
        self.r = rnd
        self.n = 0

    def fresh(self):
        self.n += 1
        return f"v{self.n}"

    def pat(self, t, d):
        r = self.r
        x = r.random()
        if d <= 0 or x < 0.22:
            return PDiscard() if r.random() < 0.5 else PVar(self.fresh())
        k = t[0]
        if x > 0.93:
            return PAs(self.pat_struct(t, d), self.fresh())
        return self.pat_struct(t, d)

    def pat_struct(self, t, d):
        r = self.r
        k = t[0]
        if k == "int":
            return PInt(r.choice([0, 1, 2, -1]))
        if k == "bytes":
            return PBytes(r.choice([b"", b"\x00", b"ab"]))
        if k == "bool":
            return PCtor(r.choice(["True", "False"]), [])
        if k == "tuple":
            return PTuple([self.pat(st, d - 1) for st in t[1]])
        if k == "list":
            n = r.choice([0, 1, 1, 2, 2, MAX_LIST_PAT])
            tail = r.choice([None, None, PDiscard(), PVar(self.fresh())]) if n else None
            return PList([self.pat(t[1], d - 1) for _ in range(n)], tail)
        cs = L.ctors_of(t)
        name, fts = r.choice(cs)
        if k == "adt":
            decl = L.ADTS[t[1]]
            c = [c for c in decl.ctors if c.name == name][0]
            if c.fields and all(l is not None for l, _ in c.fields) and r.random() < 0.5:
                # record syntax with a subset of the labels
                chosen = [f for f in c.fields if r.random() < 0.6]
                spread = len(chosen) < len(c.fields)
                fields = []
                for l, ft in chosen:
                    fields.append((l, None) if r.random() < 0.3 else (l, self.pat(ft, d - 1)))
                if not fields and not spread:
                    spread = True
                return PRec(name, fields, spread)
        return PCtor(name, [self.pat(ft, d - 1) for ft in fts])


def refutable_variants(t, d):
    """deterministic enumeration of patterns of depth <= d for type t (small alphabet), for the thorough tier"""
    out = [PDiscard()]
    if d <= 0:
        return out
    k = t[0]
    if k == "int":
        return out + [PInt(0), PInt(1)]
    if k == "bytes":
        return out + [PBytes(b""), PBytes(b"\x00")]
    if k == "bool":
        return out + [PCtor("True", []), PCtor("False", [])]
    if k == "tuple":
        subs = [refutable_variants(st, d - 1) for st in t[1]]
        return out + [PTuple(list(c)) for c in itertools.product(*subs)]
    if k == "list":
        sub = refutable_variants(t[1], d - 1)
        res = out + [PList([], None)]
        for n in (1, 2):
            for c in itertools.product(sub, repeat=n):
                res.append(PList(list(c), None))
                res.append(PList(list(c), PDiscard()))
        return res
    res = list(out)
    for name, fts in L.ctors_of(t):
        subs = [refutable_variants(ft, d - 1) for ft in fts]
        for c in itertools.product(*subs):
            res.append(PCtor(name, list(c)))
    return res


def rename_vars(p, counter):
    """give every variable of a pattern a fresh name (enumerated patterns carry none)"""
    return p


# ------------------------------------------------------------------------------------------------ bodies


def body_for(i, binds_types):
    """expression observing the clause index and every Int/Bool variable bound by the clause"""
    e = L.lit_int((i + 1) * 100000)
    w = 1
    for name, t in binds_types:
        if t == INT:
            e = E("bin", INT, (e, E("bin", INT, (L.var(name, INT), L.lit_int(w)), "*")), "+")
            w *= 7
        elif t == BOOL:
            e = E("bin", INT, (e, E("if", INT, (L.var(name, BOOL), L.lit_int(w * 3), L.lit_int(0)))), "+")
            w *= 7
    return e


def binder_types(p, t, out):
    if isinstance(p, PVar):
        out.append((p.name, t))
    elif isinstance(p, PAs):
        out.append((p.name, t))
        binder_types(p.pat, t, out)
    elif isinstance(p, PTuple):
        for sp, st in zip(p.args, t[1]):
            binder_types(sp, st, out)
    elif isinstance(p, PList):
        for sp in p.elems:
            binder_types(sp, t[1], out)
        if isinstance(p.tail, PVar):
            out.append((p.tail.name, t))
    elif isinstance(p, PCtor):
        if t[0] == "bool":
            return
        fts = dict(L.ctors_of(t))[p.name]
        for sp, ft in zip(p.args, fts):
            binder_types(sp, ft, out)
    elif isinstance(p, PRec):
        decl = L.ADTS[t[1]]
        c = [c for c in decl.ctors if c.name == p.name][0]
        fts = dict(c.fields)
        for l, sp in p.fields:
            if sp is None:
                out.append((l, fts[l]))
            else:
                binder_types(sp, fts[l], out)


def make_fn(name, t, pats):
    clauses = []
    for i, p in enumerate(pats):
        bt = []
        binder_types(p, t, bt)
        clauses.append((p, body_for(i, bt)))
    return L.Fn(name, [("x", t)], INT, E("when", INT, (L.var("x", t),), clauses))


ALIASES = {"Some": "Just", "None": "Nothing"}


def source_of(fn, alias=False):
    """module text + byte spans of every clause pattern (to identify the clause a diagnostic points at).
    alias=True: the Option constructors are imported under other names (`use aiken.{Some as Just, None as Nothing}`) and
    the patterns use those names - the checker must see through the alias."""
    types = "\n".join(d.show() for d in L.ADTS.values())
    use = "use aiken.{Some as Just, None as Nothing}\n\n" if alias else ""
    head = f"{use}{types}\n\npub fn {fn.name}(x: {L.show_type(fn.params[0][1])}) -> Int {{\n  when x is {{\n"
    out = head
    spans = []
    for p, body in fn.body.extra:
        out += "    "
        start = len(out.encode())
        ptxt = p.show()
        if alias:
            ptxt = re.sub(r"\bSome\b", "Just", re.sub(r"\bNone\b", "Nothing", ptxt))
        out += ptxt
        spans.append((start, start + len(ptxt.encode())))
        out += " -> {\n      " + L.show(body, 3) + "\n    }\n"
    out += "  }\n}\n"
    return out, spans


# ------------------------------------------------------------------------------------------------ missing-pattern reader


class PatParseError(Exception):
    pass


def parse_missing(txt, t):
    """reads the checker's pretty-printed missing pattern back into a pattern of type t"""
    toks = re.findall(r"\.\.|[A-Za-z_][A-Za-z_0-9]*|-?\d+|#\"[0-9a-f]*\"|[()\[\]{},:]", txt)
    pos = [0]

    def peek():
        return toks[pos[0]] if pos[0] < len(toks) else None

    def eat(x=None):
        tk = peek()
        if tk is None or (x is not None and tk != x):
            raise PatParseError(f"expected {x} at {pos[0]} in {txt!r}")
        pos[0] += 1
        return tk

    def pat(t):
        tk = peek()
        if tk == "_":
            eat()
            return PDiscard()
        if tk == "(":
            eat("(")
            if t[0] != "tuple":
                raise PatParseError(f"tuple pattern for non-tuple type in {txt!r}")
            items = []
            for i, st in enumerate(t[1]):
                if i:
                    eat(",")
                items.append(pat(st))
            eat(")")
            return PTuple(items)
        if tk == "[":
            eat("[")
            if t[0] != "list":
                raise PatParseError(f"list pattern for non-list type in {txt!r}")
            elems, tail = [], None
            while peek() != "]":
                if elems or tail is not None:
                    eat(",")
                if peek() == "..":
                    eat("..")
                    tail = PDiscard()
                else:
                    elems.append(pat(t[1]))
            eat("]")
            return PList(elems, tail)
        if tk is not None and re.match(r"-?\d+$", tk):
            eat()
            return PInt(int(tk))
        if tk is not None and tk.startswith('#"'):
            eat()
            return PBytes(bytes.fromhex(tk[2:-1]))
        if tk is not None and re.match(r"[A-Z]", tk):
            name = eat()
            name = {v: k for k, v in ALIASES.items()}.get(name, name) if name not in dict(L.ctors_of(t) if t[0] in ("adt", "option", "bool") else []) else name
            if t[0] == "bool":
                return PCtor(name, [])
            cs = dict(L.ctors_of(t))
            if name not in cs:
                raise PatParseError(f"constructor {name} does not belong to {L.show_type(t)} in {txt!r}")
            fts = cs[name]
            if peek() == "(":
                eat("(")
                args = []
                for i, ft in enumerate(fts):
                    if i:
                        eat(",")
                    args.append(pat(ft))
                eat(")")
                return PCtor(name, args)
            if peek() == "{":
                eat("{")
                decl = L.ADTS[t[1]]
                c = [c for c in decl.ctors if c.name == name][0]
                labels = dict(c.fields)
                fields, spread = [], False
                while peek() != "}":
                    if fields or spread:
                        eat(",")
                    if peek() == "..":
                        eat("..")
                        spread = True
                        continue
                    l = eat()
                    if l not in labels:
                        raise PatParseError(f"unknown field {l} in {txt!r}")
                    if peek() == ":":
                        eat(":")
                        fields.append((l, pat(labels[l])))
                    else:
                        fields.append((l, PDiscard()))
                eat("}")
                return PRec(name, fields, spread)
            if fts:
                raise PatParseError(f"constructor {name} printed without its {len(fts)} fields in {txt!r}")
            return PCtor(name, [])
        raise PatParseError(f"cannot read {txt!r}")

    p = pat(t)
    if peek() is not None:
        raise PatParseError(f"trailing input in {txt!r}")
    return p


# ------------------------------------------------------------------------------------------------ z3 side


def decide(t, pats, timeout_ms=20000):
    """-> dict(exhaustive: bool|None, escape: model json|None, reach: [bool|None], stats)"""
    x = V.sym_data("x")
    conf = L.conforms_ty(t, x.v, DEPTH, WIDTH)
    xv = L.from_data(t, x.v)
    ms = [L.match(p, t, xv, {}) for p in pats]
    q, st = 0, 0.0

    def chk(*cs):
        nonlocal q, st
        s = z3.SimpleSolver()
        s.set("timeout", timeout_ms)
        s.add(conf, *cs)
        t0 = time.time()
        r = s.check()
        st += time.time() - t0
        q += 1
        return r, (s.model() if r == z3.sat else None)

    r, m = chk(*[z3.Not(c) for c in ms])
    exhaustive = None if r == z3.unknown else (r == z3.unsat)
    escape = None
    if m is not None:
        try:
            escape = V.value_to_json(m, x)["con"]["data"]
        except Exception:
            escape = None
    reach = []
    for i in range(len(pats)):
        r, _ = chk(ms[i], *[z3.Not(c) for c in ms[:i]])
        reach.append(None if r == z3.unknown else (r == z3.sat))
    return dict(exhaustive=exhaustive, escape=escape, reach=reach, queries=q, solver_s=st, x=x, conf=conf, xv=xv, ms=ms, chk=chk)


def check_matrix(res, name, t, pats, depth, width, run_dynamic=True, alias=False):
    fn = make_fn("wfn", t, pats)
    src, spans = source_of(fn, alias)
    r = U.compile_module(src, "silent", "all", "lib")
    d = decide(t, pats)
    ob = Obligation(name, "discharged", "")
    desc = f"when x: {L.show_type(t)} is {{ " + " | ".join(p.show() for p in pats) + " }"
    ob.model = None

    def violated(what, key, extra=None):
        ob.status = "violated"
        ob.detail = f"{what}; {desc}"
        ob.model = {"source": src, "type": L.show_type(t), "clauses": [p.show() for p in pats], **(extra or {})}
        ob.finding_key = key

    if d["exhaustive"] is None or any(x is None for x in d["reach"]):
        ob.status, ob.detail = "undecided", "solver timeout on the reference matcher"
    elif "Ok" in r:
        first_unreach = next((i for i, x in enumerate(d["reach"]) if not x), None)
        if not d["exhaustive"]:
            violated(f"checker ACCEPTS a non-exhaustive match: value {json.dumps(d['escape'])} is matched by no clause", f"accepts-nonexhaustive {L.show_type(t)}", {"escaping_value": d["escape"]})
        elif first_unreach is not None:
            violated(f"checker accepts although clause {first_unreach} ({pats[first_unreach].show()}) can never be reached", f"accepts-redundant {L.show_type(t)}")
        else:
            ob.detail = f"accepted; z3: exhaustive, all {len(pats)} clauses reachable"
    else:
        e = r["Err"]
        kind = e.get("kind")
        if kind == "NotExhaustivePatternMatch":
            if d["exhaustive"]:
                violated(f"checker REJECTS an exhaustive match as non-exhaustive (reports {e.get('unmatched')})", f"rejects-exhaustive {L.show_type(t)}")
            else:
                bad = None
                for u in e.get("unmatched") or []:
                    try:
                        up = parse_missing(u, t)
                    except PatParseError as pe:
                        bad = (u, f"reported missing pattern is not a pattern of the scrutinee's type: {pe}")
                        break
                    um = L.match(up, t, d["xv"], {})
                    rr, _ = d["chk"](um, *[z3.Not(c) for c in d["ms"]])
                    if rr == z3.unsat:
                        bad = (u, "every value of the reported missing pattern is matched by some clause")
                        break
                    if rr == z3.unknown:
                        ob.status, ob.detail = "undecided", "solver timeout on a missing-pattern query"
                if bad:
                    violated(f"reported missing pattern {bad[0]!r} is wrong: {bad[1]}", f"bad-missing-pattern {L.show_type(t)}", {"unmatched": e.get("unmatched")})
                elif ob.status == "discharged":
                    if not e.get("unmatched"):
                        violated("non-exhaustive match rejected without any missing pattern", f"no-missing-pattern {L.show_type(t)}")
                    else:
                        ob.detail = f"rejected (missing {e.get('unmatched')}); z3: value {json.dumps(d['escape'])[:80]} escapes, every reported pattern contains an unmatched value"
        elif kind == "RedundantMatchClause":
            m = re.search(r"redundant: (\d+)\.\.(\d+)", e.get("debug", ""))
            idx = None
            if m:
                a, b = int(m.group(1)), int(m.group(2))
                for i, (s0, s1) in enumerate(spans):
                    if s0 <= a and b <= s1:
                        idx = i
            if idx is None:
                ob.status, ob.detail = "undecided", f"cannot map the diagnostic's span to a clause: {e.get('debug', '')[:100]}"
            elif d["reach"][idx]:
                violated(f"clause {idx} ({pats[idx].show()}) is reported unreachable but a value reaches it", f"reports-reachable-as-redundant {L.show_type(t)}")
            else:
                ob.detail = f"rejected (clause {idx} redundant); z3: no value reaches it"
        else:
            ob.status, ob.detail = "undecided", f"generated module rejected for another reason: {kind} {e.get('text', '')[:100]}"
    ob.queries, ob.solver_s = d["queries"], round(d["solver_s"], 3)
    ob.witness = True
    res.add(ob)
    res.extra["matrices"] = res.extra.get("matrices", 0) + 1
    # dynamic leg
    if run_dynamic and "Ok" in r and ob.status == "discharged":
        c = [f for f in r["Ok"]["functions"] if f["name"] == "wfn"]
        if c and c[0].get("gen_panic"):
            vb = Obligation(name + "/run/crash", "violated", f"code generator panicked on an accepted match: {c[0]['gen_panic'][:200]}; {desc}")
            vb.finding_key = f"codegen-crash {L.show_type(t)}"
            vb.model = {"source": src}
            res.add(vb)
        elif c and c[0].get("post"):
            C01.check_function(res, name + "/run", fn, {}, c[0], "post", depth, width)
            last = res.obligations[-1]
            if last.status == "violated":
                last.finding_key = f"first-match {L.show_type(t)} " + " | ".join(p.show() for p in pats)
            res.extra["programs"] = res.extra.get("programs", 0) + 1
    return ob


# ------------------------------------------------------------------------------------------------ matrices


def random_matrix(rnd, t):
    g = PatGen(rnd)
    n = rnd.choice([1, 2, 2, 3, 3, 4, 5])
    pats = [g.pat_struct(t, 3) if rnd.random() < 0.8 else g.pat(t, 3) for _ in range(n)]
    x = rnd.random()
    if x < 0.45:
        pats.append(PDiscard() if rnd.random() < 0.6 else PVar(g.fresh()))  # often make it exhaustive
    elif x < 0.6 and t[0] in ("adt", "option", "bool"):
        # complete the constructor set with wildcard arguments
        have = {p.name for p in pats if isinstance(p, (PCtor, PRec))}
        for nme, fts in L.ctors_of(t):
            if nme not in have:
                pats.append(PCtor(nme, [PDiscard() for _ in fts]))
    return pats


def _job(job):
    kind, tier, seed, idx, depth, width = job
    res = Result("C07", tier, seed, "model_checking")
    t0 = time.time()
    if kind == "random":
        rnd = random.Random(seed * 7919 + idx)
        for j in range(8):
            t = rnd.choice(TYPES)
            pats = random_matrix(rnd, t)
            check_matrix(res, f"rnd/{seed}.{idx}.{j}", t, pats, depth, width, alias=("option" in str(t) and rnd.random() < 0.5))
    elif kind == "fixed":
        for j, (t, pats) in enumerate(fixed_matrices()):
            if j % 8 == idx:
                check_matrix(res, f"fixed/{j}", t, pats, depth, width)
                if "option" in str(t):
                    check_matrix(res, f"fixed/{j}/aliased", t, pats, depth, width, alias=True)
    else:  # exhaustive enumeration for one type (thorough)
        t = TYPES[idx]
        alpha = refutable_variants(t, 2)
        rnd = random.Random(seed + idx)
        if len(alpha) > 14:
            alpha = [alpha[0]] + rnd.sample(alpha[1:], 13)
        n = 0
        for k in (1, 2, 3):
            for combo in itertools.product(alpha, repeat=k):
                n += 1
                check_matrix(res, f"enum/{L.show_type(t)}/{n}", t, list(combo), depth, width, run_dynamic=(n % 5 == 0))
    log(f"[C07] {kind} {idx}: {len(res.obligations)} obligations, {time.time() - t0:.1f}s")
    return res


def fixed_matrices():
    """hand-picked matrices around the known hard spots of Maranget-style algorithms"""
    C, S, W = L.t_adt("Colour"), L.t_adt("Shape"), L.t_adt("Wrap")
    d, v = PDiscard, PVar
    red, green, blue = PCtor("Red", []), PCtor("Green", []), PCtor("Blue", [])
    T, F = PCtor("True", []), PCtor("False", [])
    li = L.t_list(INT)
    out = [
        (C, [red, green, blue]), (C, [red, green]), (C, [red, d(), blue]), (C, [red, green, blue, d()]),
        (S, [PCtor("Circle", [PInt(0)]), PCtor("Rect", [d(), PInt(1)])]),
        (S, [PCtor("Circle", [d()]), PRec("Rect", [("w", PInt(1))], True), PCtor("Tri", [d(), d(), d()]), PCtor("Rect", [d(), d()])]),
        (S, [PRec("Rect", [("h", None), ("w", None)], False), d()]),
        (W, [PCtor("W", [PCtor("Some", [PInt(1)])]), PCtor("W", [d()]), PCtor("V", [PCtor("Circle", [d()]), red]), PCtor("V", [d(), d()]), PCtor("Z", [])]),
        (W, [PCtor("W", [PCtor("None", [])]), PCtor("V", [d(), d()]), PCtor("Z", []), PCtor("W", [PCtor("Some", [v("n")])])]),
        (li, [PList([], None), PList([PInt(1), PInt(2)], None), PList([d(), d(), d()], d())]),
        (li, [PList([], None), PList([d()], None), PList([d(), d()], d())]),
        (li, [PList([v("a")], v("r")), PList([], None)]),
        (li, [PList([d()], d()), PList([d(), d()], None), PList([], None)]),
        (li, [PList([PInt(0)], d()), PList([d(), PInt(0)], d()), PList([d()], None), PList([], None), PList([d(), d()], d())]),
        (L.t_list(C), [PList([red], d()), PList([d()], None), PList([], None), PList([d(), d()], d())]),
        # tails of decreasing / increasing / mixed length (fixed defect 13cb7ad)
        (li, [PList([d(), PInt(0)], d()), PList([d()], d()), d()]),
        (li, [PList([d(), d(), PInt(3)], v("r3")), PList([d(), PInt(2)], v("r2")), PList([PInt(1)], v("r1")), d()]),
        (li, [PList([PInt(1)], d()), PList([d(), PInt(2)], d()), PList([d(), d(), PInt(3)], d()), d()]),
        (li, [PList([d(), PInt(2)], d()), PList([d(), d(), d(), PInt(4)], d()), PList([PInt(1)], d()), PList([d(), d(), PInt(3)], None), d()]),
        (L.t_tuple(INT, BOOL), [PTuple([PInt(1), T])]), (L.t_tuple(INT, BOOL), [PTuple([PInt(1), T]), PTuple([d(), F]), PTuple([d(), T])]),
        (L.t_tuple(BOOL, BOOL, C), [PTuple([T, d(), red]), PTuple([d(), F, d()]), PTuple([F, T, d()]), PTuple([T, T, green]), PTuple([T, T, blue])]),
        (L.t_tuple(BOOL, BOOL, C), [PTuple([T, d(), red]), PTuple([d(), F, d()]), PTuple([F, T, d()]), PTuple([T, T, green])]),
        (L.t_opt(L.t_tuple(INT, C)), [PCtor("Some", [PTuple([PInt(1), red])]), PCtor("None", []), PCtor("Some", [PTuple([d(), v("c")])])]),
        (BOOL, [T]), (BOOL, [T, F]), (BOOL, [F, T, d()]), (INT, [PInt(1), PInt(2)]), (INT, [PInt(1), v("y"), PInt(1)]), (INT, [PInt(1), PInt(1), d()]),
        (BYTES, [PBytes(b"\x00")]), (BYTES, [PBytes(b"\x00"), PBytes(b""), d()]), (BYTES, [PBytes(b"ab"), PBytes(b"ab"), d()]),
        (L.t_adt("Acc"), [PRec("Acc", [("bal", PInt(1))], True)]), (L.t_adt("Acc"), [PCtor("Acc", [d(), PInt(1), T]), PRec("Acc", [("flag", F)], True), PRec("Acc", [("bal", v("b"))], True)]),
        (L.t_opt(INT), [PAs(PCtor("Some", [v("n")]), "whole"), PCtor("None", [])]),
        (L.t_opt(li), [PCtor("Some", [PList([], None)]), PCtor("Some", [PList([v("h")], v("t"))]), PCtor("None", [])]),
        (L.t_list(L.t_opt(INT)), [PList([PCtor("Some", [v("a")]), PCtor("None", [])], None), PList([PCtor("None", [])], d()), PList([], None), PList([PCtor("Some", [d()])], d())]),
        (L.t_list(L.t_tuple(INT, BOOL)), [PList([PTuple([v("a"), T])], v("r")), PList([PTuple([PInt(0), F])], d()), d()]),
    ]
    return out


def run(tier: str, seed: int, only=None) -> Result:
    res = Result("C07", tier, seed, "model_checking")
    depth, width = (4, WIDTH) if tier == "quick" else (4, WIDTH)
    res.assumptions = [
        "reference matching relation p |- v written in z3 over the documented Data representation (aikengen/lang.py match/conforms_ty)",
        "matrices (clause lists) are generated: the matrix quantifier is sampled/enumerated, the value quantifier is decided by z3",
        f"values: nesting <= {DEPTH}, list length <= {WIDTH} (exact for the generated patterns: patterns have depth <= 3 and <= {MAX_LIST_PAT} list elements)",
        "'a reported missing pattern is indeed unmatched' is read as: the pattern is well-typed and contains at least one value no clause matches "
        "(the checker prints `_` for 'any other literal', so the all-instances reading is not what the diagnostic means)",
        "dynamic leg: uplcsym trusted base (validated against the native evaluator); bodies encode clause index and Int/Bool bindings",
    ]
    nrand = 10 if tier == "quick" else 120
    res.bounds = {"types": len(TYPES), "random matrix batches (8 each)": nrand, "fixed matrices": len(fixed_matrices()),
                  "enumerated (thorough)": "all clause lists of <= 3 patterns over an alphabet of <= 14 depth-2 patterns per type"}
    res.extra["explanation"] = "the real checker's exhaustiveness/redundancy verdicts vs a z3 decision over all scrutinee values; compiled `when` vs first-match semantics on a symbolic scrutinee"
    res.extra["trusted_base"] = ["aikengen/lang.py (matching relation)", "uplcsym (symbolic CEK)", "driver drv-lang (real parser/type checker/compiler)", "z3 5.1"]
    jobs = [("fixed", tier, seed, i, depth, width) for i in range(8)]
    jobs += [("random", tier, seed, i, depth, width) for i in range(nrand)]
    if tier == "thorough":
        jobs += [("enum", tier, seed, i, depth, width) for i in range(len(TYPES))]
    if only:
        jobs = [j for j in jobs if j[0] == only]
    U.merge(res, U.pmap(_job, jobs))
    res.extra["matrices"] = sum(1 for o in res.obligations if "/run" not in o.name)
    res.extra.setdefault("programs", 0)
    res.extra.setdefault("disagreements_checked", 0)
    kf = KnownFindings()
    from props import common_post
    common_post.postprocess(res, kf, replay_fn=lambda ob: (True, "verdict of the real type checker / native evaluation on the recorded source (driver)"))
    return res
