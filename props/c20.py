"""C20 Malformed input is rejected with an error, not a crash — flat decoders, mirsym, compositional.

Instead of exploring whole buffers, every decoding function is run ONCE from an arbitrary decoder state that
satisfies the representation invariant
        INV(d) :  0 <= used_bits <= 7   and   pos*8 + used_bits <= len(buffer)*8
on a fully symbolic buffer (symbolic contents and symbolic length <= LEN), and must (a) have no feasible panic path
(index out of bounds, shift/arith overflow, unwrap) and (b) leave a state satisfying INV.  Since every function
preserves INV and decoding always starts from (pos=0, used_bits=0), no panic is reachable for any buffer of any
nesting - sub-decoders called by a function are replaced by "havoc" stubs returning an arbitrary result in an
arbitrary INV-state.
  prim/*   pallas-codec Decoder primitives (real MIR of the dependency, as built from Cargo.lock)
  dec/*    uplc flat.rs: Program/Term (decode and decode_debug)/Constant/decode_constant_value/decode_type/builtin/binders
  fromstr  DefaultFunction::from_str on a symbolic identifier
Outside: CBOR/hex layers, JSON loading, Aiken lexer/parser/formatter, the matching code of the peg UPLC grammar (its semantic actions over matched text are in: act families; see DESIGN.md).
"""
from __future__ import annotations

import time

import z3

from mirsym.exec import Unsupported
from mirsym.values import *  # noqa
from mirsym import summaries as S
from mirsym.world import World
from vlib.common import Obligation, Result, KnownFindings, log

LEN_Q, LEN_T = 12, 24


def _inv(pos, used, L):
    """INV over 64-bit machine words (all quantities are small: no wrap-around)"""
    return z3.And(z3.ULE(used, 7), z3.ULE(L, 1 << 20), z3.ULE(pos, L), z3.ULE(pos * 8 + used, L * 8))


def mk_decoder(world, ex, st, maxlen, name="d", fixed=None):
    bs = tuple(BV(z3.BitVec(fresh(name + "_b"), 8), 8, False) for _ in range(maxlen))
    L = z3.BitVec(fresh(name + "_len"), 64)
    buf = SymArr(bs, L)
    if fixed is not None:
        pos, used = z3.BitVecVal(fixed[0], 64), z3.BitVecVal(fixed[1], 64)
    else:
        pos = z3.BitVec(fresh(name + "_pos"), 64)
        used = z3.BitVec(fresh(name + "_used"), 64)
    st.pc += [z3.ULE(L, maxlen), _inv(pos, used, L)]
    bref = ex.alloc(st, buf, False)
    d = world.decls.get("Decoder", "pallas_codec/flat/decode")
    names = [n for n, _ in d.fields]
    vals = {"buffer": bref, "used_bits": BV(used, 64, True), "pos": BV(pos, 64, False)}
    dec = Adt("Decoder", None, tuple(vals[n] for n in names))
    return ex.alloc(st, dec), (buf, pos, used)


def _as_bv(ex, v):
    return v.e if not z3.is_int(v.e) else z3.Int2BV(v.e, 64)


def inv_of(world, ex, st, dref):
    d = ex.read(st, dref.cell, dref.proj)
    decl = world.decls.get("Decoder", "pallas_codec/flat/decode")
    names = [n for n, _ in decl.fields]
    pos = _as_bv(ex, d.fields[names.index("pos")])
    used = _as_bv(ex, d.fields[names.index("used_bits")])
    bufref = d.fields[names.index("buffer")]
    b = S.deref(ex, st, bufref)
    L = b.length
    return _inv(pos, used, L), (pos, used, L)


def havoc(world, ex, st, dref):
    """put the decoder into an arbitrary INV state (same buffer)"""
    d = ex.read(st, dref.cell, dref.proj)
    decl = world.decls.get("Decoder", "pallas_codec/flat/decode")
    names = [n for n, _ in decl.fields]
    bufref = d.fields[names.index("buffer")]
    b = S.deref(ex, st, bufref)
    pos = z3.BitVec(fresh("hpos"), 64)
    used = z3.BitVec(fresh("hused"), 64)
    st.pc += [_inv(pos, used, b.length)]
    vals = {"buffer": bufref, "used_bits": BV(used, 64, True), "pos": BV(pos, 64, False)}
    ex.write(st, dref.cell, dref.proj, Adt("Decoder", None, tuple(vals[n] for n in names)))


def havoc_stub(world, mk_ok):
    """stub for a sub-decoder: Ok(arbitrary value) or Err, decoder havocked"""
    def h(ex, st, c, args, dty):
        dref = None
        for a in args:
            if isinstance(a, Ref):
                try:
                    v = ex.read(st, a.cell, a.proj)
                except Unsupported:
                    continue
                if isinstance(v, Adt) and v.ty == "Decoder":
                    dref = a
                    break
                if isinstance(v, Ref):
                    vv = ex.read(st, v.cell, v.proj)
                    if isinstance(vv, Adt) and vv.ty == "Decoder":
                        dref = v
                        break

        def ok(s):
            if dref is not None:
                havoc(world, ex, s, dref)
            return Adt("Result", "Ok", (mk_ok(ex, s),))

        def err(s):
            if dref is not None:
                havoc(world, ex, s, dref)
            return Adt("Result", "Err", (Adt("Error", "Message", (fresh_obj("msg", "String"),)),))
        from mirsym.exec import Effect
        return [(z3.Bool(fresh("sub_ok")), Effect(ok)), (None, Effect(err))]
    return h


def opaque_of(ty):
    return lambda ex, s: fresh_obj("sub", ty)


def run_fn(world, res, name, fn, mk_args, stubs, maxlen, tier, want_inv=True, max_paths=4000, max_steps=60000, enumerate_state=False, all_err_ok=False):
    """enumerate_state: the (byte position, bit offset) of the start state is enumerated (pos in {0,1}, used_bits 0..7) instead of
    symbolic - used for functions that loop over the input, where symbolic offsets make every iteration an ite chain."""
    ob = Obligation(name, "discharged", "")
    ex = world.executor(timeout_ms=20000 if tier == "quick" else 120000, stubs=stubs, max_paths=max_paths, max_steps=max_steps)
    fixeds = [(p, u) for p in (0, 1) for u in range(8)] if enumerate_state else [None]
    outs = []
    try:
        for fx in fixeds:
            st = ex.new_state()
            dref, (buf, pos, used) = mk_decoder(world, ex, st, maxlen + (fx[0] if fx else 0), fixed=fx)
            args, generics = mk_args(ex, st, dref)
            for o in ex.run(fn, args, st, generics=generics):
                o.ctx = (dref, buf, pos, used)
                outs.append(o)
    except Unsupported as e:
        ob.status, ob.detail = "undecided", str(e)
        res.add(ob)
        return
    res.functions.update(ex.encoded)
    n_ok = n_err = 0
    for o in outs:
        dref, buf, pos, used = o.ctx
        if o.kind == "undecided":
            ob.status, ob.detail = "undecided", o.msg
            break
        if o.kind == "panic":
            m = ex.model(o.pc)
            cex = None
            if m is not None:
                n = min(m.eval(buf.length, True).as_long(), len(buf.elems))
                data = bytes(m.eval(b.e, True).as_long() for b in buf.elems[:n])
                cex = {"buffer_len": n, "pos": str(m.eval(pos, True)), "used_bits": str(m.eval(used, True)), "buffer_hex": data.hex()}
            ob.status, ob.detail, ob.model = "violated", f"panic: {o.msg}; decoder state {cex}", cex
            ob.finding_key = f"{name}: panic {S_panic_class(o.msg)}"
            break
        v = o.value
        if isinstance(v, Adt) and v.ty == "Result":
            if v.variant == "Ok":
                n_ok += 1
            else:
                n_err += 1
        else:
            n_ok += 1
        if want_inv:
            inv, _ = inv_of(world, ex, o.state, dref)
            r = ex.check(o.pc, z3.Not(inv))
            if r == "sat":
                m = ex.model(o.pc, z3.Not(inv))
                ob.status, ob.detail = "violated", f"decoder invariant broken on return (a later read may go out of bounds): {str(m)[:300]}"
                ob.finding_key = f"{name}: invariant"
                break
            if r == "unknown":
                ob.status, ob.detail = "undecided", "solver unknown (invariant)"
                break
    if ob.status == "discharged":
        ob.detail = f"{len(outs)} paths ({n_ok} Ok, {n_err} Err): no panic, invariant preserved"
        ob.witness = n_ok > 0 or (all_err_ok and n_err > 0)
        if not ob.witness:
            ob.status, ob.detail = "undecided", "vacuous: no successful path"
    ob.queries, ob.solver_s = ex.queries, round(ex.solver_s, 3)
    res.add(ob)


def S_panic_class(msg):
    for k in ("index out of bounds", "shift", "overflow", "unwrap", "slice index", "unreachable"):
        if k in msg:
            return k
    return msg[:30]


def prim_family(world: World, res: Result, tier: str):
    # per-function buffer-length bound: loops over the input (filler, byte_array chunks, 7-bit groups) multiply paths
    q = {"bit": 12, "zero": 12, "bool": 12, "u8": 12, "word": 11, "integer": 11, "char": 11, "filler": 3, "byte_array": 6, "bytes": 4,
         "big_word": 6, "big_integer": 6, "utf8": 4, "bits8": 12}
    t = {"bit": 24, "zero": 24, "bool": 24, "u8": 24, "word": 12, "integer": 12, "char": 12, "filler": 4, "byte_array": 10, "bytes": 5,
         "big_word": 8, "big_integer": 8, "utf8": 5, "bits8": 24}
    lens = q if tier == "quick" else t
    res.bounds["prim"] = f"buffer: symbolic bytes, symbolic length <= {lens}; decoder position and bit offset symbolic under INV"
    for m in ["bit", "zero", "bool", "u8", "word", "integer", "filler", "byte_array", "bytes", "char", "big_word", "big_integer", "utf8"]:
        try:
            fn = world.fn("Decoder<'b>", m, module="pallas-codec")
        except Unsupported as e:
            res.add(Obligation(f"prim/Decoder::{m}", "undecided", str(e)))
            continue
        run_fn(world, res, f"prim/Decoder::{m}", fn, lambda ex, st, d: ([d], None), {}, lens[m], tier,
               enumerate_state=m in ("word", "integer", "char", "filler", "bytes", "utf8", "big_word", "big_integer", "byte_array"))
    # bits8 with symbolic width
    try:
        fn = world.fn("Decoder<'b>", "bits8", module="pallas-codec")

        def args(ex, st, d):
            n = z3.BitVec(fresh("nbits"), 64)
            st.pc += [z3.ULE(n, 64), z3.UGE(n, 1)]  # callers pass the constant widths 4, 7, 8
            return [d, BV(n, 64, False)], None
        run_fn(world, res, "prim/Decoder::bits8", fn, args, {}, lens["bits8"], tier)
    except Unsupported as e:
        res.add(Obligation("prim/Decoder::bits8", "undecided", str(e)))


def prim_stubs(world, max_more=2):
    """the pallas-codec primitives (verified on their own in prim/*) as havoc stubs: arbitrary result, arbitrary INV state"""
    def bits8_ok(ex, s):
        return BV(z3.BitVec(fresh("bits"), 8), 8, False)
    mk = {
        "Decoder::bits8": bits8_ok, "Decoder::u8": bits8_ok,
        "Decoder::word": lambda ex, s: BV(z3.BitVec(fresh("word"), 64), 64, False),
        "Decoder::integer": lambda ex, s: BV(z3.BitVec(fresh("int"), 64), 64, True),
        "Decoder::big_integer": lambda ex, s: BigI(z3.Int(fresh("bigint"))),
        "Decoder::bool": lambda ex, s: BoolV(z3.Bool(fresh("bool"))),
        "Decoder::bit": lambda ex, s: BoolV(z3.Bool(fresh("bit"))),
        "Decoder::bytes": lambda ex, s: VecV(Bytes(z3.Const(fresh("bytes"), ByteSeq))),
        "Decoder::utf8": lambda ex, s: Str(z3.Const(fresh("utf8"), ByteSeq)),
        "Decoder::char": lambda ex, s: BV(z3.BitVec(fresh("char"), 32), 32, False),
        "Decoder::filler": lambda ex, s: UNIT,
    }
    stubs = {k: havoc_stub(world, f) for k, f in mk.items()}
    inner_bit = stubs["Decoder::bit"]

    def bit_bounded(ex, st, c, args, dty):
        """list-continuation bits: at most 2 'more elements' answers per path (the loop body is checked from an arbitrary
        state on every iteration, so the bound does not weaken the no-panic claim)"""
        n = st.ghost.get("bits", 0)
        st.ghost = dict(st.ghost)
        st.ghost["bits"] = n + 1
        res = inner_bit(ex, st, c, args, dty)
        if n >= max_more:
            from mirsym.exec import Effect

            def stop(s):
                v = res[0][1].fn(s)
                return Adt("Result", "Ok", (BoolV(z3.BoolVal(False)),))
            return [(None, Effect(stop))]
        return res
    stubs["Decoder::bit"] = bit_bounded
    return stubs


def dec_family(world: World, res: Result, tier: str):
    maxlen = 4  # the buffer is only touched through the stubbed primitives and the error-report slice
    term_stub = havoc_stub(world, opaque_of("Term"))
    const_stub = havoc_stub(world, opaque_of("Constant"))
    cv_stub = havoc_stub(world, opaque_of("Constant"))
    stubs_common = dict(prim_stubs(world))
    stubs_common.update({"Constant::to_pretty": lambda ex, st, c, args, dty: fresh_obj("pretty", "String"),
                    "<PlutusData as Fragment>::decode_fragment": lambda ex, st, c, args, dty: [(z3.Bool(fresh("cbor_ok")), Adt("Result", "Ok", (fresh_obj("data", "PlutusData"),))), (None, Adt("Result", "Err", (fresh_obj("e"),)))],
                    "<blst_p1 as Compressable>::uncompress": lambda ex, st, c, args, dty: [(z3.Bool(fresh("p_ok")), Adt("Result", "Ok", (fresh_obj("p1"),))), (None, Adt("Result", "Err", (fresh_obj("e"),)))],
                    "<blst_p2 as Compressable>::uncompress": lambda ex, st, c, args, dty: [(z3.Bool(fresh("p_ok")), Adt("Result", "Ok", (fresh_obj("p2"),))), (None, Adt("Result", "Err", (fresh_obj("e"),)))]})
    for binder in ("DeBruijn", "NamedDeBruijn", "Name", "FakeNamedDeBruijn"):
        for meth, trait in (("decode_debug", None), ("decode", "Decode<'b>")):
            try:
                fn = world.fn("Term<T>", meth, trait)
            except Unsupported as e:
                res.add(Obligation(f"dec/Term<{binder}>::{meth}", "undecided", str(e)))
                continue
            stubs = dict(stubs_common)
            stubs["Term::decode_debug"] = term_stub
            stubs["<Term as Decode>::decode"] = term_stub
            stubs["<Constant as Decode>::decode"] = const_stub

            def args(ex, st, d, meth=meth):
                if meth == "decode_debug":
                    log_ = ex.alloc(st, VecV(Arr(())))
                    return [d, log_], {"T": binder}
                return [d], {"T": binder}
            run_fn(world, res, f"dec/Term<{binder}>::{meth}", fn, args, stubs, maxlen, tier)
    # Program::decode with the term decoder stubbed
    for binder in ("DeBruijn", "Name"):
        try:
            fn = world.fn("Program<T>", "decode", "Decode<'b>")
            stubs = dict(stubs_common)
            stubs["Term::decode_debug"] = term_stub
            run_fn(world, res, f"dec/Program<{binder}>::decode", fn, lambda ex, st, d: ([d], {"T": binder}), stubs, maxlen, tier)
        except Unsupported as e:
            res.add(Obligation(f"dec/Program<{binder}>::decode", "undecided", str(e)))
    # Constant::decode (type tags) with the recursive value decoder real for flat types and stubbed for nested ones
    try:
        fn = world.fn("Constant", "decode", "Decode<'_>")
        stubs = dict(stubs_common)
        stubs.update(prim_stubs(world, max_more=4))  # type-tag lists up to 4 tags: [7,7,6,t..] / [7,5,7,5]
        stubs["decode_constant_value"] = cv_stub
        run_fn(world, res, "dec/Constant::decode", fn, lambda ex, st, d: ([d], None), stubs, min(maxlen, 10), tier, max_paths=20000)
    except Unsupported as e:
        res.add(Obligation("dec/Constant::decode", "undecided", str(e)))
    # decode_constant_value for every leaf type and one level of list/pair
    try:
        fn = world.fn(None, "decode_constant_value")
        w = world
        T = lambda v, *a: w.adt("Type", v, *a)  # noqa: E731
        types = {"Integer": T("Integer"), "ByteString": T("ByteString"), "String": T("String"), "Unit": T("Unit"), "Bool": T("Bool"),
                 "Data": T("Data"), "List<Integer>": T("List", BoxV(T("Integer"), "Rc")), "Pair<Bool,Unit>": T("Pair", BoxV(T("Bool"), "Rc"), BoxV(T("Unit"), "Rc")),
                 "G1": T("Bls12_381G1Element"), "G2": T("Bls12_381G2Element"), "Ml": T("Bls12_381MlResult")}
        for tn, tv in types.items():
            stubs = dict(stubs_common)
            run_fn(world, res, f"dec/decode_constant_value[{tn}]", fn, lambda ex, st, d, tv=tv: ([BoxV(tv, "Rc"), d], None), stubs,
                   min(maxlen, 8), tier, max_paths=20000, all_err_ok=tn in ("G1", "G2", "Ml"))
    except Unsupported as e:
        res.add(Obligation("dec/decode_constant_value", "undecided", str(e)))
    # builtin tag
    try:
        fn = world.fn("DefaultFunction", "decode", "Decode<'_>")
        run_fn(world, res, "dec/DefaultFunction::decode", fn, lambda ex, st, d: ([d], None), {}, maxlen, tier)
    except Unsupported as e:
        res.add(Obligation("dec/DefaultFunction::decode", "undecided", str(e)))


def act_family(world: World, res: Result, tier: str):
    """semantic actions of the UPLC text grammar (peg-generated closures) that turn matched text into values: executed
    from MIR on a SYMBOLIC identifier; a feasible panic is replayed through the real parser on `(program 1.0.0 (builtin <id>))`"""
    from mirsym.summaries import ByteSeq
    name = "act/builtin-name"
    ob = Obligation(name, "discharged", "")
    ex = world.executor(timeout_ms=20000, max_paths=400, max_steps=20000)
    try:
        fn = world.main.functions.get("__parse_builtin::{closure#0}")
        if fn is None:
            raise Unsupported("semantic action of rule builtin() not found in MIR (grammar restructured?)")
        st = ex.new_state()
        s = z3.Const("ident", ByteSeq)
        n = 10
        st.pc.append(z3.And(z3.Length(s) >= 1, z3.Length(s) <= n))
        for i in range(n):
            c = s[i]
            st.pc.append(z3.Implies(z3.Length(s) > i, z3.And(z3.UGE(c, ord("a")), z3.ULE(c, ord("z")))))
        sref = ex.alloc(st, Str(s))
        clos = ex.alloc(st, Closure("__parse_builtin::{closure#0}", (sref,))) if False else ex.alloc(st, Tup((sref,)))
        outs = ex.run(fn, [clos], st)
    except Unsupported as e:
        ob.status, ob.detail = "undecided", str(e)
        res.add(ob)
        return
    npanic = nret = 0
    for o in outs:
        if o.kind == "undecided":
            ob.status, ob.detail = "undecided", o.msg
        elif o.kind == "panic":
            npanic += 1
            m = ex.model(o.pc)
            ident = None
            if m is not None:
                from mirsym.summaries import _concrete_bytes
                try:
                    ident = _concrete_bytes(m.eval(s, True)).decode()
                except Exception:
                    ident = None
            vb = Obligation(name + "/panic", "violated", f"the action of grammar rule builtin() panics on identifier {ident!r}: {o.msg}")
            vb.model = {"ident": ident, "text": f"(program 1.0.0 (builtin {ident}))"}
            vb.finding_key = "act/builtin-name: panic on unknown builtin name"
            res.add(vb)
        else:
            nret += 1
    if ob.status == "discharged":
        ob.detail = f"{len(outs)} paths ({nret} return, {npanic} panic) for identifiers of 1..{n} lower-case letters"
        ob.witness = nret > 0
    ob.queries, ob.solver_s = ex.queries, round(ex.solver_s, 3)
    res.functions.update(ex.encoded)
    res.add(ob)



# ---- text-capturing rules of the peg grammar:  rule r() -> T = x:$(PATTERN) { action } ---------------------------------------------

class _PegUnsupported(Exception):
    pass


def _peg_to_re(src):
    """Translate the peg pattern subset (string literals, character classes, grouping, / * + ?) to a z3 regular expression over bytes.
    Every string a PEG pattern matches is in the regular language of the same expression, so the language is an over-approximation of
    the captured text (ordered choice / possessive repetition can only remove strings)."""
    from mirsym.summaries import _re_unit
    pos = [0]

    def ws():
        while pos[0] < len(src) and src[pos[0]].isspace():
            pos[0] += 1

    def char_lit():
        if src[pos[0]] != "'":
            raise _PegUnsupported("character literal expected")
        pos[0] += 1
        ch = src[pos[0]]
        if ch == "\\":
            pos[0] += 1
            ch = {"n": "\n", "r": "\r", "t": "\t", "\\": "\\", "'": "'", '"': '"', "0": "\0"}.get(src[pos[0]])
            if ch is None:
                raise _PegUnsupported("escape")
        if ord(ch) >= 0x80:
            raise _PegUnsupported("non-ASCII class")
        pos[0] += 1
        if src[pos[0]] != "'":
            raise _PegUnsupported("character literal")
        pos[0] += 1
        return ch

    def atom():
        ws()
        c = src[pos[0]]
        if c == '"':
            j = pos[0] + 1
            out = []
            while src[j] != '"':
                if src[j] == "\\" or ord(src[j]) >= 0x80:
                    raise _PegUnsupported("escape in literal")
                out.append(src[j])
                j += 1
            pos[0] = j + 1
            if not out:
                return z3.Re(z3.Empty(z3.SeqSort(z3.BitVecSort(8))))
            rs = [_re_unit(ch) for ch in out]
            return rs[0] if len(rs) == 1 else z3.Concat(*rs)
        if c == "[":
            pos[0] += 1
            ws()
            if src[pos[0]] == "^":
                raise _PegUnsupported("negated class")
            alts = []
            while True:
                ws()
                a = char_lit()
                ws()
                if src.startswith("..=", pos[0]):
                    pos[0] += 3
                    ws()
                    b = char_lit()
                    alts.extend(chr(k) for k in range(ord(a), ord(b) + 1))
                else:
                    alts.append(a)
                ws()
                if src[pos[0]] == "|":
                    pos[0] += 1
                    continue
                if src[pos[0]] == "]":
                    pos[0] += 1
                    break
                raise _PegUnsupported("class syntax")
            rs = [_re_unit(ch) for ch in alts]
            return rs[0] if len(rs) == 1 else z3.Union(*rs)
        if c == "(":
            pos[0] += 1
            r = choice()
            ws()
            if src[pos[0]] != ")":
                raise _PegUnsupported("unbalanced")
            pos[0] += 1
            return r
        raise _PegUnsupported(f"pattern element {c!r}")

    def postfix():
        r = atom()
        while True:
            ws()
            if pos[0] < len(src) and src[pos[0]] in "*+?":
                r = {"*": z3.Star, "+": z3.Plus, "?": z3.Option}[src[pos[0]]](r)
                pos[0] += 1
            else:
                return r

    def seq():
        rs = []
        while True:
            ws()
            if pos[0] >= len(src) or src[pos[0]] in "/)":
                break
            rs.append(postfix())
        if not rs:
            raise _PegUnsupported("empty sequence")
        return rs[0] if len(rs) == 1 else z3.Concat(*rs)

    def choice():
        rs = [seq()]
        while True:
            ws()
            if pos[0] < len(src) and src[pos[0]] == "/":
                pos[0] += 1
                rs.append(seq())
            else:
                return rs[0] if len(rs) == 1 else z3.Union(*rs)

    try:
        r = choice()
        ws()
        if pos[0] != len(src):
            raise _PegUnsupported("trailing input")
        return r
    except IndexError:
        raise _PegUnsupported("truncated pattern")


def _capture_rules(path="/repo/crates/uplc/src/parser.rs"):
    """[(rule name, pattern text)] for the rules of shape `rule r() -> T = x:$(PATTERN) {...}` read from the current grammar source"""
    import re as _re
    txt = open(path).read()
    out = []
    for m in _re.finditer(r"rule\s+(\w+)\s*\(\)\s*->\s*[^=\n]+?\s*=\s*\w+:\$\(", txt):
        i = m.end()
        depth, j, instr = 1, i, None
        while j < len(txt) and depth:
            ch = txt[j]
            if instr:
                if ch == "\\":
                    j += 1
                elif ch == instr:
                    instr = None
            elif ch in "\"'":
                instr = ch
            elif ch == "(":
                depth += 1
            elif ch == ")":
                depth -= 1
            j += 1
        rest = txt[j:].lstrip()
        if depth == 0 and rest.startswith("{"):
            out.append((m.group(1), txt[i:j - 1]))
    return out


# where each captured rule is used, to replay a panic through the public parser
_ACT_CONTEXT = {"big_number": "(program 1.0.0 (con integer {}))", "decimal": "(program 1.0.0 (constr {}))", "boolean": "(program 1.0.0 (con bool {}))"}


def capture_family(world: World, res: Result, tier: str):
    """semantic actions over captured text: the PATTERN of the rule is read from the grammar source and bounds the symbolic text (regular
    language, length <= N); the action closure is executed from MIR; a feasible panic is replayed through uplc::parser::program"""
    from mirsym.summaries import ByteSeq, _concrete_bytes
    N = 24 if tier == "quick" else 40
    rules = _capture_rules()
    if not rules:
        res.add(Obligation("act/captures", "undecided", "no text-capturing rule found in the grammar source (grammar restructured?)"))
        return
    for rname, pat in rules:
        name = f"act/{rname}"
        ob = Obligation(name, "discharged", "")
        ex = world.executor(timeout_ms=30000, max_paths=400, max_steps=20000)
        try:
            fname = f"__parse_{rname}::{{closure#0}}"
            fn = world.main.functions.get(fname)
            if fn is None:
                raise Unsupported(f"semantic action of rule {rname}() not found in MIR")
            rex = _peg_to_re(pat)
            s = z3.Const(f"text_{rname}", ByteSeq)
            outs = None
            last = None
            for byref in (False, True):
                st = ex.new_state()
                st.pc.append(z3.InRe(s, rex))
                st.pc.append(z3.Length(s) <= N)
                sref = ex.alloc(st, Str(s))
                if byref:
                    sref = ex.alloc(st, sref)
                clos = ex.alloc(st, Tup((sref,)))
                try:
                    outs = ex.run(fn, [clos], st)
                    break
                except Unsupported as e:
                    last = e
            if outs is None:
                raise last
        except _PegUnsupported as e:
            ob.status, ob.detail = "undecided", f"pattern {pat!r} outside the translated peg subset: {e}"
            res.add(ob)
            continue
        except Unsupported as e:
            ob.status, ob.detail = "undecided", str(e)
            res.add(ob)
            continue
        npanic = nret = 0
        for o in outs:
            if o.kind == "undecided":
                ob.status, ob.detail = "undecided", o.msg
            elif o.kind == "panic":
                npanic += 1
                m = ex.model(o.pc)
                text = None
                if m is not None:
                    try:
                        text = _concrete_bytes(m.eval(s, True)).decode()
                    except Exception:
                        text = None
                vb = Obligation(name + "/panic", "violated", f"the action of grammar rule {rname}() panics on the matched text {text!r}: {o.msg}")
                ctx = _ACT_CONTEXT.get(rname)
                vb.model = {"captured": text}
                if ctx and text is not None:
                    vb.model["text"] = ctx.format(text)
                vb.finding_key = f"act/{rname}: panic in the semantic action"
                res.add(vb)
            else:
                nret += 1
        if ob.status == "discharged":
            ob.detail = f"{len(outs)} paths ({nret} return, {npanic} panic) for every text of <= {N} bytes matched by {pat.strip()!r}"
            ob.witness = nret > 0
        ob.queries, ob.solver_s = ex.queries, round(ex.solver_s, 3)
        res.functions.update(ex.encoded)
        res.add(ob)


def hex_family(world: World, res: Result, tier: str):
    """Program::from_hex on an arbitrary (valid UTF-8) string: everything it does BEFORE handing bytes to the CBOR / flat layers -
    with hex::decode and from_cbor replaced by havoc stubs (any Ok / Err) - must not panic (slicing at a non-boundary, unwrap, ...)"""
    import itertools
    from mirsym.summaries import ByteSeq, fresh_obj
    from props.c04 import utf8_fixed
    name = "hex/from_hex"
    ob = Obligation(name, "discharged", "")
    ex = world.executor(timeout_ms=20000, max_paths=400, max_steps=20000)

    def stub_hex_decode(ex_, st, c, args, dty):
        b = z3.Const(fresh("hexbytes"), ByteSeq)
        return [(None, Adt("Result", "Ok", (VecV(Bytes(b)),))), (None, Adt("Result", "Err", (fresh_obj("hexerr", "FromHexError"),)))]

    def stub_from_cbor(ex_, st, c, args, dty):
        return [(None, Adt("Result", "Ok", (fresh_obj("program", "Program"),))), (None, Adt("Result", "Err", (fresh_obj("deerr", "Error"),)))]
    ex.stubs.update({"hex::decode": stub_hex_decode, "Program::<T>::from_cbor": stub_from_cbor, "Program::from_cbor": stub_from_cbor,
                     "Program::<'b, T>::from_cbor": stub_from_cbor, "ast::Program::<T>::from_cbor": stub_from_cbor,
                     "<FromHexError as ToString>::to_string": lambda ex_, st, c, args, dty: fresh_obj("msg", "String")})
    try:
        fn = world.fn("Program<T>", "from_hex")
    except Unsupported as e:
        ob.status, ob.detail = "undecided", str(e)
        res.add(ob)
        return
    n = 0
    shapes = [ws for k in range(0, 4) for ws in itertools.product((1, 2, 3), repeat=k)]
    for ws in shapes:
        st = ex.new_state()
        cps, parts = [], []
        for k, w_ in enumerate(ws):
            cp = z3.Int(f"hc{k}")
            cs, enc = utf8_fixed(cp, w_)
            st.pc += cs
            cps.append(cp)
            parts.append(enc)
        sx = z3.Concat(*parts) if len(parts) > 1 else (parts[0] if parts else z3.Empty(ByteSeq))
        # an unconstrained ASCII tail so that the length is not fixed
        tail = z3.Const("hextail", ByteSeq)
        st.pc.append(z3.Length(tail) <= 4)
        for i in range(4):
            st.pc.append(z3.Implies(z3.Length(tail) > i, z3.ULT(tail[i], 0x80)))
        full = z3.Concat(sx, tail) if ws else tail
        try:
            sref = ex.alloc(st, Str(full))
            outs = ex.run(fn, [sref, ex.alloc(st, VecV(Bytes(z3.Empty(ByteSeq)))), ex.alloc(st, VecV(Bytes(z3.Empty(ByteSeq))))], st, generics={"T": "DeBruijn"})
        except Unsupported as e:
            ob.status, ob.detail = "undecided", f"{e} (char widths {ws})"
            break
        for o in outs:
            n += 1
            if o.kind == "undecided":
                ob.status, ob.detail = "undecided", f"{o.msg} (char widths {ws})"
            elif o.kind == "panic":
                m = ex.model(o.pc)
                text = None
                if m is not None:
                    from mirsym.summaries import _concrete_bytes
                    try:
                        text = _concrete_bytes(m.eval(full, True)).decode("utf-8")
                    except Exception:
                        text = None
                vb = Obligation(name + "/panic", "violated", f"Program::from_hex panics on the string {text!r}: {o.msg}")
                vb.model = {"hex_string": text}
                vb.finding_key = "hex/from_hex: panic before decoding"
                if not any(x.finding_key == vb.finding_key for x in res.obligations):
                    res.add(vb)
        if ob.status != "discharged":
            break
    if ob.status == "discharged":
        ob.detail = f"{len(shapes)} leading character-width shapes (1-3 byte characters) + ASCII tail, {n} paths: no panic before the CBOR layer"
        ob.witness = n > 0
    ob.queries, ob.solver_s = ex.queries, round(ex.solver_s, 3)
    res.functions.update(ex.encoded)
    res.add(ob)


def replay_hex(ob):
    from vlib import driver as D
    m = ob.model or {}
    if not m.get("hex_string") and m.get("hex_string") != "":
        return None, "model string not concrete"
    r = D.get("drv-uplc").call("from_hex", hex=m["hex_string"], binder="debruijn")
    if "panic" in r:
        return True, f"Program::from_hex panics on {m['hex_string']!r}: {str(r['panic'])[:160]}"
    return False, f"Program::from_hex answers {str(r)[:120]}"


def replay_act(ob):
    from vlib import driver as D
    m = ob.model or {}
    if "text" not in m:
        return None, "not replayable through a public entry point; model re-evaluated in the encoder only"
    r = D.get("drv-uplc").call("parse", text=m["text"])
    if "panic" in r:
        return True, f"uplc::parser::program panics on {m['text']!r}: {str(r['panic'])[:160]}"
    return False, f"uplc::parser::program answers {str(r)[:120]} on {m['text']!r}"


def run(tier: str, seed: int, only=None) -> Result:
    res = Result("C20", tier, seed, "model_checking")
    res.assumptions = [
        "mirsym trusted base: MIR interpreter + library summaries",
        "String::from_utf8, PlutusData::decode_fragment (minicbor) and blst uncompress return Ok or Err and never panic (third-party contract)",
        "stack depth (recursion on deeply nested input) is not visible at MIR level and is outside the claim",
        "CBOR/hex layers, serde/JSON loading, the Aiken lexer/parser/formatter and the peg UPLC grammar as a whole are outside the claim (PARTIAL); of the UPLC text grammar the semantic actions over matched text are encoded (builtin-name lookup; every rule of shape `x:$(PATTERN) {action}` with the captured text ranging over the regular language of PATTERN read from the grammar source, <= 24/40 bytes); the peg matching code itself is not",
    ]
    res.extra["explanation"] = ("each decoding function is executed symbolically once from an arbitrary decoder state under the representation "
                                "invariant on a fully symbolic buffer; z3 decides that no panic path is feasible and the invariant is preserved")
    res.extra["trusted_base"] = ["rustc nightly MIR dump (uplc, pallas-codec)", "mirsym/exec.py", "mirsym/summaries.py", "z3 5.1"]
    kf = KnownFindings()
    world = World(("uplc",), deps=("pallas-codec",))
    for fam, f in (("prim", prim_family), ("dec", dec_family), ("act", act_family), ("act-captures", capture_family), ("hex", hex_family)):
        if only and only not in fam:
            continue
        t = time.time()
        f(world, res, tier)
        log(f"[C20] {fam}: {time.time() - t:.1f}s")
    from props import common_post
    common_post.postprocess(res, kf, replay_fn=lambda ob: replay_act(ob) if ob.name.startswith("act/") else replay_hex(ob) if ob.name.startswith("hex/") else (None, "not replayable through a public entry point; model re-evaluated in the encoder only (pallas-codec findings were replayed by hand through from_flat, see known_findings.json)"))
    return res
