"""C11 Variable binding survives name/index conversions — mirsym on debruijn::Converter.

Term shapes are enumerated (all shapes up to a node bound over var/lam/apply/delay/force/constr/case);
every `Unique` and every de Bruijn index is a symbolic integer, so all shadowing / duplicate /
free-variable patterns of a shape are decided at once by z3.  Oracle: binder resolution written
independently below (innermost enclosing binder with the same unique; index = distance).
"""
from __future__ import annotations

import itertools
import time

import z3

from mirsym.exec import Unsupported
from mirsym.values import *  # noqa
from mirsym.world import World
from vlib.common import Obligation, Result, KnownFindings, log

# ------------------------------------------------------------------------------------------------ shapes


def shapes(n: int):
    """all term shapes with exactly n nodes"""
    if n <= 0:
        return
    if n == 1:
        yield ("var",)
        yield ("const",)
        yield ("constr", ())
        return
    for s in shapes(n - 1):
        yield ("lam", s)
        yield ("delay", s)
        yield ("force", s)
        yield ("constr", (s,))
        yield ("case", s, ())
    for k in range(1, n - 1):
        for a in shapes(k):
            for b in shapes(n - 1 - k):
                yield ("app", a, b)
                yield ("case", a, (b,))
                if k <= n - 1 - k:
                    yield ("constr", (a, b))


def has_var(s):
    if s[0] == "var":
        return True
    for x in s[1:]:
        if isinstance(x, tuple) and x and isinstance(x[0], str):
            if has_var(x):
                return True
        elif isinstance(x, tuple):
            if any(has_var(y) for y in x):
                return True
    return False


def all_shapes(maxn):
    out = []
    for n in range(1, maxn + 1):
        for s in shapes(n):
            if has_var(s):
                out.append(s)
    return out


# ------------------------------------------------------------------------------------------------ building terms


class Build:
    def __init__(self, w: World, ex, binder: str):
        self.w, self.ex, self.binder = w, ex, binder
        self.vars = []     # (z3 unique|index, binder stack at the variable [outermost..innermost])
        self.binders = []  # z3 uniques of binders in traversal order
        self.n = 0

    def fresh(self, p):
        self.n += 1
        return z3.BitVec(f"{p}{self.n}", 64)

    def name(self, u):
        w = self.w
        text = Str(z3.Concat(z3.Unit(z3.BitVecVal(120, 8)), z3.Empty(ByteSeq)))
        if self.binder == "name":
            return w.adt("Name", None, text=text, unique=w.adt("Unique", None, BV(u, 64, True)))
        if self.binder == "named_debruijn":
            return w.adt("NamedDeBruijn", None, text=text, index=w.adt("DeBruijn", None, BV(u, 64, False)))
        return w.adt("DeBruijn", None, BV(u, 64, False))

    def term(self, s, stack):
        w = self.w
        rc = lambda v: BoxV(v, "Rc")  # noqa: E731
        k = s[0]
        if k == "var":
            u = self.fresh("v")
            self.vars.append((u, list(stack)))
            return w.adt("Term", "Var", rc(self.name(u)))
        if k == "const":
            return w.adt("Term", "Constant", rc(fresh_obj("c", "Constant")))
        if k == "lam":
            if self.binder == "name":
                b = self.fresh("b")
            else:
                b = z3.BitVecVal(0, 64)  # parameter index of a well-formed de Bruijn lambda
            self.binders.append(b)
            body = self.term(s[1], stack + [b if self.binder == "name" else len(self.binders) - 1])
            return w.adt("Term", "Lambda", parameter_name=rc(self.name(b)), body=rc(body))
        if k in ("delay", "force"):
            return w.adt("Term", k.capitalize(), rc(self.term(s[1], stack)))
        if k == "app":
            f = self.term(s[1], stack)
            a = self.term(s[2], stack)
            return w.adt("Term", "Apply", function=rc(f), argument=rc(a))
        if k == "constr":
            fs = [self.term(x, stack) for x in s[1]]
            return w.adt("Term", "Constr", tag=self.ex.mk_int(0, 64, False), fields=VecV(Arr(tuple(fs))))
        if k == "case":
            c = self.term(s[1], stack)
            bs = [self.term(x, stack) for x in s[2]]
            return w.adt("Term", "Case", constr=rc(c), branches=VecV(Arr(tuple(bs))))
        raise ValueError(k)


def collect_out(w, t, out_vars, out_binders):
    """walk a converted term in the same traversal order, collecting variable payloads and binder payloads"""
    if isinstance(t, BoxV):
        t = t.inner
    v = t.variant
    if v == "Var":
        out_vars.append(t.fields[0].inner)
    elif v == "Lambda":
        out_binders.append(t.fields[0].inner)
        collect_out(w, t.fields[1], out_vars, out_binders)
    elif v in ("Delay", "Force"):
        collect_out(w, t.fields[0], out_vars, out_binders)
    elif v == "Apply":
        collect_out(w, t.fields[0], out_vars, out_binders)
        collect_out(w, t.fields[1], out_vars, out_binders)
    elif v == "Constr":
        for x in t.fields[1].items.elems:
            collect_out(w, x, out_vars, out_binders)
    elif v == "Case":
        collect_out(w, t.fields[0], out_vars, out_binders)
        for x in t.fields[1].items.elems:
            collect_out(w, x, out_vars, out_binders)


def payload_int(ex, w, p, what):
    """index / unique integer (z3 expr) of a DeBruijn / NamedDeBruijn / Name value"""
    if p.ty == "DeBruijn":
        return p.fields[0].e
    if p.ty == "NamedDeBruijn":
        return w.get(p, "index").fields[0].e
    if p.ty == "Name":
        return w.get(p, "unique").fields[0].e
    raise Unsupported(f"payload {p.ty}")


def as_bv(e):
    return e if not z3.is_int(e) else z3.Int2BV(e, 64)


# ------------------------------------------------------------------------------------------------ obligations


def to_debruijn_obligation(world, res, tier, method, shape_list):
    """Converter::name_to_debruijn / name_to_named_debruijn"""
    name = f"convert/{method}"
    ob = Obligation(name, "discharged", "")
    t0 = time.time()
    ex = world.executor(timeout_ms=20000, max_paths=3000, max_steps=20000)
    try:
        fn = world.fn("Converter", method)
        f_new = world.fn("Converter", "new")
    except Unsupported as e:
        ob.status, ob.detail = "undecided", str(e)
        res.add(ob)
        return
    npaths = nshapes = 0
    seen_free = seen_bound = False
    for shape in shape_list:
        try:
            st = ex.new_state()
            (oc,) = ex.run(f_new, [], st)
            conv = ex.alloc(oc.state, oc.value)
            st = oc.state
            st.frames = []
            b = Build(world, ex, "name")
            term = b.term(shape, [])
            tref = ex.alloc(st, term)
            outs = ex.run(fn, [conv, tref], st)
        except Unsupported as e:
            ob.status, ob.detail = "undecided", f"{e} (shape {shape})"
            break
        except ValueError as e:
            ob.status, ob.detail = "undecided", f"Converter::new: {e}"
            break
        nshapes += 1
        # oracle
        spec_idx, free = [], []
        for u, stack in b.vars:
            d = len(stack)
            idx = z3.BitVecVal(0, 64)
            fr = z3.BoolVal(True)
            for j, bu in enumerate(stack):  # outermost .. innermost: later ones override
                idx = z3.If(u == bu, z3.BitVecVal(d - j, 64), idx)
                fr = z3.And(fr, u != bu)
            spec_idx.append(idx)
            free.append(fr)
        anyfree = z3.Or(free + [z3.BoolVal(False)])
        for o in outs:
            npaths += 1
            if o.kind == "undecided":
                ob.status, ob.detail = "undecided", f"{o.msg} (shape {shape})"
                break
            if o.kind == "panic":
                m = ex.model(o.pc)
                ob.status, ob.detail = "violated", f"conversion panics: {o.msg} (shape {shape}); {str(m)[:300]}"
                ob.finding_key = f"{method}: panic"
                break
            v = o.value
            if v.variant == "Err":
                seen_free = True
                r = ex.check(o.pc, z3.Not(anyfree))
                if r == "sat":
                    m = ex.model(o.pc, z3.Not(anyfree))
                    ob.status, ob.detail = "violated", f"a closed term is rejected: shape {shape}, {str(m)[:300]}"
                    ob.finding_key = f"{method}: closed term rejected"
                    break
                continue
            ov, obd = [], []
            collect_out(world, v.fields[0], ov, obd)
            if len(ov) != len(b.vars) or len(obd) != len(b.binders):
                ob.status, ob.detail, ob.finding_key = "violated", f"term structure changed by the conversion (shape {shape})", f"{method}: structure"
                break
            seen_bound = True
            r = ex.check(o.pc, anyfree)
            if r == "sat":
                m = ex.model(o.pc, anyfree)
                ob.status, ob.detail = "violated", f"a free variable is silently bound: shape {shape}, {str(m)[:300]}"
                ob.finding_key = f"{method}: free variable accepted"
                break
            bad = False
            for got, want in zip(ov, spec_idx):
                g = as_bv(payload_int(ex, world, got, "index"))
                r = ex.check(o.pc, g != want)
                if r == "sat":
                    m = ex.model(o.pc, g != want)
                    ob.status = "violated"
                    ob.detail = f"a variable is resolved to the wrong binder: shape {shape}, index {m.eval(g, True)} instead of {m.eval(want, True)}; {str(m)[:300]}"
                    ob.finding_key = f"{method}: wrong binder"
                    bad = True
                    break
            if bad:
                break
            for pb in obd:
                g = as_bv(payload_int(ex, world, pb, "index"))
                if ex.check(o.pc, g != 0) == "sat":
                    ob.status, ob.detail, ob.finding_key = "violated", f"lambda parameter index is not 0 (shape {shape})", f"{method}: parameter index"
                    bad = True
                    break
            if bad:
                break
        if ob.status != "discharged":
            break
    if ob.status == "discharged":
        if not (seen_free and seen_bound):
            ob.status, ob.detail = "undecided", "vacuous"
        else:
            ob.detail = f"{nshapes} shapes, {npaths} paths: every variable resolves to the innermost binder with its unique; free variables rejected"
            ob.witness = True
    ob.queries, ob.solver_s = ex.queries, round(ex.solver_s, 3)
    res.functions.update(ex.encoded)
    res.add(ob)
    res.samples.append({"obligation": name, "shapes": nshapes, "example_shape": str(shape_list[min(7, len(shape_list) - 1)])})


def to_name_obligation(world, res, tier, method, binder, shape_list):
    """Converter::debruijn_to_name / named_debruijn_to_name: index i under d binders is accepted iff 1 <= i <= d and then
    carries the unique given to the binder it points to."""
    name = f"convert/{method}"
    ob = Obligation(name, "discharged", "")
    ex = world.executor(timeout_ms=20000, max_paths=3000, max_steps=20000)
    try:
        fn = world.fn("Converter", method)
        f_new = world.fn("Converter", "new")
    except Unsupported as e:
        ob.status, ob.detail = "undecided", str(e)
        res.add(ob)
        return
    npaths = nshapes = 0
    seen_free = seen_bound = False
    for shape in shape_list:
        try:
            st = ex.new_state()
            (oc,) = ex.run(f_new, [], st)
            conv = ex.alloc(oc.state, oc.value)
            st = oc.state
            st.frames = []
            b = Build(world, ex, binder)
            term = b.term(shape, [])
            tref = ex.alloc(st, term)
            outs = ex.run(fn, [conv, tref], st)
        except Unsupported as e:
            ob.status, ob.detail = "undecided", f"{e} (shape {shape})"
            break
        nshapes += 1
        valid = []
        for u, stack in b.vars:
            d = len(stack)
            valid.append(z3.And(z3.UGE(u, 1), z3.ULE(u, d)))
        allvalid = z3.And(valid + [z3.BoolVal(True)])
        for o in outs:
            npaths += 1
            if o.kind == "undecided":
                ob.status, ob.detail = "undecided", f"{o.msg} (shape {shape})"
                break
            if o.kind == "panic":
                m = ex.model(o.pc)
                ob.status, ob.detail = "violated", f"conversion panics: {o.msg} (shape {shape}); {str(m)[:300]}"
                ob.finding_key = f"{method}: panic"
                break
            v = o.value
            if v.variant == "Err":
                seen_free = True
                if ex.check(o.pc, allvalid) == "sat":
                    m = ex.model(o.pc, allvalid)
                    ob.status, ob.detail = "violated", f"a closed term is rejected: shape {shape}, {str(m)[:300]}"
                    ob.finding_key = f"{method}: closed term rejected"
                    break
                continue
            seen_bound = True
            if ex.check(o.pc, z3.Not(allvalid)) == "sat":
                m = ex.model(o.pc, z3.Not(allvalid))
                ob.status = "violated"
                ob.detail = f"an index that points outside the enclosing binders is silently bound to some binder: shape {shape}, {str(m)[:300]}"
                ob.finding_key = f"{method}: free index accepted"
                break
            ov, obd = [], []
            collect_out(world, v.fields[0], ov, obd)
            if len(ov) != len(b.vars) or len(obd) != len(b.binders):
                ob.status, ob.detail, ob.finding_key = "violated", f"term structure changed (shape {shape})", f"{method}: structure"
                break
            buniq = [as_bv(payload_int(ex, world, pb, "unique")) for pb in obd]
            bad = False
            # binders get pairwise distinct uniques
            for x, y in itertools.combinations(buniq, 2):
                if ex.check(o.pc, x == y) == "sat":
                    ob.status, ob.detail, ob.finding_key = "violated", f"two binders receive the same unique (shape {shape})", f"{method}: duplicate unique"
                    bad = True
                    break
            if bad:
                break
            for (u, stack), got in zip(b.vars, ov):
                g = as_bv(payload_int(ex, world, got, "unique"))
                d = len(stack)
                want = z3.BitVecVal(0, 64)
                for j, bidx in enumerate(stack):  # stack holds positions into b.binders (traversal order)
                    want = z3.If(u == d - j, buniq[bidx], want)
                if ex.check(o.pc, g != want) == "sat":
                    m = ex.model(o.pc, g != want)
                    ob.status, ob.detail = "violated", f"a variable gets the unique of a binder other than the one its index points to: shape {shape}; {str(m)[:300]}"
                    ob.finding_key = f"{method}: wrong binder"
                    bad = True
                    break
            if bad:
                break
        if ob.status != "discharged":
            break
    if ob.status == "discharged":
        if not (seen_free and seen_bound):
            ob.status, ob.detail = "undecided", "vacuous"
        else:
            ob.detail = f"{nshapes} shapes, {npaths} paths: index i under d binders accepted iff 1<=i<=d, and named after the binder it points to"
            ob.witness = True
    ob.queries, ob.solver_s = ex.queries, round(ex.solver_s, 3)
    res.functions.update(ex.encoded)
    res.add(ob)


def run(tier: str, seed: int, only=None) -> Result:
    res = Result("C11", tier, seed, "model_checking")
    maxn = 4 if tier == "quick" else 6
    sl = all_shapes(maxn)
    res.assumptions = [
        "mirsym trusted base: MIR interpreter + library summaries; HashMap = association list with symbolic keys (newest entry wins)",
        "lambda parameters of de Bruijn-form inputs carry index 0 (what the flat decoder and the converters produce)",
        "texts of names are irrelevant to binding and kept constant",
    ]
    res.bounds = {"term shapes": f"all {len(sl)} shapes with a variable, up to {maxn} nodes, over var/lam/apply/delay/force/constr/case",
                  "uniques / indices": "symbolic 64-bit (all shadowing, duplicate and free patterns at once)"}
    res.extra["explanation"] = "symbolic execution of debruijn::Converter from MIR on enumerated term shapes with symbolic uniques/indices; z3 compares with an independent binder-resolution function"
    res.extra["trusted_base"] = ["rustc nightly MIR dump", "mirsym/exec.py", "mirsym/summaries.py", "z3 5.1"]
    kf = KnownFindings()
    world = World(("uplc",))
    jobs = [("name_to_debruijn", None), ("name_to_named_debruijn", None), ("debruijn_to_name", "debruijn"), ("named_debruijn_to_name", "named_debruijn")]
    for m, binder in jobs:
        if only and only not in m:
            continue
        t = time.time()
        if binder is None:
            to_debruijn_obligation(world, res, tier, m, sl)
        else:
            to_name_obligation(world, res, tier, m, binder, sl)
        log(f"[C11] {m}: {time.time() - t:.1f}s")
    from props import common_post
    common_post.postprocess(res, kf, replay_fn=None)
    return res
