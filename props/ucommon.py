"""Shared machinery of the uplcsym (engine U) checks: corpus, compilation through the real compiler (drv-lang),
symbolic arguments from the declared parameter types, native replay."""
from __future__ import annotations

import glob
import hashlib
import json
import os
import random
import re
import time

import z3

from uplcsym import values as V
from uplcsym.machine import Machine, parse_term
from vlib import driver as D
from vlib.common import REPO, VERIF, log

Data, DataList, PairList = V.Data, V.DataList, V.PairList


# ------------------------------------------------------------------------------------------------ corpus


def acceptance_sources():
    """single-file, dependency-free acceptance projects of the repository"""
    out = []
    base = os.path.join(REPO, "examples", "acceptance_tests")
    for d in sorted(os.listdir(base)):
        files = [f for f in glob.glob(os.path.join(base, d, "**", "*.ak"), recursive=True) if "/build/" not in f]
        if len(files) != 1:
            continue
        src = open(files[0]).read()
        if re.search(r"^use (?!aiken/builtin)", src, re.M):
            continue
        kind = "validator" if "/validators/" in files[0] else "lib"
        out.append((f"acceptance/{d}", src, kind))
    return out


def own_sources():
    out = []
    for f in sorted(glob.glob(os.path.join(VERIF, "corpus", "*.ak"))):
        out.append((f"corpus/{os.path.basename(f)[:-3]}", open(f).read(), "validator"))
    return out


def corpus(tier: str, seed: int):
    own = own_sources()
    acc = acceptance_sources()
    if tier == "quick" and not os.environ.get("VERIF_FULL_CORPUS"):
        rnd = random.Random(seed)
        acc = rnd.sample(acc, min(12, len(acc)))
    return own + acc


def chunked(mods, own_chunks=8):
    """split the (large) hand-written corpus modules into function chunks so that they are explored in parallel:
    (name, src, kind) -> (name, src, kind, chunk, nchunks)"""
    out = []
    for m in mods:
        n = own_chunks if m[0].startswith("corpus/") else 1
        for c in range(n):
            out.append((m[0], m[1], m[2], c, n))
    return out


def in_chunk(m, i):
    return len(m) < 5 or i % m[4] == m[3]


_compile_cache = {}


def compile_module(src: str, tracing="silent", scope="all", kind="validator", plutus="v3"):
    key = hashlib.sha256(f"{tracing}|{scope}|{kind}|{plutus}|{src}".encode()).hexdigest()
    if key in _compile_cache:
        return _compile_cache[key]
    r = D.get("drv-lang").call("compile", timeout=600, src=src, tracing=tracing, scope=scope, kind=kind, plutus=plutus)
    _compile_cache[key] = r
    return r


# ------------------------------------------------------------------------------------------------ typed arguments


class NotRepresentable(Exception):
    pass


def dl_of_len_exact(l, preds):
    """DataList l has exactly len(preds) elements, element i satisfies preds[i]"""
    cs = []
    cur = l
    for p in preds:
        cs.append(DataList.is_dcons(cur))
        cs.append(p(DataList.dhead(cur)))
        cur = DataList.dtail(cur)
    cs.append(DataList.is_dnil(cur))
    return z3.And(*cs)


def dl_each(l, pred, maxlen):
    """length <= maxlen and every element satisfies pred"""
    if maxlen <= 0:
        return DataList.is_dnil(l)
    return z3.Or(DataList.is_dnil(l), z3.And(DataList.is_dcons(l), pred(DataList.dhead(l)), dl_each(DataList.dtail(l), pred, maxlen - 1)))


def pl_each(l, pk, pv, maxlen):
    if maxlen <= 0:
        return PairList.is_pnil(l)
    return z3.Or(PairList.is_pnil(l), z3.And(PairList.is_pcons(l), pk(PairList.pkey(l)), pv(PairList.pval(l)), pl_each(PairList.ptail(l), pk, pv, maxlen - 1)))


def conforms(t: dict, d, depth: int, width: int, defs=None, list_records=False):
    """z3 Bool: Data term d is the representation of some value of the Aiken type described by TYPEDESC t
    (values nested deeper than `depth` / lists longer than `width` are excluded: stated bound)"""
    defs = defs if defs is not None else {}
    k = t["k"]
    if k == "int":
        return Data.is_I(d)
    if k in ("bytes", "string", "g1", "g2"):
        return Data.is_B(d)
    if k == "bool":
        return z3.And(Data.is_Constr(d), z3.Or(Data.ctag(d) == 0, Data.ctag(d) == 1), DataList.is_dnil(Data.cfields(d)))
    if k == "void":
        return z3.And(Data.is_Constr(d), Data.ctag(d) == 0, DataList.is_dnil(Data.cfields(d)))
    if k == "data":
        return V.bounded_data(d, max(depth, 0), width)
    if depth <= 0:
        return z3.BoolVal(False)
    if k == "list":
        e = t["elem"]
        if e["k"] == "pair":
            return z3.And(Data.is_Map(d), pl_each(Data.mentries(d), lambda x: conforms(e["fst"], x, depth - 1, width, defs, list_records),
                                                   lambda x: conforms(e["snd"], x, depth - 1, width, defs, list_records), width))
        return z3.And(Data.is_List(d), dl_each(Data.litems(d), lambda x: conforms(e, x, depth - 1, width, defs, list_records), width))
    if k == "tuple":
        return z3.And(Data.is_List(d), dl_of_len_exact(Data.litems(d), [(lambda x, tt=tt: conforms(tt, x, depth - 1, width, defs, list_records)) for tt in t["elems"]]))
    if k == "pair":
        return z3.And(Data.is_List(d), dl_of_len_exact(Data.litems(d), [lambda x: conforms(t["fst"], x, depth - 1, width, defs, list_records),
                                                                       lambda x: conforms(t["snd"], x, depth - 1, width, defs, list_records)]))
    if k == "adt":
        if any(str(x).startswith("list") for x in t.get("decorators", [])) and list_records and len(t["constructors"]) == 1 and not t.get("transparent"):
            # @list record: the Data form is the bare list of its fields (used by C12's `inhabits`; such values are not passed as
            # arguments by the drivers)
            c = t["constructors"][0]
            return z3.And(Data.is_List(d), dl_of_len_exact(Data.litems(d), [(lambda x, ft=f["type"]: conforms(ft, x, depth - 1, width, defs, list_records)) for f in c["fields"]]))
        if t.get("transparent") or any(str(x).startswith("list") for x in t.get("decorators", [])):
            raise NotRepresentable("transparent opaque / @list type (passed natively)")
        name = f"{t.get('module')}.{t.get('name')}<{json.dumps(t.get('args'), sort_keys=True)}>"
        defs = dict(defs)
        defs[_refname(t)] = t
        alts = []
        for c in t["constructors"]:
            idx = c["index"]
            # a constructor's own @tag wins over a @tag on the type (record sugar puts it there): same rule as the
            # serialiser's get_constr_index_variant
            for dec in list(t.get("decorators", [])) + list(c.get("decorators", [])):
                m = re.match(r"tag\((\d+)\)", str(dec))
                if m:
                    idx = int(m.group(1))
            alts.append(z3.And(Data.ctag(d) == idx,
                               dl_of_len_exact(Data.cfields(d), [(lambda x, ft=f["type"]: conforms(ft, x, depth - 1, width, defs, list_records)) for f in c["fields"]])))
        return z3.And(Data.is_Constr(d), z3.Or(*alts) if alts else z3.BoolVal(False))
    if k == "ref":
        tt = defs.get(t["name"])
        if tt is None:
            for kk, vv in defs.items():
                if kk.endswith(t["name"]) or t["name"].endswith(kk):
                    tt = vv
            if tt is None:
                raise NotRepresentable(f"unresolved type reference {t['name']}")
        return conforms(tt, d, depth, width, defs, list_records)
    raise NotRepresentable(f"type kind {k}")


def _refname(t):
    args = t.get("args") or []

    def show(a):
        k = a["k"]
        if k == "adt":
            return a["name"] + ("<" + ", ".join(show(x) for x in a.get("args") or []) + ">" if a.get("args") else "")
        return {"int": "Int", "bytes": "ByteArray", "bool": "Bool", "string": "String", "void": "Void", "data": "Data"}.get(k, k)
    return f"{t.get('module')}.{t.get('name')}" + ("<" + ", ".join(show(a) for a in args) + ">" if args else "")


def sym_args(fn: dict, mode: str, depth: int, width: int):
    """-> (args [Con data], assumptions [z3 Bool]) ; mode 'typed' | 'anydata'"""
    args, assume = [], []
    for i, p in enumerate(fn["params"]):
        a = V.sym_data(f"arg{i}")
        args.append(a)
        if mode == "typed":
            assume.append(conforms(p["type"], a.v, depth, width))
        else:
            assume.append(V.bounded_data(a.v, depth, width))
    if fn.get("kind") == "validator":
        # \param1 .. paramN -> \__context__ -> ..   : the script context is one more Data argument
        ctx = V.sym_data("ctx")
        args.append(ctx)
        assume.append(V.bounded_data(ctx.v, depth + 1, width))
    return args, assume


def passes_natively(fn: dict) -> bool:
    """every parameter is passed as Data (see driver PROTOCOL.md: transparent opaque / @list types are not)"""
    def ok(t):
        k = t["k"]
        if k in ("fn", "var", "ml", "adt_unknown"):
            return False
        if k == "adt":
            if t.get("transparent") or any(str(x).startswith("list") for x in t.get("decorators", [])):
                return False
        return True
    return all(ok(p["type"]) for p in fn["params"])


# ------------------------------------------------------------------------------------------------ running


_run_cache = {}


def run_program(prog: dict, args, assume, sem="E", max_steps=20000, max_paths=400, timeout_ms=10000, deadline_s=None):
    if deadline_s is None:
        deadline_s = int(os.environ.get("VERIF_EXPLORE_DEADLINE", "0")) or (90 if os.environ.get("VERIF_TIER", "quick") == "quick" else 240)
    # the same program is explored again and again when it is compared with several variants (C14: the silent build against
    # every trace setting; variants that generate identical code): explorations are memoised per process on the program text,
    # the argument names and the assumptions (symbolic arguments are z3 constants with deterministic names)
    key = (hashlib.sha256(json.dumps(prog["term"], sort_keys=True).encode()).hexdigest(), tuple(str(getattr(a, "v", a)) for a in args),
           tuple(a.sexpr() if hasattr(a, "sexpr") else str(a) for a in assume), sem, max_steps, max_paths)
    hit = _run_cache.get(key)
    if hit is not None:
        paths, stats = hit
        return paths, dict(stats, queries=0, solver_s=0.0), 0.0
    m = Machine(semantics=sem, max_steps=max_steps, max_paths=max_paths, solver_timeout_ms=timeout_ms, deadline_s=deadline_s)
    t = time.time()
    paths = m.run(parse_term(prog["term"]), args, assume)
    if len(_run_cache) < 400:
        _run_cache[key] = (paths, dict(m.stats))
    return paths, m.stats, time.time() - t


def native_apply(term_json, arg_jsons, lang="v3"):
    t = term_json
    for a in arg_jsons:
        t = {"app": [t, {"con": {"data": a}} if "con" not in a else a]}
    return D.get("drv-lang").call("eval", term=t, lang=lang, timeout=60)


def native_outcome(resp):
    """('value', json) | ('error', variant) | ('panic', msg)"""
    if "panic" in resp:
        return ("panic", resp["panic"])
    r = resp.get("result")
    if r is None:
        return ("unknown", json.dumps(resp)[:200])
    if "Ok" in r:
        return ("value", r["Ok"])
    return ("error", r["Err"].get("variant"))


STRUCTURAL_NATIVE = {"TypeMismatch", "NonFunctionalApplication", "NonPolymorphicInstantiation", "OpenTermEvaluated", "MissingCaseBranch",
                     "NonConstrScrutinized", "NotAConstant", "BuiltinTermArgumentExpected", "UnexpectedBuiltinTermArgument",
                     "ListTypeMismatch", "PairTypeMismatch"}


# ------------------------------------------------------------------------------------------------ parallel map over corpus modules


def _init_worker():
    # a forked worker must not share the parent's driver pipes
    D._drivers.clear()
    _compile_cache.clear()
    _run_cache.clear()


def pmap(func, items, jobs=None):
    """run func(item) -> picklable in forked workers (one driver process per worker); order preserved"""
    import multiprocessing as mp
    items = list(items)
    jobs = jobs or min(12, os.cpu_count() or 4, max(1, len(items)))
    if jobs <= 1 or len(items) <= 1:
        return [func(x) for x in items]
    # close the parent's drivers before forking so that children start their own
    for d in list(D._drivers.values()):
        d.close()
    D._drivers.clear()
    with mp.get_context("fork").Pool(jobs, initializer=_init_worker) as pool:
        return pool.map(func, items, chunksize=1)


def merge(res, parts):
    """parts: list of sub-Results produced by workers"""
    for sub in parts:
        for ob in sub.obligations:
            res.add(ob)
        res.mismatches += sub.mismatches
        for k in ("disagreements_checked", "programs"):
            res.extra[k] = res.extra.get(k, 0) + sub.extra.get(k, 0)
        for smp in sub.samples:
            if len(res.samples) < 8:
                res.samples.append(smp)
