"""C15 UPLC text round-trips — mirsym, the tables the printer and the parser keep separately (PARTIAL).

Decided from MIR:
  names/builtin   for a SYMBOLIC builtin tag b (every declared discriminant at once):
                  <DefaultFunction as FromStr>::from_str(<DefaultFunction as Display>::fmt(b)) == Ok(b)
  names/injective two different tags never print the same text (otherwise the parser cannot tell them apart)
  types/leaf      for every leaf of uplc::ast::Type, the keyword written by Type::to_doc is the keyword the peg rule
                  `type_info` of parser.rs maps back to that type (rule alternatives are read from the grammar source; the
                  printer side is executed from MIR with RcDoc::text summarised as the identity on strings)

Outside the claim (not encodable within reach, see DESIGN.md): layout by the `pretty` crate, numbers, string escapes,
nesting of lists/pairs/data, the peg-generated parser as a whole."""
from __future__ import annotations

import os
import re
import time

import z3

from mirsym import summaries as S
from mirsym.exec import Unsupported
from mirsym.values import *  # noqa
from mirsym.world import World
from vlib.common import Obligation, Result, KnownFindings, REPO, log


def _fmt_text(ex, st, fa):
    v = S._fmt_format2(ex, st, None, [fa], None)
    if not isinstance(v, Str):
        raise Unsupported("format arguments not decodable")
    return v


def _stub_write_fmt(ex, st, c, args, dty):
    """Formatter::write_fmt(f, args): the formatter is modelled as the text written so far"""
    f = args[0]
    cur = S.deref(ex, st, f)
    txt = _fmt_text(ex, st, args[1])
    if not isinstance(cur, Str):
        raise Unsupported("formatter model")
    S.write_through(ex, st, f, Str(z3.Concat(cur.s, txt.s)))
    return ex.ok(Tup(()))


def _stub_write_str(ex, st, c, args, dty):
    f = args[0]
    cur = S.deref(ex, st, f)
    s = S.deref(ex, st, args[1])
    if not isinstance(cur, Str) or not isinstance(s, Str):
        raise Unsupported("formatter model")
    S.write_through(ex, st, f, Str(z3.Concat(cur.s, s.s)))
    return ex.ok(Tup(()))


FMT_STUBS = {"Formatter::write_fmt": _stub_write_fmt, "Formatter::<'_>::write_fmt": _stub_write_fmt, "Formatter::write_str": _stub_write_str,
             "Formatter::<'_>::write_str": _stub_write_str}


def concrete_text(ex, pc, s: Str):
    b = S._concrete_bytes(s.s)
    return None if b is None else b.decode("utf-8", "replace")


def builtin_names(world: World, res: Result):
    ob = Obligation("names/builtin", "discharged", "")
    ex = world.executor(timeout_ms=20000, max_paths=2000, max_steps=20000)
    ex.stubs.update(FMT_STUBS)
    try:
        f_fmt = world.fn("DefaultFunction", "fmt", trait="Display")
        f_from = world.fn("DefaultFunction", "from_str")
        variants = world.variants("DefaultFunction")
    except Unsupported as e:
        ob.status, ob.detail = "undecided", str(e)
        res.add(ob)
        return
    st = ex.new_state()
    disc = z3.BitVec("builtin_tag", 64)
    b = EnumSym("DefaultFunction", disc)
    discs = [v.disc if getattr(v, "disc", None) is not None else i for i, v in enumerate(variants)]
    st.pc.append(z3.Or([disc == d for d in discs]))
    bref = ex.alloc(st, b)
    fref = ex.alloc(st, Str(z3.Empty(S.ByteSeq)))
    bad = []
    seen = {}
    npaths = 0
    try:
        outs = ex.run(f_fmt, [bref, fref], st)
    except Unsupported as e:
        ob.status, ob.detail = "undecided", str(e)
        res.add(ob)
        return
    for o in outs:
        npaths += 1
        if o.kind != "return":
            if o.kind == "panic":
                m = ex.model(o.pc)
                bad.append((f"Display::fmt panics: {o.msg}", {"tag": str(m.eval(disc, True))}, "Display panic"))
            else:
                ob.status, ob.detail = "undecided", f"Display::fmt: {o.msg}"
            continue
        txt = S.deref(ex, o.state, fref)
        name = concrete_text(ex, o.pc, txt)
        m = ex.model(o.pc)
        tag = m.eval(disc, True).as_long() if m is not None else None
        if name is None:
            ob.status, ob.detail = "undecided", "printed text not concrete on a path"
            continue
        vname = next((v.name for i, v in enumerate(variants) if discs[i] == tag), str(tag))
        if name in seen and seen[name] != vname:
            bad.append((f"two builtins print the same text {name!r}: {seen[name]} and {vname}", {"text": name}, f"duplicate name {name}"))
        seen[name] = vname
        # parse the text back on this path
        s2 = o.state
        s2.frames = []
        sref = ex.alloc(s2, txt)
        try:
            outs2 = ex.run(f_from, [sref], s2)
        except Unsupported as e:
            ob.status, ob.detail = "undecided", f"from_str: {e}"
            continue
        for o2 in outs2:
            if o2.kind == "panic":
                bad.append((f"from_str panics on {name!r}: {o2.msg}", {"text": name}, f"from_str panic {vname}"))
                continue
            if o2.kind != "return":
                ob.status, ob.detail = "undecided", f"from_str: {o2.msg}"
                continue
            r = o2.value
            if not isinstance(r, Adt) or r.variant != "Ok":
                bad.append((f"the printer writes builtin {vname} as {name!r}, which from_str rejects", {"builtin": vname, "text": name}, f"unparsable name {vname}"))
                continue
            back = r.fields[0] if r.fields else None
            d2 = ex.disc_of(back).e if back is not None else None
            if d2 is None or ex.check(o2.pc, d2 != disc) == "sat":
                bad.append((f"the printer writes builtin {vname} as {name!r}, which from_str reads as a different builtin", {"builtin": vname, "text": name}, f"misread name {vname}"))
    ob.queries, ob.solver_s = ex.queries, round(ex.solver_s, 3)
    res.functions.update(ex.encoded)
    res.extra["builtins"] = len(seen)
    if bad:
        for what, model, key in bad:
            vb = Obligation(f"names/builtin/{key}", "violated", what)
            vb.model = model
            vb.finding_key = key
            res.add(vb)
        ob.detail = f"{len(bad)} table inconsistencies reported separately; {len(seen)} names checked"
    elif ob.status == "discharged":
        if len(seen) < len(variants):
            ob.status, ob.detail = "undecided", f"only {len(seen)} of {len(variants)} tags reached"
        else:
            ob.detail = f"{npaths} paths: all {len(seen)} builtin names are distinct and parse back to their own tag"
            ob.witness = True
    res.add(ob)
    res.samples.append({"obligation": "names/builtin", "names": sorted(seen)[:6]})


def replay_builtin(ob):
    """native replay through the real printer and parser (driver)"""
    from vlib import driver as D
    m = ob.model or {}
    name = m.get("builtin")
    if not name:
        return None, "no native replay for this obligation"
    # the driver names builtins by Display, so build the program from the flat tag instead
    bl = D.get("drv-uplc").call("builtins")["builtins"]
    text = m.get("text")
    tag = next((x["tag"] for x in bl if x["name"] == text), None)
    if tag is None:
        return None, "builtin not found in the driver table"
    pp = D.get("drv-uplc").call("pretty", program={"version": [1, 1, 0], "term": {"builtin_tag": tag}}, binder="debruijn")
    if "text" not in pp:
        return None, f"pretty failed: {pp}"
    back = D.get("drv-uplc").call("parse", text=pp["text"])
    if "panic" in back:
        return True, f"printed text {pp['text']!r} makes the parser panic: {str(back['panic'])[:160]}"
    if "Err" in back:
        return True, f"printed text {pp['text']!r} is rejected by the parser: {str(back['Err'])[:120]}"
    if "Ok" not in back:
        return None, f"unexpected driver answer {str(back)[:120]}"
    return False, f"printed text {pp['text']!r} parses"


# ------------------------------------------------------------------------------------------------ type keywords


def grammar_type_keywords():
    """leaf alternatives of the peg rule type_info: keyword -> Type variant (read from the grammar source)"""
    src = open(os.path.join(REPO, "crates/uplc/src/parser.rs")).read()
    m = re.search(r"rule type_info\(\)[^=]*=(.*?)\n\s*rule ", src, re.S)
    if not m:
        raise Unsupported("peg rule type_info not found in parser.rs")
    out = {}
    for kw, var in re.findall(r'"([A-Za-z_0-9]+)"\s*\{\s*Type::([A-Za-z_0-9]+)\s*\}', m.group(1)):
        out[kw] = var
    return out


def _stub_rcdoc_text(ex, st, c, args, dty):
    return S.deref(ex, st, args[0])


def type_keywords(world: World, res: Result):
    ob = Obligation("types/leaf", "discharged", "")
    ex = world.executor(timeout_ms=20000, max_paths=500, max_steps=20000)
    ex.stubs.update({"RcDoc::text": _stub_rcdoc_text, "RcDoc::<'_, ()>::text": _stub_rcdoc_text, "RcDoc::<'a, ()>::text": _stub_rcdoc_text,
                     "RcDoc::<'_>::text": _stub_rcdoc_text})
    try:
        f_doc = world.fn("Type", "to_doc")
        kws = grammar_type_keywords()
        variants = [v for v in world.variants("Type")]
    except Unsupported as e:
        ob.status, ob.detail = "undecided", str(e)
        res.add(ob)
        return
    bad = []
    n = 0
    for v in variants:
        if v.fields:
            continue  # List / Pair: recursive layout, outside the claim
        if v.name == "Bls12_381MlResult":
            continue  # Miller-loop results have no concrete syntax by specification: they cannot occur in a program that is printed
        st = ex.new_state()
        tref = ex.alloc(st, Adt("Type", v.name, ()))
        try:
            outs = ex.run(f_doc, [tref], st)
        except Unsupported as e:
            ob.status, ob.detail = "undecided", f"Type::to_doc({v.name}): {e}"
            continue
        for o in outs:
            if o.kind != "return":
                ob.status, ob.detail = "undecided", f"Type::to_doc({v.name}): {o.msg}"
                continue
            txt = S.deref(ex, o.state, o.value)
            name = concrete_text(ex, o.pc, txt) if isinstance(txt, Str) else None
            if name is None:
                ob.status, ob.detail = "undecided", f"Type::to_doc({v.name}) is not a plain keyword"
                continue
            n += 1
            back = kws.get(name)
            if back is None:
                bad.append((f"Type::{v.name} is printed as {name!r}, which the grammar rule type_info does not accept", {"type": v.name, "text": name}, f"type keyword {v.name}"))
            elif back != v.name:
                bad.append((f"Type::{v.name} is printed as {name!r}, which the parser reads as Type::{back}", {"type": v.name, "text": name, "parsed_as": back}, f"type keyword {v.name}"))
    ob.queries, ob.solver_s = ex.queries, round(ex.solver_s, 3)
    res.functions.update(ex.encoded)
    for what, model, key in bad:
        vb = Obligation(f"types/leaf/{key}", "violated", what)
        vb.model = model
        vb.finding_key = key
        res.add(vb)
    if ob.status == "discharged":
        if n == 0:
            ob.status, ob.detail = "undecided", "vacuous"
        else:
            ob.detail = f"{n} leaf type keywords" + (f"; {len(bad)} inconsistencies reported separately" if bad else " agree with the grammar")
            ob.witness = True
    res.add(ob)


def replay_type(ob):
    from vlib import driver as D
    m = ob.model or {}
    ty = {"Bls12_381G1Element": "g1", "Bls12_381G2Element": "g2", "Bls12_381MlResult": "ml", "Integer": "integer", "ByteString": "bytestring", "String": "string",
          "Unit": "unit", "Bool": "bool", "Data": "data"}.get(m.get("type"))
    if ty is None:
        return None, "no native replay for this type"
    prog = {"version": [1, 1, 0], "term": {"con": {"list": [ty, []]}}}
    pp = D.get("drv-uplc").call("pretty", program=prog, binder="debruijn")
    if "text" not in pp:
        return None, f"pretty failed: {pp}"
    back = D.get("drv-uplc").call("parse", text=pp["text"])
    if "panic" in back:
        return True, f"printed text {pp['text']!r} makes the parser panic: {str(back['panic'])[:160]}"
    if "Err" in back:
        return True, f"printed text {pp['text']!r} is rejected by the parser"
    if "Ok" not in back:
        return None, f"unexpected driver answer {str(back)[:120]}"
    t2 = back["Ok"]["term"]
    same = t2 == prog["term"]
    return (not same), f"printed {pp['text']!r}, parsed back as {str(t2)[:100]}"


# ------------------------------------------------------------------------------------------------ document model


def _doc(*toks):
    return LibV("doc", tuple(toks))


def _as_doc(ex, st, v):
    v = S.deref(ex, st, v)
    if isinstance(v, LibV) and v.kind == "doc":
        return v
    if isinstance(v, Str):
        return _doc(("t", v))
    if isinstance(v, LibV) and v.kind == "shown":
        return _doc(("show", v.data))
    raise Unsupported(f"not a document: {type(v).__name__}")


def _stub_doc_text(ex, st, c, args, dty):
    return _as_doc(ex, st, args[0])


def _stub_doc_ws(ex, st, c, args, dty):
    return _doc(("ws",))


def _stub_doc_as_string(ex, st, c, args, dty):
    v = S.deref(ex, st, args[0])
    if isinstance(v, BV):
        return _doc(("show", ex.to_int_expr(v)))
    if isinstance(v, BigI):
        return _doc(("show", v.e))
    raise Unsupported("as_string of a non-integer")


def _stub_doc_append(ex, st, c, args, dty):
    a, b = _as_doc(ex, st, args[0]), _as_doc(ex, st, args[1])
    return _doc(*(a.data + b.data))


def _stub_doc_id(ex, st, c, args, dty):
    return _as_doc(ex, st, args[0])


def _stub_doc_intersperse(ex, st, c, args, dty):
    sep = _as_doc(ex, st, args[1])
    out = []
    for s0, items in S._force_iter(ex, st.clone(), args[0]):
        if isinstance(items, S.Panic):
            out.append((s0, items))
            continue
        elems = S._as_arr(items).elems
        toks = []
        for i, e in enumerate(elems):
            if i:
                toks += list(sep.data)
            toks += list(_as_doc(ex, s0, e).data)
        out.append((s0, _doc(*toks)))
    return S.Forked(out)


def _stub_bigint_to_string(ex, st, c, args, dty):
    return LibV("shown", S.as_big(ex, st, args[0]).e)


def _stub_hex_encode(ex, st, c, args, dty):
    v = S.deref(ex, st, args[0])
    if isinstance(v, VecV):
        v = v.items
    if isinstance(v, Bytes):
        return LibV("doc", (("hex", v.s),))
    raise Unsupported("hex::encode of a non-byte vector")


DOC_STUBS = {}
for _n in ("text",):
    for _g in ("", "::<'_>", "::<'_, ()>", "::<'a, ()>"):
        DOC_STUBS[f"RcDoc{_g}::{_n}"] = _stub_doc_text
for _n in ("space", "line", "line_", "softline", "softline_", "hardline", "nil"):
    for _g in ("", "::<'_>", "::<'_, ()>", "::<'a, ()>"):
        DOC_STUBS[f"RcDoc{_g}::{_n}"] = _stub_doc_ws
for _g in ("", "::<'_>", "::<'_, ()>", "::<'a, ()>"):
    DOC_STUBS[f"RcDoc{_g}::as_string"] = _stub_doc_as_string
    DOC_STUBS[f"RcDoc{_g}::append"] = _stub_doc_append
    DOC_STUBS[f"RcDoc{_g}::group"] = _stub_doc_id
    DOC_STUBS[f"RcDoc{_g}::nest"] = _stub_doc_id
    DOC_STUBS[f"RcDoc{_g}::intersperse"] = _stub_doc_intersperse
DOC_STUBS["<BigInt as ToString>::to_string"] = _stub_bigint_to_string
DOC_STUBS["hex::encode"] = _stub_hex_encode


def ref_tokens(shape, leaves):
    """reference printing of a Data value as the grammar rule data() reads it: Constr <logical index> [..], Map [(k, v), ..],
    List [..], I <n>, B #<hex>"""
    k = shape[0]
    if k == "i":
        return [("t", "I"), ("ws",), ("show", leaves.pop(0))]
    if k == "b":
        return [("t", "B"), ("ws",), ("t", "#"), ("hex", leaves.pop(0))]
    if k == "list":
        out = [("t", "List"), ("ws",), ("t", "[")]
        for i, x in enumerate(shape[1]):
            if i:
                out.append(("t", ", "))
            out += ref_tokens(x, leaves)
        return out + [("t", "]")]
    if k == "map":
        out = [("t", "Map"), ("ws",), ("t", "[")]
        for i, (a, b) in enumerate(shape[1]):
            if i:
                out.append(("t", ", "))
            out += [("t", "(")] + ref_tokens(a, leaves) + [("t", ", ")] + ref_tokens(b, leaves) + [("t", ")")]
        return out + [("t", "]")]
    idx = leaves.pop(0)
    out = [("t", "Constr"), ("ws",), ("show", idx), ("ws",), ("t", "[")]
    for i, x in enumerate(shape[1]):
        if i:
            out.append(("t", ", "))
        out += ref_tokens(x, leaves)
    return out + [("t", "]")]


def data_printing(world: World, res: Result, tier: str):
    """Constant::to_doc_list_plutus_data from MIR on data shapes with symbolic tags / integers / bytes: the token stream must be
    the data syntax of the grammar with the LOGICAL constructor index (what `Constr n` is read back as by Data::constr)"""
    from specs import data as SD
    ob = Obligation("data/printing", "discharged", "")
    ex = world.executor(timeout_ms=20000, max_paths=400, max_steps=40000)
    ex.stubs.update(DOC_STUBS)
    try:
        f = world.fn("Constant", "to_doc_list_plutus_data")
    except Unsupported as e:
        ob.status, ob.detail = "undecided", str(e)
        res.add(ob)
        return
    shapes = [("i",), ("b",), ("list", ()), ("list", (("i",), ("b",))), ("map", ((("i",), ("b",)),)), ("constr", "none", ()), ("constr", "none", (("i",),)),
              ("constr", "some", (("b",), ("i",))), ("constr", "none", (("constr", "some", ()), ("list", (("i",),)))), ("map", ((("constr", "none", ()), ("list", ())), (("i",), ("i",))))]
    n = 0
    for shp in shapes:
        st = ex.new_state()
        leaves, cnt = [], [0]

        def build(s_):
            cnt[0] += 1
            if s_[0] == "i":
                e = z3.Int(f"pi{cnt[0]}")
                v, c = SD.mk_int(world, e, "small")
                st.pc.append(c)
                leaves.append(e)
                return v, ("i",)
            if s_[0] == "b":
                b = z3.Const(f"pb{cnt[0]}", S.ByteSeq)
                leaves.append(b)
                return SD.mk_bytes(world, b), ("b",)
            if s_[0] == "list":
                items = [build(x) for x in s_[1]]
                return SD.mk_list(world, [v for v, _ in items]), ("list", tuple(r for _, r in items))
            if s_[0] == "map":
                ps = [(build(a), build(b)) for a, b in s_[1]]
                return SD.mk_map(world, [(a[0], b[0]) for a, b in ps]), ("map", tuple((a[1], b[1]) for a, b in ps))
            tag = ex.sym_int(f"ptag{cnt[0]}", 64, False, st)
            if s_[1] == "none":
                anyv, anyi = ex.none(), None
                st.pc.append(SD.well_formed_tag(ex.to_int_expr(tag), False))
            else:
                a = ex.sym_int(f"pany{cnt[0]}", 64, False, st)
                anyv, anyi = ex.some(a), ex.to_int_expr(a)
                st.pc.append(SD.well_formed_tag(ex.to_int_expr(tag), True))
            slot = len(leaves)
            leaves.append(SD.logical_index(ex.to_int_expr(tag), anyi))
            fs = [build(x) for x in s_[2]]
            return SD.mk_constr(world, ex, tag, anyv, [v for v, _ in fs]), ("constr", tuple(r for _, r in fs))
        try:
            d, rshape = build(shp)
            outs = ex.run(f, [ex.alloc(st, d)], st)
        except Unsupported as e:
            ob.status, ob.detail = "undecided", f"{e} (shape {shp})"
            continue
        want = ref_tokens(rshape, list(leaves))
        for o in outs:
            n += 1
            if o.kind != "return":
                if o.kind == "panic":
                    ob.status, ob.detail, ob.finding_key = "violated", f"data printer panics on shape {shp}: {o.msg}; {str(ex.model(o.pc))[:200]}", "data printing: panic"
                else:
                    ob.status, ob.detail = "undecided", f"{o.msg} (shape {shp})"
                continue
            try:
                got = list(_as_doc(ex, o.state, o.value).data)
            except Unsupported as e:
                ob.status, ob.detail = "undecided", str(e)
                continue
            bad = None
            if len(got) != len(want):
                bad = f"{len(got)} tokens instead of {len(want)}"
            else:
                for g, w_ in zip(got, want):
                    if g[0] != w_[0]:
                        bad = f"token kind {g[0]} where {w_[0]} is expected"
                        break
                    if g[0] == "t":
                        gb = S._concrete_bytes(g[1].s) if isinstance(g[1], Str) else None
                        if gb is None or gb.decode("utf-8", "replace") != w_[1]:
                            bad = f"text {gb!r} where {w_[1]!r} is expected"
                            break
                    elif g[0] in ("show", "hex"):
                        if ex.check(o.pc, g[1] != w_[1]) == "sat":
                            m = ex.model(o.pc, g[1] != w_[1])
                            what = "constructor index / integer" if g[0] == "show" else "bytes"
                            bad = f"printed {what} {m.eval(g[1], True)} where {m.eval(w_[1], True)} is expected ({str(m)[:200]})"
                            break
            if bad:
                ob.status, ob.detail, ob.finding_key = "violated", f"data printing of shape {shp}: {bad}", "data printing: wrong token"
                ob.model = {"shape": str(shp), "what": bad}
    if ob.status == "discharged":
        ob.detail = f"{len(shapes)} data shapes, {n} paths: the printed token stream is the grammar's data syntax with the logical constructor index"
        ob.witness = n > 0
    ob.queries, ob.solver_s = ex.queries, round(ex.solver_s, 3)
    res.functions.update(ex.encoded)
    res.add(ob)


def nested_types(world: World, res: Result, tier: str):
    """Type::to_doc on nested list / pair types from MIR over the document model: `(list T)`, `(pair A B)` with the keywords and
    the order of the grammar rule type_info, recursively"""
    ob = Obligation("types/nested", "discharged", "")
    ex = world.executor(timeout_ms=20000, max_paths=200, max_steps=20000)
    ex.stubs.update(DOC_STUBS)
    try:
        f = world.fn("Type", "to_doc")
        kws = grammar_type_keywords()
    except Unsupported as e:
        ob.status, ob.detail = "undecided", str(e)
        res.add(ob)
        return
    inv = {v: k for k, v in kws.items()}
    leaves = [v.name for v in world.variants("Type") if not v.fields and v.name != "Bls12_381MlResult"]

    def mk(t):
        if isinstance(t, str):
            return Adt("Type", t, ())
        if t[0] == "list":
            return world.adt("Type", "List", world.rc(mk(t[1])))
        return world.adt("Type", "Pair", world.rc(mk(t[1])), world.rc(mk(t[2])))

    def ref(t):
        if isinstance(t, str):
            return [inv.get(t, "?" + t)]
        if t[0] == "list":
            return ["(list"] + ref(t[1]) + [")"]
        return ["(pair"] + ref(t[1]) + ref(t[2]) + [")"]
    shapes = []
    for a in leaves:
        shapes.append(("list", a))
        for b in leaves[:4]:
            shapes.append(("pair", a, b))
            shapes.append(("pair", b, a))
    shapes += [("list", ("list", "Integer")), ("list", ("pair", "Integer", "ByteString")), ("pair", ("list", "Data"), ("pair", "Bool", "Unit")),
               ("pair", ("pair", "String", "Integer"), ("list", ("list", "ByteString")))]
    n = 0
    for shp in shapes:
        st = ex.new_state()
        try:
            outs = ex.run(f, [ex.alloc(st, mk(shp))], st)
        except Unsupported as e:
            ob.status, ob.detail = "undecided", f"{e} (type {shp})"
            continue
        for o in outs:
            if o.kind != "return":
                ob.status, ob.detail = ("violated" if o.kind == "panic" else "undecided"), f"Type::to_doc({shp}): {o.msg}"
                if o.kind == "panic":
                    ob.finding_key = "types nested: panic"
                continue
            try:
                toks = _as_doc(ex, o.state, o.value).data
            except Unsupported as e:
                ob.status, ob.detail = "undecided", str(e)
                continue
            got = []
            for tk in toks:
                if tk[0] == "t":
                    b = S._concrete_bytes(tk[1].s)
                    got.append(b.decode() if b is not None else "?")
            n += 1
            if got != ref(shp):
                ob.status = "violated"
                ob.detail = f"type {shp} is printed as {' '.join(got)!r}; the grammar reads that as another type (expected {' '.join(ref(shp))!r})"
                ob.finding_key = "types nested: wrong text"
                ob.model = {"type": str(shp), "printed": got}
    if ob.status == "discharged":
        ob.detail = f"{n} nested list/pair types print with the grammar's keywords in the grammar's order"
        ob.witness = n > 0
    ob.queries, ob.solver_s = ex.queries, round(ex.solver_s, 3)
    res.functions.update(ex.encoded)
    res.add(ob)


def run(tier: str, seed: int, only=None) -> Result:
    res = Result("C15", tier, seed, "model_checking")
    res.assumptions = [
        "mirsym trusted base; Formatter modelled as the text written so far (write_fmt/write_str append), RcDoc::text as the identity on strings",
        "PARTIAL: decided are the name tables shared by printer and parser (builtin names for a symbolic tag, type keywords incl. nested list/pair "
        "types) and the data syntax the printer emits (token stream of Constant::to_doc_list_plutus_data over a document model, logical constructor index); "
        "layout, numbers, string escapes and the peg parser as a whole are outside the claim",
        "the grammar side of types/leaf is read from the peg rule's source text (keyword -> Type variant), not executed",
    ]
    res.bounds = {"builtin tags": "all declared discriminants (symbolic)", "types": "all field-less variants of uplc::ast::Type"}
    res.extra["explanation"] = "printer tables executed from MIR on a symbolic tag, parser tables executed on the printed text; z3 decides the round trip for every tag"
    res.extra["trusted_base"] = ["rustc MIR dump", "mirsym + summaries", "z3 5.1"]
    world = World(("uplc",), deps=("pallas-codec",))
    if not only or only == "builtin":
        builtin_names(world, res)
    if not only or only == "types":
        type_keywords(world, res)
    if not only or only == "types2":
        nested_types(world, res, tier)
    if not only or only == "data":
        data_printing(World(("uplc",)), res, tier)  # pallas types by their summaries (as in C04), not from pallas-codec's MIR
    kf = KnownFindings()

    def replay(ob):
        if ob.name.startswith("names/builtin/unparsable") or ob.name.startswith("names/builtin/misread"):
            return replay_builtin(ob)
        if ob.name.startswith("types/leaf/"):
            return replay_type(ob)
        return None, "table-level statement; no program-level replay"
    from props import common_post
    common_post.postprocess(res, kf, replay_fn=replay)
    return res
