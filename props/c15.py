"""C15 UPLC text round-trips — mirsym, the tables the printer and the parser keep separately (PARTIAL).

Decided from MIR:
  names/builtin   for a SYMBOLIC builtin tag b (every declared discriminant at once):
                  <DefaultFunction as FromStr>::from_str(<DefaultFunction as Display>::fmt(b)) == Ok(b)
  names/injective two different tags never print the same text (otherwise the parser cannot tell them apart)
  types/leaf      for every leaf of uplc::ast::Type, the keyword written by Type::to_doc is the keyword the peg rule
                  `type_info` of parser.rs maps back to that type (rule alternatives are read from the grammar source; the
                  printer side is executed from MIR with RcDoc::text summarised as the identity on strings)

Outside the claim (not encodable within reach, see DESIGN.md): layout by the `pretty` crate, numbers, string escapes,
nesting of lists/pairs/data, the peg-generated parser as a whole."""
from __future__ import annotations

import os
import re
import time

import z3

from mirsym import summaries as S
from mirsym.exec import Unsupported
from mirsym.values import *  # noqa
from mirsym.world import World
from vlib.common import Obligation, Result, KnownFindings, REPO, log


def _fmt_text(ex, st, fa):
    v = S._fmt_format2(ex, st, None, [fa], None)
    if not isinstance(v, Str):
        raise Unsupported("format arguments not decodable")
    return v


def _stub_write_fmt(ex, st, c, args, dty):
    """Formatter::write_fmt(f, args): the formatter is modelled as the text written so far"""
    f = args[0]
    cur = S.deref(ex, st, f)
    txt = _fmt_text(ex, st, args[1])
    if not isinstance(cur, Str):
        raise Unsupported("formatter model")
    S.write_through(ex, st, f, Str(z3.Concat(cur.s, txt.s)))
    return ex.ok(Tup(()))


def _stub_write_str(ex, st, c, args, dty):
    f = args[0]
    cur = S.deref(ex, st, f)
    s = S.deref(ex, st, args[1])
    if not isinstance(cur, Str) or not isinstance(s, Str):
        raise Unsupported("formatter model")
    S.write_through(ex, st, f, Str(z3.Concat(cur.s, s.s)))
    return ex.ok(Tup(()))


FMT_STUBS = {"Formatter::write_fmt": _stub_write_fmt, "Formatter::<'_>::write_fmt": _stub_write_fmt, "Formatter::write_str": _stub_write_str,
             "Formatter::<'_>::write_str": _stub_write_str}


def concrete_text(ex, pc, s: Str):
    b = S._concrete_bytes(s.s)
    return None if b is None else b.decode("utf-8", "replace")


def builtin_names(world: World, res: Result):
    ob = Obligation("names/builtin", "discharged", "")
    ex = world.executor(timeout_ms=20000, max_paths=2000, max_steps=20000)
    ex.stubs.update(FMT_STUBS)
    try:
        f_fmt = world.fn("DefaultFunction", "fmt", trait="Display")
        f_from = world.fn("DefaultFunction", "from_str")
        variants = world.variants("DefaultFunction")
    except Unsupported as e:
        ob.status, ob.detail = "undecided", str(e)
        res.add(ob)
        return
    st = ex.new_state()
    disc = z3.BitVec("builtin_tag", 64)
    b = EnumSym("DefaultFunction", disc)
    discs = [v.disc if getattr(v, "disc", None) is not None else i for i, v in enumerate(variants)]
    st.pc.append(z3.Or([disc == d for d in discs]))
    bref = ex.alloc(st, b)
    fref = ex.alloc(st, Str(z3.Empty(S.ByteSeq)))
    bad = []
    seen = {}
    npaths = 0
    try:
        outs = ex.run(f_fmt, [bref, fref], st)
    except Unsupported as e:
        ob.status, ob.detail = "undecided", str(e)
        res.add(ob)
        return
    for o in outs:
        npaths += 1
        if o.kind != "return":
            if o.kind == "panic":
                m = ex.model(o.pc)
                bad.append((f"Display::fmt panics: {o.msg}", {"tag": str(m.eval(disc, True))}, "Display panic"))
            else:
                ob.status, ob.detail = "undecided", f"Display::fmt: {o.msg}"
            continue
        txt = S.deref(ex, o.state, fref)
        name = concrete_text(ex, o.pc, txt)
        m = ex.model(o.pc)
        tag = m.eval(disc, True).as_long() if m is not None else None
        if name is None:
            ob.status, ob.detail = "undecided", "printed text not concrete on a path"
            continue
        vname = next((v.name for i, v in enumerate(variants) if discs[i] == tag), str(tag))
        if name in seen and seen[name] != vname:
            bad.append((f"two builtins print the same text {name!r}: {seen[name]} and {vname}", {"text": name}, f"duplicate name {name}"))
        seen[name] = vname
        # parse the text back on this path
        s2 = o.state
        s2.frames = []
        sref = ex.alloc(s2, txt)
        try:
            outs2 = ex.run(f_from, [sref], s2)
        except Unsupported as e:
            ob.status, ob.detail = "undecided", f"from_str: {e}"
            continue
        for o2 in outs2:
            if o2.kind == "panic":
                bad.append((f"from_str panics on {name!r}: {o2.msg}", {"text": name}, f"from_str panic {vname}"))
                continue
            if o2.kind != "return":
                ob.status, ob.detail = "undecided", f"from_str: {o2.msg}"
                continue
            r = o2.value
            if not isinstance(r, Adt) or r.variant != "Ok":
                bad.append((f"the printer writes builtin {vname} as {name!r}, which from_str rejects", {"builtin": vname, "text": name}, f"unparsable name {vname}"))
                continue
            back = r.fields[0] if r.fields else None
            d2 = ex.disc_of(back).e if back is not None else None
            if d2 is None or ex.check(o2.pc, d2 != disc) == "sat":
                bad.append((f"the printer writes builtin {vname} as {name!r}, which from_str reads as a different builtin", {"builtin": vname, "text": name}, f"misread name {vname}"))
    ob.queries, ob.solver_s = ex.queries, round(ex.solver_s, 3)
    res.functions.update(ex.encoded)
    res.extra["builtins"] = len(seen)
    if bad:
        for what, model, key in bad:
            vb = Obligation(f"names/builtin/{key}", "violated", what)
            vb.model = model
            vb.finding_key = key
            res.add(vb)
        ob.detail = f"{len(bad)} table inconsistencies reported separately; {len(seen)} names checked"
    elif ob.status == "discharged":
        if len(seen) < len(variants):
            ob.status, ob.detail = "undecided", f"only {len(seen)} of {len(variants)} tags reached"
        else:
            ob.detail = f"{npaths} paths: all {len(seen)} builtin names are distinct and parse back to their own tag"
            ob.witness = True
    res.add(ob)
    res.samples.append({"obligation": "names/builtin", "names": sorted(seen)[:6]})


def replay_builtin(ob):
    """native replay through the real printer and parser (driver)"""
    from vlib import driver as D
    m = ob.model or {}
    name = m.get("builtin")
    if not name:
        return None, "no native replay for this obligation"
    # the driver names builtins by Display, so build the program from the flat tag instead
    bl = D.get("drv-uplc").call("builtins")["builtins"]
    text = m.get("text")
    tag = next((x["tag"] for x in bl if x["name"] == text), None)
    if tag is None:
        return None, "builtin not found in the driver table"
    pp = D.get("drv-uplc").call("pretty", program={"version": [1, 1, 0], "term": {"builtin_tag": tag}}, binder="debruijn")
    if "text" not in pp:
        return None, f"pretty failed: {pp}"
    back = D.get("drv-uplc").call("parse", text=pp["text"])
    if "panic" in back:
        return True, f"printed text {pp['text']!r} makes the parser panic: {str(back['panic'])[:160]}"
    if "Err" in back:
        return True, f"printed text {pp['text']!r} is rejected by the parser: {str(back['Err'])[:120]}"
    if "Ok" not in back:
        return None, f"unexpected driver answer {str(back)[:120]}"
    return False, f"printed text {pp['text']!r} parses"


# ------------------------------------------------------------------------------------------------ type keywords


def grammar_type_keywords():
    """leaf alternatives of the peg rule type_info: keyword -> Type variant (read from the grammar source)"""
    src = open(os.path.join(REPO, "crates/uplc/src/parser.rs")).read()
    m = re.search(r"rule type_info\(\)[^=]*=(.*?)\n\s*rule ", src, re.S)
    if not m:
        raise Unsupported("peg rule type_info not found in parser.rs")
    out = {}
    for kw, var in re.findall(r'"([A-Za-z_0-9]+)"\s*\{\s*Type::([A-Za-z_0-9]+)\s*\}', m.group(1)):
        out[kw] = var
    return out


def _stub_rcdoc_text(ex, st, c, args, dty):
    return S.deref(ex, st, args[0])


def type_keywords(world: World, res: Result):
    ob = Obligation("types/leaf", "discharged", "")
    ex = world.executor(timeout_ms=20000, max_paths=500, max_steps=20000)
    ex.stubs.update({"RcDoc::text": _stub_rcdoc_text, "RcDoc::<'_, ()>::text": _stub_rcdoc_text, "RcDoc::<'a, ()>::text": _stub_rcdoc_text,
                     "RcDoc::<'_>::text": _stub_rcdoc_text})
    try:
        f_doc = world.fn("Type", "to_doc")
        kws = grammar_type_keywords()
        variants = [v for v in world.variants("Type")]
    except Unsupported as e:
        ob.status, ob.detail = "undecided", str(e)
        res.add(ob)
        return
    bad = []
    n = 0
    for v in variants:
        if v.fields:
            continue  # List / Pair: recursive layout, outside the claim
        if v.name == "Bls12_381MlResult":
            continue  # Miller-loop results have no concrete syntax by specification: they cannot occur in a program that is printed
        st = ex.new_state()
        tref = ex.alloc(st, Adt("Type", v.name, ()))
        try:
            outs = ex.run(f_doc, [tref], st)
        except Unsupported as e:
            ob.status, ob.detail = "undecided", f"Type::to_doc({v.name}): {e}"
            continue
        for o in outs:
            if o.kind != "return":
                ob.status, ob.detail = "undecided", f"Type::to_doc({v.name}): {o.msg}"
                continue
            txt = S.deref(ex, o.state, o.value)
            name = concrete_text(ex, o.pc, txt) if isinstance(txt, Str) else None
            if name is None:
                ob.status, ob.detail = "undecided", f"Type::to_doc({v.name}) is not a plain keyword"
                continue
            n += 1
            back = kws.get(name)
            if back is None:
                bad.append((f"Type::{v.name} is printed as {name!r}, which the grammar rule type_info does not accept", {"type": v.name, "text": name}, f"type keyword {v.name}"))
            elif back != v.name:
                bad.append((f"Type::{v.name} is printed as {name!r}, which the parser reads as Type::{back}", {"type": v.name, "text": name, "parsed_as": back}, f"type keyword {v.name}"))
    ob.queries, ob.solver_s = ex.queries, round(ex.solver_s, 3)
    res.functions.update(ex.encoded)
    for what, model, key in bad:
        vb = Obligation(f"types/leaf/{key}", "violated", what)
        vb.model = model
        vb.finding_key = key
        res.add(vb)
    if ob.status == "discharged":
        if n == 0:
            ob.status, ob.detail = "undecided", "vacuous"
        else:
            ob.detail = f"{n} leaf type keywords" + (f"; {len(bad)} inconsistencies reported separately" if bad else " agree with the grammar")
            ob.witness = True
    res.add(ob)


def replay_type(ob):
    from vlib import driver as D
    m = ob.model or {}
    ty = {"Bls12_381G1Element": "g1", "Bls12_381G2Element": "g2", "Bls12_381MlResult": "ml", "Integer": "integer", "ByteString": "bytestring", "String": "string",
          "Unit": "unit", "Bool": "bool", "Data": "data"}.get(m.get("type"))
    if ty is None:
        return None, "no native replay for this type"
    prog = {"version": [1, 1, 0], "term": {"con": {"list": [ty, []]}}}
    pp = D.get("drv-uplc").call("pretty", program=prog, binder="debruijn")
    if "text" not in pp:
        return None, f"pretty failed: {pp}"
    back = D.get("drv-uplc").call("parse", text=pp["text"])
    if "panic" in back:
        return True, f"printed text {pp['text']!r} makes the parser panic: {str(back['panic'])[:160]}"
    if "Err" in back:
        return True, f"printed text {pp['text']!r} is rejected by the parser"
    if "Ok" not in back:
        return None, f"unexpected driver answer {str(back)[:120]}"
    t2 = back["Ok"]["term"]
    same = t2 == prog["term"]
    return (not same), f"printed {pp['text']!r}, parsed back as {str(t2)[:100]}"


def run(tier: str, seed: int, only=None) -> Result:
    res = Result("C15", tier, seed, "model_checking")
    res.assumptions = [
        "mirsym trusted base; Formatter modelled as the text written so far (write_fmt/write_str append), RcDoc::text as the identity on strings",
        "PARTIAL: only the name tables shared by printer and parser are decided (builtin names for a symbolic tag, leaf type keywords); "
        "layout, numbers, string escapes, nested constants and the peg parser as a whole are outside the claim",
        "the grammar side of types/leaf is read from the peg rule's source text (keyword -> Type variant), not executed",
    ]
    res.bounds = {"builtin tags": "all declared discriminants (symbolic)", "types": "all field-less variants of uplc::ast::Type"}
    res.extra["explanation"] = "printer tables executed from MIR on a symbolic tag, parser tables executed on the printed text; z3 decides the round trip for every tag"
    res.extra["trusted_base"] = ["rustc MIR dump", "mirsym + summaries", "z3 5.1"]
    world = World(("uplc",), deps=("pallas-codec",))
    if not only or only == "builtin":
        builtin_names(world, res)
    if not only or only == "types":
        type_keywords(world, res)
    kf = KnownFindings()

    def replay(ob):
        if ob.name.startswith("names/builtin/unparsable") or ob.name.startswith("names/builtin/misread"):
            return replay_builtin(ob)
        if ob.name.startswith("types/leaf/"):
            return replay_type(ob)
        return None, "table-level statement; no program-level replay"
    from props import common_post
    common_post.postprocess(res, kf, replay_fn=replay)
    return res
