"""C04 Every builtin computes its specified function on its whole domain — mirsym, per arm of
DefaultFunction::call, against specs/builtins.py.  Also feeds C10 (no panic in any arm)."""
from __future__ import annotations

import itertools
import time

import z3

from mirsym.exec import Unsupported
from mirsym.values import *  # noqa
from mirsym.world import World
from specs import builtins as SB
from vlib.common import Obligation, Result, KnownFindings, log

SEMANTICS = ["A", "B", "C", "D", "E"]


def variant_name(plutus_name: str) -> str:
    return plutus_name[0].upper() + plutus_name[1:]


class Gen:
    """Builds (mirsym value, spec value) pairs for argument kinds."""

    def __init__(self, world: World, ex):
        self.w, self.ex = world, ex
        self.n = 0
        self.vars = {}
        self.assume = []

    def fresh(self, base):
        self.n += 1
        return f"{base}{self.n}"

    def ty(self, kind: str) -> Adt:
        w = self.w
        if kind == "int":
            return w.adt("Type", "Integer")
        if kind == "bytes":
            return w.adt("Type", "ByteString")
        if kind == "str":
            return w.adt("Type", "String")
        if kind == "bool":
            return w.adt("Type", "Bool")
        if kind == "unit":
            return w.adt("Type", "Unit")
        if kind == "data":
            return w.adt("Type", "Data")
        if kind.startswith("list:"):
            return w.adt("Type", "List", w.rc(self.ty(kind[5:])))
        if kind.startswith("pair:"):
            a, b = split_pair(kind[5:])
            return w.adt("Type", "Pair", w.rc(self.ty(a)), w.rc(self.ty(b)))
        raise Unsupported(f"type of kind {kind}")

    def const(self, kind: str, length=None):
        """-> (Constant Adt, spec value)"""
        w = self.w
        if kind == "int":
            e = z3.Int(self.fresh("i"))
            self.vars[str(e)] = e
            return w.c_int(e), ("int", e)
        if kind == "bytes":
            s = z3.Const(self.fresh("b"), ByteSeq)
            self.vars[str(s)] = s
            return w.c_bytes(s), ("bytes", s)
        if kind == "bytesN":
            bs = [z3.BitVec(self.fresh("y"), 8) for _ in range(length or 0)]
            for b in bs:
                self.vars[str(b)] = b
            val = w.adt("Constant", "ByteString", VecV(Arr(tuple(BV(b, 8, False) for b in bs))))
            return val, ("bytesN", bs)
        if kind == "str" and length is not None:
            # a string of `length` symbolic Unicode scalar values; its bytes are their UTF-8 encoding (so that code which
            # walks the characters - str::chars - is covered as well as code which looks at the bytes)
            cps, parts = [], []
            # the UTF-8 width of every character is fixed (cycling 2, 1, 3, 4 bytes) so that the byte sequence has a concrete
            # length: the general If-chain encoding makes sequence reasoning too slow
            for k in range(length):
                cp = z3.Int(self.fresh("cp"))
                self.vars[str(cp)] = cp
                cs, enc = utf8_fixed(cp, (2, 1, 3, 4)[k % 4])
                self.assume += cs
                cps.append(cp)
                parts.append(enc)
            s = z3.Concat(*parts) if len(parts) > 1 else (parts[0] if parts else z3.Empty(ByteSeq))
            return w.adt("Constant", "String", Str(s, tuple(cps))), ("str", s)
        if kind == "str":
            s = z3.Const(self.fresh("s"), ByteSeq)
            self.vars[str(s)] = s
            return w.adt("Constant", "String", Str(s)), ("str", s)
        if kind == "bool":
            b = z3.Bool(self.fresh("c"))
            self.vars[str(b)] = b
            return w.c_bool(b), ("bool", b)
        if kind == "unit":
            return w.c_unit(), ("unit",)
        if kind == "data":
            from specs import data as SD
            shape = length or "opaque"
            d, dv = self.data(shape)
            return w.adt("Constant", "Data", d), ("data", dv)
        if kind.startswith("list:"):
            ek = kind[5:]
            items = [self.const(ek) for _ in range(length or 0)]
            return (w.adt("Constant", "ProtoList", self.ty(ek), VecV(Arr(tuple(c for c, _ in items)))),
                    ("list", ek, [s for _, s in items]))
        if kind.startswith("pair:"):
            a, b = split_pair(kind[5:])
            ca, sa = self.const(a)
            cb, sb = self.const(b)
            return w.adt("Constant", "ProtoPair", self.ty(a), self.ty(b), w.rc(ca), w.rc(cb)), ("pair", sa, sb)
        raise Unsupported(f"constant of kind {kind}")

    def data(self, shape: str):
        """-> (mirsym PlutusData, DataV) for a top-level shape; children are opaque"""
        from specs import data as SD
        w, ex = self.w, self.ex
        if shape == "opaque":
            o = SD.mk_opaque()
            return o, ("opaque", o.e)
        if shape in ("i", "ibig", "ineg"):
            e = z3.Int(self.fresh("di"))
            self.vars[str(e)] = e
            d, cons = SD.mk_int(w, e, {"i": "small", "ibig": "big", "ineg": "neg"}[shape])
            self.assume.append(cons)
            return d, ("i", e)
        if shape == "b":
            s_ = z3.Const(self.fresh("db"), ByteSeq)
            self.vars[str(s_)] = s_
            return SD.mk_bytes(w, s_), ("b", s_)
        kids = int(shape[-1])
        if shape.startswith("list"):
            ch = [SD.mk_opaque() for _ in range(kids)]
            return SD.mk_list(w, ch), ("list", [("opaque", c.e) for c in ch])
        if shape.startswith("map"):
            ch = [(SD.mk_opaque(), SD.mk_opaque()) for _ in range(kids)]
            return SD.mk_map(w, ch), ("map", [(("opaque", k.e), ("opaque", v.e)) for k, v in ch])
        ch = [SD.mk_opaque() for _ in range(kids)]
        tag = z3.BitVec(self.fresh("tag"), 64)
        self.vars[str(tag)] = tag
        if shape.startswith("constrc"):  # compact tags 121..127 / 1280..1400
            self.assume.append(SD.well_formed_tag(z3.BV2Int(tag, False), False))
            d = SD.mk_constr(w, ex, BV(tag, 64, False), Adt("Option", "None", ()), ch)
            return d, ("constr", SD.logical_index(z3.BV2Int(tag, False), None), [("opaque", c.e) for c in ch])
        anyc = z3.BitVec(self.fresh("anyc"), 64)
        self.vars[str(anyc)] = anyc
        self.assume.append(SD.well_formed_tag(z3.BV2Int(tag, False), True))
        d = SD.mk_constr(w, ex, BV(tag, 64, False), Adt("Option", "Some", (BV(anyc, 64, False),)), ch)
        return d, ("constr", SD.logical_index(z3.BV2Int(tag, False), z3.BV2Int(anyc, False)), [("opaque", c.e) for c in ch])

    def value(self, kind: str, length=None):
        if kind == "any":
            o = fresh_obj("v", "Value")
            return o, ("any", o.e)
        c, s = self.const(kind, length)
        return self.w.con(c), s

    def nonconst(self):
        return self.w.adt("Value", "Delay", self.w.rc(fresh_obj("t", "Term")), self.w.rc(fresh_obj("env", "Env")))


def spec_arg(sv):
    k = sv[0]
    if k in ("int", "bytes", "str", "bool", "any", "bytesN"):
        return sv[1]
    if k == "unit":
        return None
    if k == "list":
        return (sv[1], sv[2])
    if k == "pair":
        return (sv[1], sv[2])
    if k == "data":
        return sv[1]
    raise Unsupported(f"spec arg {k}")


def split_pair(s: str):
    depth = 0
    for i, c in enumerate(s):
        if c in "(<":
            depth += 1
        elif c in ")>":
            depth -= 1
        elif c == "," and depth == 0:
            return s[:i], s[i + 1:]
    # nested kinds use ':' only; split on first comma
    a, b = s.split(",", 1)
    return a, b


def decode_const(w: World, ex, c) -> tuple:
    if isinstance(c, BoxV):
        c = c.inner
    if isinstance(c, Opaque):
        return ("any", c.e)
    if not isinstance(c, Adt) or c.ty != "Constant":
        raise Unsupported(f"cannot decode constant {c!r}")
    v = c.variant
    if v == "Integer":
        return ("int", c.fields[0].e)
    if v == "ByteString":
        it = c.fields[0].items
        if isinstance(it, Bytes):
            return ("bytes", it.s)
        if isinstance(it, Arr):
            return ("bytes", bytes_of_arr(it))
        raise Unsupported("byte string contents")
    if v == "String":
        s = c.fields[0]
        if isinstance(s, Str):
            return ("str", s.s)
        if isinstance(s, Opaque):
            return ("any", s.e)
        raise Unsupported(f"string contents {s!r}")
    if v == "Bool":
        return ("bool", c.fields[0].e)
    if v == "Unit":
        return ("unit",)
    if v == "ProtoList":
        it = c.fields[1].items
        if not isinstance(it, Arr):
            raise Unsupported("list contents")
        return ("list", decode_type(c.fields[0]), [decode_const(w, ex, x) for x in it.elems])
    if v == "ProtoPair":
        return ("pair", decode_const(w, ex, c.fields[2]), decode_const(w, ex, c.fields[3]))
    if v == "Data":
        from specs import data as SD
        return ("data", SD.decode(w, ex, c.fields[0]))
    raise Unsupported(f"constant variant {v}")


def bytes_of_arr(a: Arr):
    units = []
    for e in a.elems:
        be = e.e if not z3.is_int(e.e) else z3.Int2BV(e.e, 8)
        units.append(z3.Unit(be))
    if not units:
        return z3.Empty(ByteSeq)
    return z3.Concat(*units) if len(units) > 1 else units[0]


def decode_type(t) -> str:
    if isinstance(t, BoxV):
        t = t.inner
    m = {"Integer": "int", "ByteString": "bytes", "String": "str", "Bool": "bool", "Unit": "unit", "Data": "data"}
    if t.variant in m:
        return m[t.variant]
    if t.variant == "List":
        return "list:" + decode_type(t.fields[0])
    if t.variant == "Pair":
        return "pair:" + decode_type(t.fields[0]) + "," + decode_type(t.fields[1])
    return t.variant


def decode_value(w, ex, v) -> tuple:
    if isinstance(v, Opaque):
        return ("any", v.e)
    if isinstance(v, Adt) and v.ty == "Value" and v.variant == "Con":
        return decode_const(w, ex, v.fields[0])
    raise Unsupported(f"cannot decode value {v!r}")


def eq_spec(a: tuple, b: tuple):
    """z3 Bool: actual `a` equals expected `b` (False on shape mismatch)."""
    if a[0] != b[0]:
        return z3.BoolVal(False)
    k = a[0]
    if k in ("int", "bytes", "str", "bool", "any"):
        return a[1] == b[1]
    if k == "unit":
        return z3.BoolVal(True)
    if k == "list":
        if len(a[2]) != len(b[2]):
            return z3.BoolVal(False)
        if a[1] != b[1] and b[1] != "any" and a[1] != "any":
            return z3.BoolVal(False)
        return z3.And([eq_spec(x, y) for x, y in zip(a[2], b[2])] + [z3.BoolVal(True)])
    if k == "pair":
        return z3.And(eq_spec(a[1], b[1]), eq_spec(a[2], b[2]))
    if k == "data":
        from specs import data as SD
        return SD.eq(a[1], b[1])
    return z3.BoolVal(False)


def utf8_of(cp):
    """UTF-8 encoding of the scalar value cp (z3 Int) as a z3 byte sequence (RFC 3629)"""
    def b(e):
        return z3.Unit(z3.Int2BV(e, 8))
    one = b(cp)
    two = z3.Concat(b(0xC0 + cp / 64), b(0x80 + cp % 64))
    three = z3.Concat(b(0xE0 + cp / 4096), b(0x80 + (cp / 64) % 64), b(0x80 + cp % 64))
    four = z3.Concat(b(0xF0 + cp / 262144), b(0x80 + (cp / 4096) % 64), b(0x80 + (cp / 64) % 64), b(0x80 + cp % 64))
    return z3.If(cp < 0x80, one, z3.If(cp < 0x800, two, z3.If(cp < 0x10000, three, four)))


def utf8_fixed(cp, w):
    """(constraints, bytes) of a scalar value whose UTF-8 encoding has exactly w bytes"""
    def b(e):
        return z3.Unit(z3.Int2BV(e, 8))
    if w == 1:
        return [z3.And(cp >= 0, cp < 0x80)], b(cp)
    if w == 2:
        return [z3.And(cp >= 0x80, cp < 0x800)], z3.Concat(b(0xC0 + cp / 64), b(0x80 + cp % 64))
    if w == 3:
        return [z3.And(cp >= 0x800, cp < 0x10000, z3.Or(cp < 0xD800, cp > 0xDFFF))], z3.Concat(b(0xE0 + cp / 4096), b(0x80 + (cp / 64) % 64), b(0x80 + cp % 64))
    return [z3.And(cp >= 0x10000, cp <= 0x10FFFF)], z3.Concat(b(0xF0 + cp / 262144), b(0x80 + (cp / 4096) % 64), b(0x80 + (cp / 64) % 64), b(0x80 + cp % 64))


def instantiate(kinds, tier):
    """Expand polymorphic kinds ('list:any', 'pair:any,any', 'elem') into concrete instances with list lengths."""
    elem_kinds = ["int", "bytes"] if tier == "quick" else ["int", "bytes", "data", "bool"]
    maxlen = 2 if tier == "quick" else 3
    poly = any(k in ("list:any", "elem") or k.startswith("pair:any") for k in kinds)
    insts = []
    eks = elem_kinds if poly else [None]
    for ek in eks:
        ks = []
        for k in kinds:
            if k == "list:any":
                ks.append("list:" + ek)
            elif k == "elem":
                ks.append(ek)
            elif k == "pair:any,any":
                ks.append(f"pair:{ek},{'bytes' if ek == 'int' else 'int'}")
            else:
                ks.append(k)
        dshapes = ["i", "ibig", "ineg", "b", "list0", "list2", "map0", "map1", "constrc0", "constrc2", "constra1"]
        str_axis = [None, 2] if tier == "quick" else [None, 0, 1, 2, 3]
        lens_axes = [range(0, maxlen + 1) if (k.startswith("list:") or k == "bytesN") else (dshapes if k == "data" else (str_axis if k == "str" else [None])) for k in ks]
        for lens in itertools.product(*lens_axes):
            insts.append((ks, list(lens)))
    return insts


_COSTS = {}


def constant_costs(world: World, ex, st):
    """a BuiltinCosts value where every costing function is ConstantCost(symbolic i64)"""
    from mirsym.world import sym_struct
    leaves = {}
    return sym_struct(world, ex, st, "BuiltinCosts", "costs", leaves, variant_of=lambda en, path: "ConstantCost")


def _stub_log2(ex, st, c, args, dty):
    """integer_log2(i): floor(log2 i) for i > 0, 0 for i = 0 (its own obligation is in C05/sizes).  Exact below 2^64."""
    from mirsym.summaries import as_big
    i = as_big(ex, st, args[0]).e
    a = z3.If(i >= 0, i, -i)
    exact = z3.IntVal(0)
    for k in range(1, 64):
        exact = z3.If(a >= (1 << k), z3.IntVal(k), exact)
    big = z3.Int(fresh("log2"))
    st.pc.append(z3.And(big >= 64, big < (1 << 40)))
    return BV(z3.If(a < (1 << 64), exact, big), 64, True)


def _stub_data_mem(ex, st, c, args, dty):
    r = ex.sym_int(fresh("datamem"), 64, True)
    st.pc.append(z3.And(ex.to_int_expr(r) >= 4, ex.to_int_expr(r) < (1 << 40)))
    return r


def _stub_mem(ex, st, c, args, dty):
    # the ExMemoryUsage measures themselves are the subject of C05 (sizes family); here only a non-negative size is needed
    r = BV(z3.Int(fresh("exmem")), 64, True)
    st.pc.append(z3.And(r.e >= 0, r.e < (1 << 40)))
    return r


COST_STUBS = {"integer_log2": _stub_log2, "value::integer_log2": _stub_log2, "Value::data_to_ex_mem_inner": _stub_data_mem,
              "Value::to_ex_mem": _stub_mem, "Value::to_ex_mem_with_semantics": _stub_mem}


def run_call(world: World, ex, fn_call, variant: str, sem: str, argvals, g=None, costing=True):
    """One saturated builtin application as the machine performs it: cost it (BuiltinCosts::to_ex_budget, which also
    performs the size checks some builtins rely on), then DefaultFunction::call.  Returns (outcomes, state)."""
    st = ex.new_state()
    if g is not None:
        st.pc += list(g.assume)
        for v in g.vars.values():
            if z3.is_seq(v):
                st.pc.append(z3.Length(v) <= (1 << 40))  # stated bound: byte strings shorter than 2^40 bytes
    args = ex.alloc(st, Arr(tuple(argvals)))
    traces = ex.alloc(st, VecV(Arr(())))
    selfr = ex.alloc(st, Adt("DefaultFunction", variant, ()))
    outs = []
    starts = [st]
    if costing:
        f_budget = world.fn("BuiltinCosts", "to_ex_budget")
        costs = ex.alloc(st, constant_costs(world, ex, st))
        ex.stubs.update(COST_STUBS)
        couts = ex.run(f_budget, [costs, Adt("DefaultFunction", variant, ()), args, Adt("BuiltinSemantics", sem, ())], st)
        starts = []
        for o in couts:
            if o.kind == "return" and isinstance(o.value, Adt) and o.value.variant == "Ok":
                s2 = o.state
                s2.frames = []
                starts.append(s2)
            else:
                if o.kind == "panic":
                    o.msg = "costing: " + o.msg
                outs.append(o)  # Err(..) from costing = the application fails; panic / undecided are reported as such
    for s in starts:
        outs += ex.run(fn_call, [selfr, Adt("BuiltinSemantics", sem, ()), args, traces], s)
    return outs, st


WRONG = {"int": "bytes", "bytes": "int", "bytesN": "int", "str": "bytes", "bool": "int", "unit": "int", "data": "int"}
DEFAULT_SHAPE = {"data": "i"}


_W = {}


def _worker(job):
    """runs all semantics variants of one builtin in a forked worker; returns (obligations, functions)"""
    name, tier = job
    world = _W["world"]
    sub = Result("C04", tier, 0, "model_checking")
    fn_call = world.fn("DefaultFunction", "call")
    from specs.cek import variant_of
    table = _table()
    kinds, spec = table[name]
    for sem in SEMANTICS:
        one_builtin(world, sub, tier, fn_call, name, variant_of(name), kinds, spec, sem)
    return sub.obligations, sub.functions


def _table():
    table = dict(SB.SPEC)
    for nm, ks in SB.KINDS_ONLY.items():
        table.setdefault(nm, (ks, None))
    return table


def builtin_obligations(world: World, res: Result, tier: str, only_builtin=None, jobs=None):
    import multiprocessing as mp
    import os
    try:
        world.fn("DefaultFunction", "call")
        have = {v.name for v in world.variants("DefaultFunction")}
    except Unsupported as e:
        res.add(Obligation("builtin/*", "undecided", str(e)))
        return
    from specs.cek import variant_of
    names = []
    for name in _table():
        if only_builtin and only_builtin != name:
            continue
        if variant_of(name) not in have:
            res.add(Obligation(f"builtin/{name}", "undecided", f"DefaultFunction::{variant_of(name)} not declared in the current sources"))
            continue
        names.append(name)
    _W["world"] = world
    jobs = jobs or min(14, os.cpu_count() or 4, max(1, len(names)))
    if jobs == 1 or len(names) == 1:
        results = [_worker((n, tier)) for n in names]
    else:
        with mp.get_context("fork").Pool(jobs) as pool:
            results = pool.map(_worker, [(n, tier) for n in names], chunksize=1)
    for obs, fns in results:
        for ob in obs:
            res.add(ob)
        res.functions.update(fns)


def one_builtin(world, res, tier, fn_call, name, var, kinds, spec, sem):
    ex = world.executor(timeout_ms=20000 if tier == "quick" else 120000, max_paths=400)
    ob = Obligation(f"builtin/{name}[{sem}]", "discharged", "")
    npaths = 0
    n_ok = n_fail = 0
    bads = {}  # finding key -> (status, detail, model)

    def note(bad, ks, lens):
        status, detail, model, fkey = bad
        if status == "undecided":
            if ob.status == "discharged":
                ob.status, ob.detail = "undecided", f"{detail} (arg kinds {ks}, lens {lens})"
            return
        key = f"builtin {name}: {fkey}"
        if key not in bads:
            if model is not None:
                model = dict(model)
                model.update({"builtin": name, "semantics": sem, "arg_kinds": ks, "shapes": lens})
            bads[key] = (f"{detail} (arg kinds {ks}, lens {lens})", model)

    regions = SB.REGIONS.get(name, [None])
    try:
        if spec is not None:
            for (ks, lens), region in itertools.product(instantiate(kinds, tier), regions):
                g = Gen(world, ex)
                pairs = [g.value(k, ln) for k, ln in zip(ks, lens)]
                if region is not None:
                    g.assume += region(*[spec_arg(sv) for _, sv in pairs])
                outs, st = run_call(world, ex, fn_call, var, sem, [v for v, _ in pairs], g)
                cases = spec(sem, *[sv if ok_ == 'elem' else spec_arg(sv) for (_, sv), ok_ in zip(pairs, kinds)])
                npaths += len(outs)
                for bad in check_outcomes(world, ex, outs, cases, g):
                    note(bad, ks, lens)
                n_ok += sum(1 for o in outs if o.kind == "return" and o.value.variant == "Ok")
                n_fail += sum(1 for o in outs if o.kind == "return" and o.value.variant == "Err")
        else:
            # no result specification: only absence of panics on well-typed arguments
            for (ks, lens), region in itertools.product(instantiate(kinds, tier), regions):
                g = Gen(world, ex)
                pairs = [g.value(k, ln) for k, ln in zip(ks, lens)]
                if region is not None:
                    g.assume += region(*[spec_arg(sv) for _, sv in pairs])
                outs, st = run_call(world, ex, fn_call, var, sem, [v for v, _ in pairs], g)
                npaths += len(outs)
                for o in outs:
                    if o.kind == "undecided":
                        note(("undecided", o.msg, None, None), ks, lens)
                    elif o.kind == "panic":
                        note(("violated", f"panic: {o.msg}", model_dict(ex.model(o.pc), g), "panic " + panic_class(o.msg)), ks, lens)
                n_ok += sum(1 for o in outs if o.kind == "return")
        # ill-typed arguments: every position, a constant of another type and a non-constant
        for pos, k in enumerate(kinds):
            if k in ("any",):
                continue
            for wrong in ("const", "nonconst"):
                g = Gen(world, ex)
                ks, lens = instantiate(kinds, "quick")[-1]
                vals = [g.value(kk, ln)[0] for kk, ln in zip(ks, lens)]
                if wrong == "const":
                    base = ks[pos].split(":")[0]
                    wk = WRONG.get(base, "int") if base not in ("list", "pair") else "int"
                    vals[pos] = g.value(wk)[0]
                else:
                    vals[pos] = g.nonconst()
                outs, st = run_call(world, ex, fn_call, var, sem, vals, g)
                npaths += len(outs)
                for o in outs:
                    if o.kind == "undecided":
                        note(("undecided", f"ill-typed arg {pos} ({wrong}): {o.msg}", None, None), ks, lens)
                    elif o.kind == "panic":
                        note(("violated", f"panic on ill-typed argument {pos} ({wrong}): {o.msg}", None, f"panic ill-typed arg{pos}"), ks, lens)
                    elif o.value.variant != "Err":
                        note(("violated", f"ill-typed argument {pos} ({wrong}) accepted: {o.value!r}"[:300], None, f"ill-typed arg{pos} accepted"), ks, lens)
        # containers of the right shape with the wrong component types (a list of integer pairs where a list of data pairs is
        # expected, ...): every position whose kind is a monomorphic list or pair
        for pos, k in enumerate(kinds):
            if not (k.startswith("list:") or k.startswith("pair:")) or "any" in k:
                continue
            if k.startswith("list:pair:"):
                wrongs = ["list:pair:int,int", "list:pair:data,int", "list:int"]
            elif k.startswith("list:"):
                wrongs = ["list:bytes" if k == "list:int" else "list:int", "list:pair:int,int"]
            else:
                wrongs = ["pair:int,int" if k != "pair:int,int" else "pair:bytes,bytes"]
            for wk in wrongs:
                if wk == k:
                    continue
                for ln in (1, 0):
                    g = Gen(world, ex)
                    ks, lens = instantiate(kinds, "quick")[-1]
                    vals = [g.value(kk, l0)[0] for kk, l0 in zip(ks, lens)]
                    vals[pos] = g.value(wk, ln if wk.startswith("list:") else None)[0]
                    outs, st = run_call(world, ex, fn_call, var, sem, vals, g)
                    npaths += len(outs)
                    for o in outs:
                        if o.kind == "undecided":
                            note(("undecided", f"ill-typed container arg {pos} ({wk}): {o.msg}", None, None), ks, lens)
                        elif o.kind == "panic":
                            note(("violated", f"panic on argument {pos} of container type {wk} (expected {k}): {o.msg}", None, f"panic ill-typed container arg{pos}"), ks, lens)
                        elif o.value.variant != "Err":
                            note(("violated", f"argument {pos} of container type {wk} accepted where {k} is expected: {o.value!r}"[:300], None, f"ill-typed container arg{pos} accepted"), ks, lens)
    except Unsupported as e:
        if ob.status == "discharged":
            ob.status, ob.detail = "undecided", str(e)
    if ob.status == "discharged":
        ob.detail = f"{npaths} paths; Ok paths {n_ok}, Err paths {n_fail}" + (f"; {len(bads)} deviation(s) reported separately" if bads else "")
        ob.witness = n_ok > 0
        if n_ok == 0:
            ob.status, ob.detail = "undecided", "vacuous: no successful path"
    ob.queries, ob.solver_s = ex.queries, round(ex.solver_s, 3)
    res.functions.update(ex.encoded)
    res.add(ob)
    for key, (detail, model) in bads.items():
        vb = Obligation(f"builtin/{name}[{sem}]/{key.split(': ', 1)[1]}", "violated", detail)
        vb.model, vb.finding_key = model, key
        res.add(vb)


def check_outcomes(world, ex, outs, cases, g: Gen):
    """list of (status, detail, model, finding_key) for every disagreement with the spec cases"""
    bad = []
    for o in outs:
        if o.kind == "undecided":
            return [("undecided", o.msg, None, None)]
    for o in outs:
        if o.kind == "panic":
            m = ex.model(o.pc)
            bad.append(("violated", f"panic: {o.msg}", model_dict(m, g), "panic " + panic_class(o.msg)))
            continue
        for cond, expected in cases:
            r = ex.check(o.pc, cond)
            if r == "unsat":
                continue
            if r == "unknown":
                bad.append(("undecided", "solver unknown (case feasibility)", None, None))
                continue
            v = o.value
            if expected == SB.FAIL:
                if v.variant != "Err":
                    m = ex.model(o.pc, cond)
                    bad.append(("violated", f"specification fails but the builtin returned {v!r}"[:400], model_dict(m, g), "ok-instead-of-fail"))
                continue
            if v.variant != "Ok":
                m = ex.model(o.pc, cond)
                bad.append(("violated", f"specification returns a value but the builtin failed with {v.fields[0]!r}"[:400], model_dict(m, g), "fail-instead-of-ok"))
                continue
            actual = decode_value(world, ex, v.fields[0])
            neq = z3.Not(eq_spec(actual, expected))
            r = ex.check(o.pc, cond, neq)
            if r == "sat":
                m = ex.model(o.pc, cond, neq)
                bad.append(("violated", f"wrong result: got {show(m, actual)}, specification {show(m, expected)}", model_dict(m, g), "wrong-result"))
            elif r == "unknown":
                bad.append(("undecided", "solver unknown (result equality)", None, None))
    return bad


def panic_class(msg: str) -> str:
    for k in ("unwrap", "overflow", "index out of bounds", "unreachable", "divide by zero", "slice index"):
        if k in msg:
            return k
    return msg[:40]


def model_dict(m, g: Gen):
    if m is None:
        return None
    return {k: str(m.eval(v, True)) for k, v in g.vars.items()}


def show(m, sv):
    if sv[0] in ("int", "bytes", "str", "bool"):
        return f"{sv[0]}:{m.eval(sv[1], True)}"
    if sv[0] == "list":
        return "[" + ", ".join(show(m, x) for x in sv[2]) + "]"
    if sv[0] == "pair":
        return "(" + show(m, sv[1]) + ", " + show(m, sv[2]) + ")"
    return str(sv[0])


def run(tier: str, seed: int, only=None) -> Result:
    res = Result("C04", tier, seed, "model_checking")
    res.assumptions = [
        "mirsym trusted base: MIR interpreter + library summaries (num-bigint ops = mathematical integers, Vec<u8> = byte sequence, iterator adapters by their documented meaning)",
        "strings are modelled as their UTF-8 byte sequence; UTF-8 validity is an uninterpreted predicate",
        "hashing, signature and BLS builtins: digest/curve arithmetic is not encoded (outside the claim)",
    ]
    res.bounds = {"integers": "unbounded (z3 Int)", "byte strings": "unbounded symbolic length for sequence-level arms",
                  "lists": "length 0..2 (quick) / 0..3 (thorough), symbolic elements", "semantics": "A-E"}
    res.extra["explanation"] = ("one arm of DefaultFunction::call per obligation, executed symbolically from MIR on symbolic arguments; "
                                "z3 decides equality with the Plutus builtin specification (specs/builtins.py) on all return paths, "
                                "failure-iff-specified-failure, absence of panic paths, and rejection of ill-typed arguments")
    res.extra["trusted_base"] = ["rustc nightly MIR dump", "mirsym/exec.py", "mirsym/summaries.py", "specs/builtins.py", "z3 5.1"]
    kf = KnownFindings()
    world = World(("uplc",))
    t = time.time()
    builtin_obligations(world, res, tier, only_builtin=only)
    log(f"[C04] builtins: {time.time() - t:.1f}s")
    from props import common_post
    common_post.postprocess(res, kf, replay_fn=None)
    return res
