"""C05 Execution budgets are exact — mirsym obligations.

Families:
  costfn   : One/Two/Three/Four/SixArguments::cost, every variant, from MIR, against the ledger's costing functions
  steps    : step_and_maybe_spend / spend_unbudgeted_steps / spend_budget preserve the accounting invariant
  sizes    : ExMem size measures
  whichsize: BuiltinCosts::to_ex_budget feeds the right sizes to the right costing function
"""
from __future__ import annotations

import time

import z3

from mirsym.exec import Unsupported
from mirsym.values import *  # noqa
from mirsym.world import World, sym_struct
from vlib.common import Obligation, Result, KnownFindings, write_replay, log

I64_LO, I64_HI = -(1 << 63), (1 << 63) - 1


def sat64(e):
    return z3.If(e < I64_LO, z3.IntVal(I64_LO), z3.If(e > I64_HI, z3.IntVal(I64_HI), e))


def zmax(a, b):
    return z3.If(a > b, a, b)


def zmin(a, b):
    return z3.If(a < b, a, b)


def tdiv2(c):
    # Rust `/ 2` truncates toward zero
    return z3.If(c >= 0, c / 2, -((-c) / 2))


# --------------------------------------------------------------------------------------------
# The ledger's costing functions (Plutus Core specification, "Cost model" / builtinCostModel shapes).
# Keys are the constructor names of the shapes; f is the parameter record of the shape.


def spec_one(v, f, x):
    if v == "ConstantCost":
        return f["0"]
    if v == "LinearCost":
        return f["0.intercept"] + f["0.slope"] * x
    if v == "QuadraticCost":
        return f["0.coeff_0"] + f["0.coeff_1"] * x + f["0.coeff_2"] * x * x
    return None


def spec_two(v, f, x, y, p="0"):
    g = lambda n: f[f"{p}.{n}"] if p != "" else f[n]  # noqa: E731
    if v == "ConstantCost":
        return f[p]
    if v == "LinearInX":  # SatInt arithmetic: literal-sized arguments may be near i64::MAX
        return sat64(sat64(g("slope") * x) + g("intercept"))
    if v in ("LinearInY", "LinearInY2"):
        return sat64(sat64(g("slope") * y) + g("intercept"))
    if v == "LinearInXAndY":
        return g("slope1") * x + g("slope2") * y + g("intercept")
    if v == "WithInteractionInXAndY":
        return g("coeff_00") + g("coeff_10") * x + g("coeff_01") * y + g("coeff_11") * x * y
    if v == "AddedSizes":
        return g("slope") * (x + y) + g("intercept")
    if v == "SubtractedSizes":
        return g("slope") * zmax(g("minimum"), x - y) + g("intercept")
    if v == "MultipliedSizes":
        return g("slope") * (x * y) + g("intercept")
    if v == "MinSize":
        return g("slope") * zmin(x, y) + g("intercept")
    if v == "MaxSize":
        return g("slope") * zmax(x, y) + g("intercept")
    if v == "LinearOnDiagonal":
        return z3.If(x == y, g("slope") * x + g("intercept"), g("constant"))
    if v == "QuadraticInY":
        return g("coeff_0") + g("coeff_1") * y + g("coeff_2") * y * y
    if v == "QuadraticInXAndY":
        return zmax(g("minimum"), _quad2(g, x, y))
    if v == "ConstAboveDiagonalIntoQuadraticXAndY":
        g1 = lambda n: f[f"1.{n}"]  # noqa: E731
        return z3.If(x < y, f["0"], zmax(g1("minimum"), _quad2(g1, x, y)))
    if v in ("ConstAboveDiagonal", "ConstBelowDiagonal", "AboveAndBelowDiagonal"):
        inner = f[f"{p}.model.$variant"]
        if inner in ("ConstAboveDiagonal", "ConstBelowDiagonal", "AboveAndBelowDiagonal"):
            return None
        if v == "AboveAndBelowDiagonal":
            m = spec_two(inner, f, zmax(x, y), zmin(x, y), p=f"{p}.model.0")
            return m
        m = spec_two(inner, f, x, y, p=f"{p}.model.0")
        if m is None:
            return None
        if v == "ConstAboveDiagonal":
            return z3.If(x < y, g("constant"), m)
        return z3.If(x > y, g("constant"), m)
    return None


def _quad2(g, x, y):
    return g("coeff_00") + g("coeff_10") * x + g("coeff_01") * y + g("coeff_20") * x * x + g("coeff_11") * x * y + g("coeff_02") * y * y


def spec_three(v, f, x, y, z):
    g = lambda n: f[f"0.{n}"]  # noqa: E731
    if v == "ConstantCost":
        return f["0"]
    if v == "AddedSizes":
        return (x + y + z) * g("slope") + g("intercept")
    if v == "LinearInX":
        return x * g("slope") + g("intercept")
    if v == "LinearInY":
        return y * g("slope") + g("intercept")
    if v == "LinearInZ":
        return z * g("slope") + g("intercept")
    if v == "QuadraticInZ":
        return g("coeff_0") + g("coeff_1") * z + g("coeff_2") * z * z
    if v == "ExpModCost":
        c = g("coefficient_00") + g("coefficient_11") * y * z + g("coefficient_12") * y * z * z
        return z3.If(x <= z, c, c + tdiv2(c))
    if v == "LiteralInYorLinearInZ":
        return z3.If(y == 0, g("slope") * z + g("intercept"), y)
    if v == "LinearInMaxYZ":
        return zmax(y, z) * g("slope") + g("intercept")
    if v == "LinearInYandZ":
        return y * g("slope1") + z * g("slope2") + g("intercept")
    return None


def spec_four(v, f, x, y, z, u):
    if v == "ConstantCost":
        return f["0"]
    if v == "LinearInU":
        return f["0.slope"] * u + f["0.intercept"]
    return None


def spec_six(v, f, *a):
    if v == "ConstantCost":
        return f["0"]
    return None


SPECS = {"OneArgument": (1, spec_one), "TwoArguments": (2, spec_two), "ThreeArguments": (3, spec_three),
         "FourArguments": (4, spec_four), "SixArguments": (6, spec_six)}

# degree of the shape in (sizes, coefficients) for the no-overflow envelope
DEG = {"QuadraticCost": 2, "MultipliedSizes": 2, "WithInteractionInXAndY": 2, "QuadraticInY": 2, "QuadraticInXAndY": 2,
       "ConstAboveDiagonalIntoQuadraticXAndY": 2, "QuadraticInZ": 2, "ExpModCost": 3}


def _leaves_norm(leaves, root):
    """strip the root prefix: 'self.0.slope' -> '0.slope'"""
    out = {}
    for k, v in leaves.items():
        if k.startswith(root + "."):
            out[k[len(root) + 1:]] = v
        elif k == root:
            out[""] = v
    return out


def costfn_family(world: World, res: Result, tier: str, kf: KnownFindings):
    nested_models = ["LinearInX", "LinearInY", "LinearInXAndY", "MultipliedSizes", "AddedSizes", "SubtractedSizes", "MinSize",
                     "MaxSize", "QuadraticInY", "ConstantCost", "LinearOnDiagonal", "QuadraticInXAndY", "WithInteractionInXAndY"]
    for ty, (nargs, spec) in SPECS.items():
        try:
            fn = world.fn(ty, "cost")
            variants = world.variants(ty)
        except Unsupported as e:
            res.add(Obligation(f"costfn/{ty}", "undecided", str(e)))
            continue
        for var in variants:
            inners = [None]
            if any("Box<TwoArguments>" in t.replace(" ", "") or "ConstantOrTwoArguments" in t for _, t in var.fields):
                have = {v.name for v in variants}
                inners = [m for m in nested_models if m in have]
                if tier == "quick":
                    inners = inners[:6]
            for inner in inners:
                name = f"costfn/{ty}::{var.name}" + (f"[model={inner}]" if inner else "")
                _one_cost_obligation(world, res, fn, ty, var, inner, nargs, spec, name, tier)


def _one_cost_obligation(world, res, fn, ty, var, inner, nargs, spec, name, tier):
    ex = world.executor(int_mode=True, timeout_ms=20000 if tier == "quick" else 120000)
    st = ex.new_state()
    leaves = {}
    try:
        selfv = sym_struct(world, ex, st, ty, "self", leaves, variant_of=lambda en, path: var.name if path == "self" else inner)
        args = [ex.sym_int(n, 64, True, st) for n in ["x", "y", "z", "u", "v", "w"][:nargs]]
        selfr = ex.alloc(st, selfv)
        t0 = time.time()
        outs = ex.run(fn, [selfr] + args, st)
    except Unsupported as e:
        res.add(Obligation(name, "undecided", str(e)))
        return
    res.functions.update(ex.encoded)
    f = _leaves_norm(leaves, "self")
    und = [o for o in outs if o.kind == "undecided"]
    if und:
        res.add(Obligation(name, "undecided", und[0].msg, ex.queries, ex.solver_s))
        return
    sp = spec(var.name, f, *[a.e for a in args])
    if sp is None:
        res.add(Obligation(name, "undecided", f"no specification entry for costing shape {var.name} (new variant?)", ex.queries, ex.solver_s))
        return
    rets = [o for o in outs if o.kind == "return"]
    panics = [o for o in outs if o.kind == "panic"]
    ob = Obligation(name, "discharged", f"{len(rets)} return paths equal the specification; {len(panics)} overflow-panic paths outside the envelope")
    ob.witness = len(rets) > 0
    if not rets:
        ob.status, ob.detail = "undecided", "no feasible return path (vacuous)"
    for o in rets:
        r = ex.check(o.pc, o.value.e != sp)
        if r == "sat":
            m = ex.model(o.pc, o.value.e != sp)
            cex = model_to_cex(m, leaves, args, nargs)
            cex.update({"type": ty, "variant": var.name, "inner": inner, "got": str(m.eval(o.value.e, True)), "spec": str(m.eval(sp, True))})
            ob.status, ob.detail, ob.model = "violated", f"result differs from the ledger costing function: {cex}", cex
            ob.finding_key = f"costfn {ty}::{var.name}"
            break
        if r == "unknown":
            ob.status, ob.detail = "undecided", "solver unknown on equality query"
    # no-overflow envelope
    if ob.status == "discharged" and panics:
        deg = max(DEG.get(var.name, 1), DEG.get(inner, 1) if inner else 1)
        S = 24 if deg == 1 else (20 if deg == 2 else 13)
        C = 62 - deg * S - 4
        env = []
        for k, v in leaves.items():
            if isinstance(v, str):
                continue
            if k.endswith("minimum"):  # a size-like parameter (compared with / substituted for a size)
                env.append(z3.And(v >= 0, v < (1 << S)))
                continue
            env.append(z3.And(v > -(1 << C), v < (1 << C)))
        for a in args:
            env.append(z3.And(a.e >= 0, a.e < (1 << S)))
        bad = None
        for o in panics:
            r = ex.check(o.pc, *env)
            if r == "sat":
                m = ex.model(o.pc, *env)
                bad = (o, m)
                break
            if r == "unknown":
                ob.detail += "; envelope query unknown for one overflow path"
        res.bounds[f"envelope/{var.name}"] = f"sizes in [0,2^{S}), |coefficients| < 2^{C}"
        if bad:
            o, m = bad
            cex = model_to_cex(m, leaves, args, nargs)
            cex.update({"type": ty, "variant": var.name, "inner": inner, "panic": o.msg})
            ob.status, ob.detail, ob.model = "violated", f"arithmetic overflow inside the realistic envelope: {cex}", cex
            ob.finding_key = f"costfn-overflow {ty}::{var.name}"
    ob.queries, ob.solver_s = ex.queries, round(ex.solver_s, 3)
    res.add(ob)
    if len(res.samples) < 6:
        res.samples.append({"obligation": name, "paths": len(outs), "spec": str(z3.simplify(sp))[:200]})


def model_to_cex(m, leaves, args, nargs):
    d = {}
    for k, v in leaves.items():
        d[k] = v if isinstance(v, str) else str(m.eval(v, True))
    for n, a in zip(["x", "y", "z", "u", "v", "w"], args):
        d[n] = str(m.eval(a.e, True))
    return d


# --------------------------------------------------------------------------------------------
# step accounting


STEP_KINDS = ["Constant", "Var", "Lambda", "Apply", "Delay", "Force", "Builtin", "Constr", "Case"]
MC_FIELD = {"Constant": "constant", "Var": "var", "Lambda": "lambda", "Apply": "apply", "Delay": "delay", "Force": "force",
            "Builtin": "builtin", "Constr": "constr", "Case": "case", "StartUp": "startup"}


def mk_machine(world: World, ex, st, prefix="m"):
    """Symbolic Machine: budget, slippage, step counters, machine costs symbolic; the rest opaque."""
    L = {}
    mc_fields = {}
    d = world.decls.get("MachineCosts")
    for fname, _ in d.fields:
        mem = ex.sym_int(f"{prefix}.cost.{fname}.mem", 64, True, st)
        cpu = ex.sym_int(f"{prefix}.cost.{fname}.cpu", 64, True, st)
        L[f"cost.{fname}.mem"], L[f"cost.{fname}.cpu"] = mem.e, cpu.e
        mc_fields[fname] = world.adt("ExBudget", None, mem=mem, cpu=cpu)
    mc = world.adt("MachineCosts", None, **mc_fields)
    cm = world.adt("CostModel", None, machine_costs=mc, builtin_costs=fresh_obj("builtin_costs"))
    bm = ex.sym_int(f"{prefix}.budget.mem", 64, True, st)
    bc = ex.sym_int(f"{prefix}.budget.cpu", 64, True, st)
    L["budget.mem"], L["budget.cpu"] = bm.e, bc.e
    sl = ex.sym_int(f"{prefix}.slippage", 32, False, st)
    L["slippage"] = sl.e
    steps = []
    for i in range(10):
        s = ex.sym_int(f"{prefix}.steps{i}", 32, False, st)
        L[f"steps{i}"] = s.e
        steps.append(s)
    m = world.adt("Machine", None, costs=cm, ex_budget=world.adt("ExBudget", None, mem=bm, cpu=bc), slippage=sl,
                  unbudgeted_steps=Arr(tuple(steps)), traces=VecV(Arr(())), spend_counter=Adt("Option", "None", ()),
                  semantics=Adt("BuiltinSemantics", world.variants("BuiltinSemantics")[0].name, ()))
    return m, L


def read_machine(world, ex, st, ref):
    m = ex.read(st, ref.cell, ref.proj)
    bud = world.get(m, "ex_budget")
    steps = world.get(m, "unbudgeted_steps").elems
    return world.get(bud, "mem").e, world.get(bud, "cpu").e, [s.e for s in steps]


def steps_family(world: World, res: Result, tier: str, kf: KnownFindings):
    """Invariant I(m, T):  steps[9] == sum(steps[0..9])  and  steps[9] <= slippage  (any batching rule that keeps the
                          pending count bounded by the slippage is accepted: the bound only serves to exclude counter overflow)
                          and spent + sum_i steps[i]*cost_i == T    (T = ghost total, per dimension)
    One call of step_and_maybe_spend(k) from an arbitrary I-state:  on Ok  I holds with T' = T + cost_k and the
    remaining budget is >= 0 whenever a flush happened;  on Err(OutOfExError) a flush happened and left a negative component;
    nothing else is returned; no panic within the envelope."""
    S_BITS, C_BITS = 16, 40
    res.bounds["steps"] = f"slippage in [1,2^{S_BITS}], step costs in [0,2^{C_BITS}), budget components in (-2^62, 2^62)"
    try:
        f_step = world.fn("Machine", "step_and_maybe_spend")
        f_flush = world.fn("Machine", "spend_unbudgeted_steps")
        f_spend = world.fn("Machine", "spend_budget")
    except Unsupported as e:
        res.add(Obligation("steps/*", "undecided", str(e)))
        return
    kinds = STEP_KINDS
    # one obligation per step kind (the kind indexes an array; concrete kinds keep the queries linear)
    for kind in kinds:
        name = f"steps/step_and_maybe_spend[{kind}]"
        ex = world.executor(int_mode=True, timeout_ms=30000 if tier == "quick" else 200000, max_steps=6000)
        st = ex.new_state()
        try:
            m, L = mk_machine(world, ex, st)
            ref = ex.alloc(st, m)
            # assume invariant + envelope
            steps = [L[f"steps{i}"] for i in range(10)]
            costs_mem = [L[f"cost.{MC_FIELD[k]}.mem"] for k in kinds]
            costs_cpu = [L[f"cost.{MC_FIELD[k]}.cpu"] for k in kinds]
            st.pc += [steps[9] == z3.Sum(steps[:9]), steps[9] <= L["slippage"], L["slippage"] >= 1, L["slippage"] <= (1 << S_BITS)]
            for c in costs_mem + costs_cpu:
                st.pc.append(z3.And(c >= 0, c < (1 << C_BITS)))
            for b in (L["budget.mem"], L["budget.cpu"]):
                st.pc.append(z3.And(b > -(1 << 62), b < (1 << 62)))
            pre_mem, pre_cpu = L["budget.mem"], L["budget.cpu"]
            pend_mem = z3.Sum([steps[i] * costs_mem[i] for i in range(9)])
            pend_cpu = z3.Sum([steps[i] * costs_cpu[i] for i in range(9)])
            k = kinds.index(kind)
            outs = ex.run(f_step, [ref, Adt("StepKind", kind, ())], st)
        except Unsupported as e:
            res.add(Obligation(name, "undecided", str(e)))
            continue
        res.functions.update(ex.encoded)
        ob = Obligation(name, "discharged", "")
        und = [o for o in outs if o.kind == "undecided"]
        if und:
            ob.status, ob.detail = "undecided", und[0].msg
            res.add(ob)
            continue
        n_ok = n_err = 0
        for o in outs:
            if o.kind == "panic":
                mdl = ex.model(o.pc)
                ob.status, ob.detail = "violated", f"panic inside the envelope: {o.msg}"
                ob.model = {kk: str(mdl.eval(v, True)) for kk, v in L.items()} if mdl else None
                ob.finding_key = f"steps panic {kind}"
                break
            post_mem, post_cpu, psteps = read_machine(world, ex, o.state, ref)
            ppend_mem = z3.Sum([psteps[i] * costs_mem[i] for i in range(9)])
            ppend_cpu = z3.Sum([psteps[i] * costs_cpu[i] for i in range(9)])
            # ghost total before: T = (B0 - pre) + pending ; after: T' = (B0 - post) + pending'  =>  T' - T == cost_k
            d_mem = (pre_mem - post_mem) + ppend_mem - pend_mem
            d_cpu = (pre_cpu - post_cpu) + ppend_cpu - pend_cpu
            v = o.value
            if isinstance(v, Adt) and v.variant == "Ok":
                n_ok += 1
                good = z3.And(d_mem == costs_mem[k], d_cpu == costs_cpu[k], psteps[9] == z3.Sum(psteps[:9]), psteps[9] <= L["slippage"],
                              # success never leaves a negative budget behind after a flush
                              z3.Implies(psteps[9] == 0, z3.And(post_mem >= 0, post_cpu >= 0)))
            elif isinstance(v, Adt) and v.variant == "Err":
                n_err += 1
                e = v.fields[0]
                isoo = isinstance(e, Adt) and e.variant == "OutOfExError"
                if not isoo:
                    ob.status, ob.detail = "violated", f"unexpected error {e!r}"
                    ob.finding_key = f"steps error {kind}"
                    break
                # the failure is justified: the total charged so far (incl. this step) exceeds the budget in some dimension
                good = z3.Or(pre_mem - pend_mem - costs_mem[k] < 0, pre_cpu - pend_cpu - costs_cpu[k] < 0)
            else:
                ob.status, ob.detail = "undecided", f"unexpected result shape {v!r}"
                break
            r = ex.check(o.pc, z3.Not(good))
            if r == "sat":
                mdl = ex.model(o.pc, z3.Not(good))
                ob.status = "violated"
                ob.model = {kk: str(mdl.eval(vv, True)) for kk, vv in L.items()}
                ob.model["kind"] = kind
                ob.detail = f"accounting invariant broken on a {v.variant} path: {ob.model}"
                ob.finding_key = f"steps invariant {kind}"
                break
            if r == "unknown":
                ob.status, ob.detail = "undecided", "solver unknown"
        ob.witness = n_ok > 0 and n_err > 0
        if ob.status == "discharged":
            if not ob.witness:
                ob.status, ob.detail = "undecided", f"vacuous: ok paths {n_ok}, err paths {n_err}"
            else:
                ob.detail = f"{n_ok} Ok paths preserve I with T'=T+cost[{kind}], {n_err} OutOfEx paths justified"
        ob.queries, ob.solver_s = ex.queries, round(ex.solver_s, 3)
        res.add(ob)
    res.samples.append({"obligation": "steps/step_and_maybe_spend[k]", "invariant": "steps[9]==sum(steps[0..9]) & steps[9]<slippage & spent+sum(steps[i]*cost[i])==T"})


# --------------------------------------------------------------------------------------------
# which size measure feeds which costing function


def snake(variant: str) -> str:
    out = []
    for i, ch in enumerate(variant):
        if ch.isupper() and i > 0 and variant[i - 1] != "_" and not variant[i - 1].isupper():
            out.append("_")
        out.append(ch.lower())
    return "".join(out)


# builtin (specification name) -> cost-model field when it is not the snake-cased builtin name
FIELD_ALIAS = {"expModInteger": "exp_mod_int", "iData": "i_data", "bData": "b_data", "unIData": "un_i_data", "unBData": "un_b_data"}

# special size measures (Plutus cost model: literal-costed arguments, list lengths), by argument position
#   ('mem', i) generic ExMemoryUsage of argument i ; ('words', i) integer literal as a byte count rounded up to 8-byte words,
#   must be in [0, 8192] ; ('abs', i) |integer literal| saturated to i64::MAX ; ('len', i) number of list elements ;
#   ('len_or_mem', i) list length for a list, generic measure otherwise ; ('memsem', i) string-aware measure by semantics variant
SPECIAL = {
    "integerToByteString": [("mem", 0), ("words", 1), ("mem", 2)],
    "replicateByte": [("words", 0), ("mem", 1)],
    "shiftByteString": [("mem", 0), ("abs", 1)],
    "rotateByteString": [("mem", 0), ("abs", 1)],
    "dropList": [("abs", 0), ("mem", 1)],
    "writeBits": [("mem", 0), ("len", 1), ("mem", 2)],
    # the ledger's costing functions for the multi-scalar multiplications are linear in X only (number of scalars);
    # the measure of the point list is not observable through them and is not checked
    "bls12_381_G1_multiScalarMul": [("len_or_mem", 0), ("any", 1)],
    "bls12_381_G2_multiScalarMul": [("len_or_mem", 0), ("any", 1)],
    "appendString": [("memsem", 0), ("memsem", 1)],
    "equalsString": [("memsem", 0), ("memsem", 1)],
    "encodeUtf8": [("memsem", 0)],
}


def whichsize_family(world: World, res: Result, tier: str, kf: KnownFindings):
    from specs import cek as CEK
    try:
        f_budget = world.fn("BuiltinCosts", "to_ex_budget")
        variants = [v.name for v in world.variants("DefaultFunction")]
        cost_fields = [n for n, _ in world.decls.get("BuiltinCosts").fields]
    except Unsupported as e:
        res.add(Obligation("whichsize/*", "undecided", str(e)))
        return
    size_fn = z3.Function("exmem", z3.IntSort(), z3.IntSort())          # generic measure of argument #i
    sizesem_fn = z3.Function("exmem_sem", z3.IntSort(), z3.IntSort(), z3.IntSort())
    sem_names = [v.name for v in world.variants("BuiltinSemantics")]
    for var in variants:
        name = CEK.VARIANT_TO_NAME.get(var)
        oname = f"whichsize/{var}"
        if name is None:
            res.add(Obligation(oname, "undecided", "not a builtin of the specification table (specs/cek.py)"))
            continue
        arity = CEK.BUILTINS[name][1]
        field = FIELD_ALIAS.get(name, snake(var))
        if field not in cost_fields:
            res.add(Obligation(oname, "undecided", f"no cost-model field `{field}` declared (naming convention changed?)"))
            continue
        spec_sizes = SPECIAL.get(name, [("mem", i) for i in range(arity)])
        sem = sem_names[-1] if tier == "quick" else None
        for semn in ([sem] if sem else sem_names):
            _whichsize_one(world, res, f_budget, var, name, field, arity, spec_sizes, semn, sem_names, size_fn, sizesem_fn, cost_fields, oname + (f"[{semn}]" if not sem else ""))


def _whichsize_one(world, res, f_budget, var, name, field, arity, spec_sizes, semn, sem_names, size_fn, sizesem_fn, cost_fields, oname):
    calls = []

    def stub_cost(ex, st, c, args, dty):
        selfv = ex.read(st, args[0].cell, args[0].proj) if isinstance(args[0], Ref) else args[0]
        r = ex.sym_int(fresh("cost"), 64, True)
        st.events = st.events + [("cost", selfv, list(args[1:]), r)]
        return r

    def pos_of(ref):
        for el in reversed(ref.proj):
            if el[0] == "idx":
                return z3.simplify(ex.to_int_expr(el[1])).as_long()
        raise Unsupported("size measure of something that is not an argument")

    def stub_mem(ex, st, c, args, dty):
        return BV(size_fn(z3.IntVal(pos_of(args[0]))), 64, True)

    def stub_log2(ex, st, c, args, dty):
        r = ex.sym_int(fresh("log2"), 64, True)
        st.pc.append(ex.to_int_expr(r) >= 0)
        return r

    def stub_memsem(ex, st, c, args, dty):
        sv = args[1]
        return BV(sizesem_fn(z3.IntVal(pos_of(args[0])), z3.IntVal(sem_names.index(sv.variant))), 64, True)

    stubs = {"OneArgument::cost": stub_cost, "TwoArguments::cost": stub_cost, "ThreeArguments::cost": stub_cost,
             "FourArguments::cost": stub_cost, "SixArguments::cost": stub_cost,
             "Value::to_ex_mem": stub_mem, "Value::to_ex_mem_with_semantics": stub_memsem, "integer_log2": stub_log2}
    ex = world.executor(timeout_ms=20000, stubs=stubs, max_paths=200)
    ob = Obligation(oname, "discharged", "")
    try:
        st = ex.new_state()
        objs = {}
        fields = {}
        for fnm in cost_fields:
            m, c_ = fresh_obj(fnm + ".mem"), fresh_obj(fnm + ".cpu")
            objs[fnm] = (m, c_)
            fields[fnm] = world.adt("CostingFun", None, mem=m, cpu=c_)
        costs = ex.alloc(st, world.adt("BuiltinCosts", None, **fields))
        # arguments: opaque values, except positions with a literal / list measure which get a constant of the right type
        argv, lits = [], {}
        for i in range(arity):
            kind = dict((p, k) for k, p in spec_sizes).get(i, "mem")
            if kind in ("words", "abs") or (name == "expModInteger" and i == 2):
                n = z3.Int(fresh("lit"))
                lits[i] = n
                argv.append(world.con(world.c_int(n)))
            elif kind in ("len", "len_or_mem") or (name.endswith("multiScalarMul") and i == 1):
                k = 2
                lits[i] = k
                argv.append(world.con(world.adt("Constant", "ProtoList", world.adt("Type", "Integer"),
                                                VecV(Arr(tuple(world.c_int(z3.Int(fresh("e"))) for _ in range(k)))))))
            else:
                argv.append(fresh_obj(f"arg{i}", "Value"))
        args = ex.alloc(st, Arr(tuple(argv)))
        outs = ex.run(f_budget, [costs, Adt("DefaultFunction", var, ()), args, Adt("BuiltinSemantics", semn, ())], st)
    except Unsupported as e:
        ob.status, ob.detail = "undecided", str(e)
        res.add(ob)
        return
    res.functions.update(ex.encoded)
    n_ok = 0
    for o in outs:
        if o.kind == "undecided":
            ob.status, ob.detail = "undecided", o.msg
            break
        if o.kind == "panic":
            ob.status, ob.detail, ob.finding_key = "violated", f"costing panics: {o.msg}", f"costing {name}: panic"
            break
        v = o.value
        # expected failure conditions of the literal measures
        fail_cond = z3.BoolVal(False)
        for (k, i) in spec_sizes:
            if k == "words":
                fail_cond = z3.Or(fail_cond, lits[i] < 0, lits[i] > 8192)
        if v.variant == "Err":
            if name == "expModInteger":
                continue  # modulus range check (value-level, covered by C04)
            r = ex.check(o.pc, z3.Not(fail_cond))
            if r != "unsat":
                ob.status, ob.detail, ob.finding_key = "violated", f"costing fails although every literal size is within its bounds: {v.fields[0]!r}"[:300], f"costing {name}: spurious failure"
                break
            continue
        n_ok += 1
        if ex.check(o.pc, fail_cond) == "sat":
            ob.status, ob.detail, ob.finding_key = "violated", "costing succeeds for a literal size outside [0, 8192]", f"costing {name}: missing size check"
            break
        calls = [e for e in o.state.events if e[0] == "cost"]
        if len(calls) != 2:
            ob.status, ob.detail, ob.finding_key = "violated", f"{len(calls)} costing-function evaluations instead of 2 (mem, cpu)", f"costing {name}: calls"
            break
        budget = v.fields[0]
        want_mem, want_cpu = objs[field]
        by_self = {}
        for (_, selfv, sizes, r) in calls:
            if isinstance(selfv, Opaque):
                for fnm, (m, c_) in objs.items():
                    if selfv.e.eq(m.e):
                        by_self[(fnm, "mem")] = (sizes, r)
                    if selfv.e.eq(c_.e):
                        by_self[(fnm, "cpu")] = (sizes, r)
        if set(by_self) != {(field, "mem"), (field, "cpu")}:
            ob.status, ob.detail = "violated", f"cost parameters used: {sorted(by_self)}; the ledger uses {field}.mem and {field}.cpu"
            ob.finding_key = f"costing {name}: wrong parameters"
            break
        bm, bc = world.get(budget, "mem"), world.get(budget, "cpu")
        if not (bm.e.eq(by_self[(field, "mem")][1].e) and bc.e.eq(by_self[(field, "cpu")][1].e)):
            ob.status, ob.detail, ob.finding_key = "violated", "mem/cpu components swapped or not taken from the respective costing function", f"costing {name}: components"
            break
        bad = None
        for dim in ("mem", "cpu"):
            sizes, _ = by_self[(field, dim)]
            if len(sizes) != len(spec_sizes):
                bad = f"{dim}: {len(sizes)} sizes passed, the costing function takes {len(spec_sizes)}"
                break
            for j, ((k, i), sz) in enumerate(zip(spec_sizes, sizes)):
                got = ex.to_int_expr(sz)
                if k == "any":
                    continue
                if k == "mem":
                    want = size_fn(z3.IntVal(i))
                elif k == "memsem":
                    want = sizesem_fn(z3.IntVal(i), z3.IntVal(sem_names.index(semn)))
                elif k == "words":
                    n = lits[i]
                    want = z3.If(n == 0, 0, (n - 1) / 8 + 1)
                elif k == "abs":
                    n = lits[i]
                    a = z3.If(n >= 0, n, -n)
                    want = z3.If(a > I64_HI, z3.IntVal(I64_HI), a)
                else:
                    want = z3.IntVal(lits[i])
                r = ex.check(o.pc, got != want)
                if r == "sat":
                    m = ex.model(o.pc, got != want)
                    bad = f"{dim}: size #{j} passed to the costing function is {m.eval(got, True)}; the ledger's measure ({k} of argument {i}) gives {m.eval(want, True)}"
                    break
                if r == "unknown":
                    bad = "?"
            if bad:
                break
        if bad == "?":
            ob.status, ob.detail = "undecided", "solver unknown"
            break
        if bad:
            ob.status, ob.detail, ob.finding_key = "violated", bad, f"costing {name}: wrong size"
            break
    if ob.status == "discharged":
        if n_ok == 0:
            ob.status, ob.detail = "undecided", "vacuous: no successful costing path"
        else:
            ob.detail = f"{field}.{{mem,cpu}} applied to {spec_sizes}"
            ob.witness = True
    ob.queries, ob.solver_s = ex.queries, round(ex.solver_s, 3)
    res.add(ob)


def _sizes_family(world, res, tier, kf):
    from props import c05_sizes
    c05_sizes.sizes_family(world, res, tier, kf)


FAMILIES = {"costfn": costfn_family, "steps": steps_family, "whichsize": whichsize_family, "sizes": _sizes_family}


def run(tier: str, seed: int, only=None) -> Result:
    res = Result("C05", tier, seed, "model_checking")
    res.assumptions = [
        "mirsym trusted base: MIR interpreter + library summaries (mirsym/summaries.py)",
        "machine integers are encoded as mathematical integers with an explicit range check on every checked MIR operation (int_mode)",
    ]
    res.extra["explanation"] = ("bounded symbolic execution of the MIR of the real costing / budgeting functions; each obligation is "
                                "an SMT query over all i64 parameter and size values (z3), equality with the ledger's costing function")
    res.extra["trusted_base"] = ["rustc nightly MIR dump", "mirsym/exec.py", "mirsym/summaries.py", "z3 5.1"]
    kf = KnownFindings()
    world = World(("uplc",))
    for fam, f in FAMILIES.items():
        if only and only not in fam:
            continue
        t = time.time()
        f(world, res, tier, kf)
        log(f"[C05] family {fam}: {time.time() - t:.1f}s")
    from props import common_post
    common_post.postprocess(res, kf, replay_fn=None)
    return res
