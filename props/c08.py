"""C08 Script bytes survive every round trip — flat layer, mirsym.

Two layers:
  structure : uplc's own Encode/Decode impls (flat.rs: Program, Term, Constant, type tags, builtin tags, binders)
              executed from MIR against an abstract *token stream*: the pallas-codec primitives (bits, word, integer,
              big_integer, bool, bytes, utf8, filler, list bits) are replaced by stubs that append / consume typed
              tokens.  decode(encode(p)) = p with all tokens consumed, for enumerated term/constant shapes with
              symbolic leaves.  A tag value, tag width, field order, type-tag list or list framing that differs
              between encoder and decoder shows up as a token mismatch or a different program.
  primitives: the pallas-codec bit-level primitives are mutual inverses (bit offset symbolic) - see c08 `prim/*`.
Outside: CBOR/hex wrapping, PlutusData CBOR, hashes, addresses, blueprint JSON (third-party codecs / hashing).
"""
from __future__ import annotations

import time

import z3

from mirsym.exec import Unsupported, Panic
from mirsym.values import *  # noqa
from mirsym import summaries as S
from mirsym.world import World
from props import c11
from vlib.common import Obligation, Result, KnownFindings, log

# ------------------------------------------------------------------------------------------------ token stubs


def _push(st, tok):
    st.ghost = dict(st.ghost)
    st.ghost["tok"] = st.ghost.get("tok", ()) + (tok,)


def _pop(st):
    toks = st.ghost.get("tok", ())
    if not toks:
        return None
    st.ghost = dict(st.ghost)
    st.ghost["tok"] = toks[1:]
    return toks[0]


def _derr(msg):
    return Adt("Result", "Err", (Adt("Error", "Message", (Str(z3.Empty(ByteSeq)),)),))


def enc_stub(kind, returns_result):
    def h(ex, st, c, args, dty):
        payload = tuple(S.deref(ex, st, a) if isinstance(a, Ref) else a for a in args[1:])
        _push(st, (kind,) + payload)
        return Adt("Result", "Ok", (args[0],)) if returns_result else args[0]
    return h


def dec_stub(kind, nargs=0):
    def h(ex, st, c, args, dty):
        tok = _pop(st)
        if tok is None:
            return _derr("end of buffer")
        if tok[0] != kind:
            st.ghost["mismatch"] = f"decoder reads a {kind} where the encoder wrote a {tok[0]}"
            return _derr("token kind")
        if kind == "bits":
            n_dec = z3.simplify(ex.to_int_expr(args[1]))
            n_enc = z3.simplify(ex.to_int_expr(tok[1]))
            if not (n_dec.eq(n_enc)):
                st.ghost["mismatch"] = f"decoder reads {n_dec} bits where the encoder wrote {n_enc}"
                return _derr("width")
            v = tok[2]
            return Adt("Result", "Ok", (BV(v.e, 8, False) if isinstance(v, BV) else v,))
        if kind == "filler":
            return Adt("Result", "Ok", (UNIT,))
        return Adt("Result", "Ok", (tok[1],))
    return h


def bit_stub(ex, st, c, args, dty):
    tok = _pop(st)
    if tok is None:
        return _derr("end of buffer")
    if tok[0] != "bit":
        st.ghost["mismatch"] = f"decoder reads a list/bool bit where the encoder wrote a {tok[0]}"
        return _derr("token kind")
    return Adt("Result", "Ok", (tok[1],))


def one_zero(b):
    def h(ex, st, c, args, dty):
        _push(st, ("bit", BoolV(z3.BoolVal(b))))
        return UNIT
    return h


def enc_bool(ex, st, c, args, dty):
    _push(st, ("bit", args[1]))
    return args[0]


def cbor_encode(ex, st, c, args, dty):
    d = S.deref(ex, st, args[0])
    return Adt("Result", "Ok", (VecV(LibV("cbor", (d,))),))


def cbor_decode(ex, st, c, args, dty):
    v = S.deref(ex, st, args[0])
    it = v.items if isinstance(v, VecV) else v
    if isinstance(it, LibV) and it.kind == "cbor":
        return Adt("Result", "Ok", (it.data[0],))
    return [(None, Adt("Result", "Err", (fresh_obj("cborerr"),)))]


STUBS = {
    "Encoder::bits": enc_stub("bits", False), "Encoder::word": enc_stub("word", False), "Encoder::integer": enc_stub("integer", False),
    "Encoder::big_integer": enc_stub("big_integer", False), "Encoder::bool": enc_bool, "Encoder::bytes": enc_stub("bytes", True),
    "Encoder::utf8": enc_stub("utf8", True), "Encoder::u8": enc_stub("u8", True), "Encoder::char": enc_stub("char", False),
    "Encoder::filler": enc_stub("filler", False), "Encoder::one": one_zero(True), "Encoder::zero": one_zero(False),
    "Decoder::bits8": dec_stub("bits"), "Decoder::word": dec_stub("word"), "Decoder::integer": dec_stub("integer"),
    "Decoder::big_integer": dec_stub("big_integer"), "Decoder::bool": bit_stub, "Decoder::bytes": dec_stub("bytes"),
    "Decoder::utf8": dec_stub("utf8"), "Decoder::u8": dec_stub("u8"), "Decoder::char": dec_stub("char"),
    "Decoder::filler": dec_stub("filler"), "Decoder::bit": bit_stub,
    "Constant::to_pretty": lambda ex, st, c, args, dty: fresh_obj("pretty", "String"),
    "<PlutusData as Fragment>::encode_fragment": cbor_encode, "<PlutusData as Fragment>::decode_fragment": cbor_decode,
}


# ------------------------------------------------------------------------------------------------ shapes


def const_shapes(w: World, tier):
    """(name, builder(gen) -> Constant Adt)"""
    from props.c04 import Gen
    # every leaf type at the top level, as a list element, as either pair component and two levels deep
    kinds = ["int", "bytes", "str", "unit", "bool", "list:int", "list:bytes", "list:str", "list:bool", "list:unit", "list:list:int", "list:list:str",
             "list:pair:int,bool", "list:pair:str,bytes", "pair:int,bytes", "pair:str,bool", "pair:unit,data", "pair:data,str",
             "pair:list:int,pair:bool,unit", "pair:list:str,pair:bytes,str", "list:data", "data"]
    out = []
    for k in kinds:
        lens = [0, 2] if k.startswith("list:") else [None]
        for ln in lens:
            out.append((f"{k}" + (f"#{ln}" if ln is not None else ""), k, ln))
    return out


def term_shapes(tier):
    return c11.all_shapes(3 if tier == "quick" else 5)


class TermBuild(c11.Build):
    def term(self, s, stack):
        w = self.w
        if s[0] == "const":
            from props.c04 import Gen
            g = Gen(w, self.ex)
            c, _ = g.const("int")
            return w.adt("Term", "Constant", BoxV(c, "Rc"))
        if s[0] == "constr":
            fs = [self.term(x, stack) for x in s[1]]
            tag = self.fresh("ctag")
            return w.adt("Term", "Constr", tag=BV(tag, 64, False), fields=VecV(Arr(tuple(fs))))
        return super().term(s, stack)


# ------------------------------------------------------------------------------------------------ obligations


def roundtrip(world: World, ex, binder_ty: str, program: Adt, pre=(), level="Program"):
    """encode then decode a Program<binder_ty> (or a bare Term<binder_ty>: the non-debug decoder); returns (status, detail, decoded or None)"""
    f_enc = world.fn(f"{level}<T>", "encode", "Encode")
    f_dec = world.fn(f"{level}<T>", "decode", "Decode<'b>")
    st = ex.new_state()
    st.pc += list(pre)
    p = ex.alloc(st, program)
    e = ex.alloc(st, Adt("Encoder", None, (VecV(Bytes(z3.Empty(ByteSeq))), ex.mk_int(0, 64, True), ex.mk_int(0, 8, False))))
    outs = ex.run(f_enc, [p, e], st, generics={"T": binder_ty})
    und = [o for o in outs if o.kind == "undecided"]
    if und:
        return "undecided", und[0].msg, None
    if len(outs) != 1 or outs[0].kind != "return" or outs[0].value.variant != "Ok":
        return "violated", f"encoding did not succeed deterministically: {[(o.kind, o.msg, repr(o.value)[:80]) for o in outs][:3]}", None
    st2 = outs[0].state
    st2.frames = []
    ntok = len(st2.ghost.get("tok", ()))
    d = ex.alloc(st2, Adt("Decoder", None, (fresh_obj("buffer"), ex.mk_int(0, 64, True), ex.mk_int(0, 64, False))))
    outs2 = ex.run(f_dec, [d], st2, generics={"T": binder_ty})
    und = [o for o in outs2 if o.kind == "undecided"]
    if und:
        return "undecided", und[0].msg, None
    if len(outs2) != 1:
        return "violated", f"decoding of encoder output is not deterministic ({len(outs2)} outcomes)", None
    o = outs2[0]
    if o.kind == "panic":
        return "violated", f"decoder panics on encoder output: {o.msg}", None
    if o.value.variant != "Ok":
        return "violated", f"decoder rejects encoder output ({o.state.ghost.get('mismatch', 'error')}); tokens written: {ntok}", None
    left = o.state.ghost.get("tok", ())
    if left:
        return "violated", f"{len(left)} encoded token(s) left unread by the decoder (first: {left[0][0]})", None
    got = o.value.fields[0]
    eq = S.struct_eq(ex, o.state, got, program)
    r = ex.check(o.pc, z3.Not(eq))
    if r == "sat":
        return "violated", f"decode(encode(p)) differs from p: got {got!r}"[:500], None
    if r == "unknown":
        return "undecided", "solver unknown", None
    return "discharged", f"{ntok} tokens", got


def name_value(w, binder, u, text=None):
    text = text or Str(z3.Const(fresh("txt"), ByteSeq))
    if binder == "Name":
        return w.adt("Name", None, text=text, unique=w.adt("Unique", None, BV(u, 64, True)))
    if binder == "NamedDeBruijn":
        return w.adt("NamedDeBruijn", None, text=text, index=w.adt("DeBruijn", None, BV(u, 64, False)))
    return w.adt("DeBruijn", None, BV(u, 64, False))


class TB(TermBuild):
    def __init__(self, w, ex, binder_ty):
        super().__init__(w, ex, {"Name": "name", "NamedDeBruijn": "named_debruijn", "DeBruijn": "debruijn"}[binder_ty])
        self.binder_ty = binder_ty

    def name(self, u):
        return name_value(self.w, self.binder_ty, u)

    def term(self, s, stack):
        if s[0] == "lam":
            w = self.w
            # DeBruijn binders are not serialised: the parameter is index 0 by construction
            b = z3.BitVecVal(0, 64) if self.binder_ty == "DeBruijn" else self.fresh("b")
            self.binders.append(b)
            body = self.term(s[1], stack + [b])
            return w.adt("Term", "Lambda", parameter_name=BoxV(self.name(b), "Rc"), body=BoxV(body, "Rc"))
        return super().term(s, stack)


def run(tier: str, seed: int, only=None) -> Result:
    res = Result("C08", tier, seed, "model_checking")
    res.assumptions = [
        "mirsym trusted base: MIR interpreter + library summaries",
        "structure layer: the pallas-codec primitives are abstracted to typed tokens (their bit-level round trip is the prim/* obligations)",
        "PlutusData CBOR (encode_fragment/decode_fragment, minicbor) is an abstract inverse pair; CBOR/hex wrapping, hashing and addresses are outside the claim",
        "DeBruijn-form lambda parameters carry index 0 (they are not serialised)",
    ]
    res.extra["explanation"] = "decode(encode(p)) = p decided by z3 on enumerated program shapes with symbolic leaves, uplc's flat.rs executed from MIR"
    res.extra["trusted_base"] = ["rustc nightly MIR dump (uplc, pallas-codec)", "mirsym/exec.py", "mirsym/summaries.py", "z3 5.1"]
    kf = KnownFindings()
    world = World(("uplc",), deps=("pallas-codec",))
    shapes = term_shapes(tier)
    res.bounds = {"term shapes": f"{len(shapes)} shapes up to {3 if tier == 'quick' else 5} nodes x binder forms DeBruijn/NamedDeBruijn/Name",
                  "constants": "all constant types incl. nested list/pair types to depth 2, lists of length 0 and 2",
                  "leaves": "symbolic (unbounded integers, symbolic byte strings/texts, symbolic indices/uniques/tags/versions)"}
    from props.c04 import Gen
    # --- terms x binders
    for binder_ty in ("DeBruijn", "NamedDeBruijn", "Name"):
        if only and only not in "terms":
            break
        ob = Obligation(f"structure/terms[{binder_ty}]", "discharged", "")
        ex = world.executor(timeout_ms=20000, stubs=dict(STUBS), max_paths=500, max_steps=40000)
        n = 0
        try:
            for shape in shapes:
                b = TB(world, ex, binder_ty)
                t = b.term(shape, [])
                ver = Tup(tuple(BV(z3.BitVec(fresh("ver"), 64), 64, False) for _ in range(3)))
                prog = world.adt("Program", None, version=ver, term=t)
                status, detail, _ = roundtrip(world, ex, binder_ty, prog)
                if status == "discharged":
                    status, detail, _ = roundtrip(world, ex, binder_ty, t, level="Term")
                    if status != "discharged":
                        detail = "Term::decode (non-debug decoder): " + detail
                n += 1
                if status != "discharged":
                    ob.status, ob.detail = status, f"{detail} (shape {shape})"
                    ob.finding_key = f"flat roundtrip terms {binder_ty}"
                    break
        except Unsupported as e:
            ob.status, ob.detail = "undecided", str(e)
        if ob.status == "discharged":
            ob.detail = f"{n} shapes round-trip"
            ob.witness = n > 0
        ob.queries, ob.solver_s = ex.queries, round(ex.solver_s, 3)
        res.functions.update(ex.encoded)
        res.add(ob)
    # --- builtins: every DefaultFunction variant
    if not only or only in "builtins":
        ob = Obligation("structure/builtins", "discharged", "")
        ex = world.executor(timeout_ms=20000, stubs=dict(STUBS), max_paths=500, max_steps=40000)
        n = 0
        try:
            for var in world.variants("DefaultFunction"):
                t = world.adt("Term", "Builtin", Adt("DefaultFunction", var.name, ()))
                prog = world.adt("Program", None, version=Tup(tuple(ex.mk_int(1, 64, False) for _ in range(3))), term=t)
                status, detail, _ = roundtrip(world, ex, "DeBruijn", prog)
                n += 1
                if status != "discharged":
                    ob.status, ob.detail, ob.finding_key = status, f"{detail} (builtin {var.name})", f"flat roundtrip builtin {var.name}"
                    break
        except Unsupported as e:
            ob.status, ob.detail = "undecided", str(e)
        if ob.status == "discharged":
            ob.detail, ob.witness = f"{n} builtins round-trip through their 7-bit tags", True
        ob.queries, ob.solver_s = ex.queries, round(ex.solver_s, 3)
        res.functions.update(ex.encoded)
        res.add(ob)
    # --- constants
    if not only or only in "constants":
        for cname, kind, ln in const_shapes(world, tier):
            ob = Obligation(f"structure/constant[{cname}]", "discharged", "")
            ex = world.executor(timeout_ms=20000, stubs=dict(STUBS), max_paths=500, max_steps=40000)
            try:
                g = Gen(world, ex)
                c, _ = g.const(kind, ln)
                t = world.adt("Term", "Constant", BoxV(c, "Rc"))
                prog = world.adt("Program", None, version=Tup(tuple(ex.mk_int(1, 64, False) for _ in range(3))), term=t)
                status, detail, _ = roundtrip(world, ex, "DeBruijn", prog, pre=g.assume)
                if status != "discharged":
                    ob.status, ob.detail, ob.finding_key = status, detail, f"flat roundtrip constant {kind}"
                else:
                    ob.detail, ob.witness = detail, True
            except Unsupported as e:
                ob.status, ob.detail = "undecided", str(e)
            ob.queries, ob.solver_s = ex.queries, round(ex.solver_s, 3)
            res.functions.update(ex.encoded)
            res.add(ob)
    res.samples.append({"obligation": "structure/terms[DeBruijn]", "example_shape": str(shapes[min(5, len(shapes) - 1)])})
    from props import common_post
    common_post.postprocess(res, kf, replay_fn=None)
    return res
