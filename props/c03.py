"""C03 The evaluator implements UPLC's operational semantics — mirsym, micro-traces of the real
Machine::compute / return_compute / force_evaluate / apply_evaluate on symbolic machine states.

Sub-terms, environments' contents and the bottom continuation are opaque symbols, so each verdict
holds for terms of any size; tags, indices, arities, force counts are symbolic integers; vector
lengths are enumerated.  Every trace is written against the CEK machine of the Plutus Core
specification (specs/cek.py documents the rule each trace instantiates).
"""
from __future__ import annotations

import time

import z3

from mirsym.exec import Unsupported, Outcome
from mirsym.values import *  # noqa
from mirsym import summaries as S
from mirsym.world import World
from specs import cek as CEK
from vlib.common import Obligation, Result, KnownFindings, log


class Tr:
    """Helper running single machine transitions on a shared executor."""

    def __init__(self, world: World, tier: str, sem="E", real_discharge=False):
        self.w = world
        self.sem = sem
        stubs = {"Machine::step_and_maybe_spend": self._stub_step, "Machine::eval_builtin_app": self._stub_builtin_app}
        if not real_discharge:
            stubs["value_as_term"] = self._stub_discharge
            stubs["discharge::value_as_term"] = self._stub_discharge
        self.ex = world.executor(timeout_ms=20000 if tier == "quick" else 120000, stubs=stubs, max_paths=600)
        self.f_compute = world.fn("Machine", "compute")
        self.f_return = world.fn("Machine", "return_compute")
        self.discharge_fn = z3.Function("discharge", Obj, Obj)
        self.builtin_app_fn = z3.Function("builtin_app", Obj, Obj)

    # stubs ------------------------------------------------------------------------------------
    def _stub_step(self, ex, st, c, args, dty):
        k = args[1]
        st.events = st.events + [("step", k.variant if isinstance(k, Adt) else "?")]
        return ex.ok(UNIT)

    def _stub_discharge(self, ex, st, c, args, dty):
        v = args[0]
        st.events = st.events + [("discharge", v)]
        return Opaque(z3.Const(fresh("discharged"), Obj), "Term")

    def _stub_builtin_app(self, ex, st, c, args, dty):
        rt = args[1]
        st.events = st.events + [("builtin_app", rt)]
        return ex.ok(Opaque(z3.Const(fresh("builtin_result"), Obj), "Value"))

    # state -----------------------------------------------------------------------------------
    def machine(self, st):
        w = self.w
        m = w.adt("Machine", None, costs=fresh_obj("costs"), ex_budget=fresh_obj("budget"), slippage=self.ex.mk_int(200, 32, False),
                  unbudgeted_steps=Arr(tuple(self.ex.mk_int(0, 32, False) for _ in range(10))), traces=VecV(Arr(())),
                  spend_counter=Adt("Option", "None", ()), semantics=Adt("BuiltinSemantics", self.sem, ()))
        return self.ex.alloc(st, m)

    def new(self, pc=()):
        st = self.ex.new_state()
        st.pc += list(pc)
        return st

    def compute(self, st, ctx, env, term):
        st = st.clone()
        st.frames = []
        m = self.machine(st)
        return self.ex.run(self.f_compute, [m, ctx, env, term], st)

    def ret(self, st, ctx, value):
        st = st.clone()
        st.frames = []
        m = self.machine(st)
        return self.ex.run(self.f_return, [m, ctx, value], st)

    # value builders ---------------------------------------------------------------------------
    def term(self, name="t"):
        return fresh_obj(name, "Term")

    def rc(self, v):
        return BoxV(v, "Rc")

    def env_sym(self, name="env"):
        base = z3.Const(fresh(name), Obj)
        n = z3.BitVec(fresh(name + "_len"), 64)
        return BoxV(VecV(SymSeq(base, n, "Value")), "Rc"), base, n

    def env_conc(self, k, name="e"):
        vals = [fresh_obj(f"{name}{i}", "Value") for i in range(k)]
        return BoxV(VecV(Arr(tuple(vals))), "Rc"), vals


def only_outcome(outs, what):
    und = [o for o in outs if o.kind == "undecided"]
    if und:
        raise Unsupported(und[0].msg)
    return outs


def expect_state(tr: Tr, o: Outcome, variant: str):
    """o must be Ok(MachineState::<variant>(..)); returns fields."""
    if o.kind != "return":
        return None
    v = o.value
    if not (isinstance(v, Adt) and v.variant == "Ok"):
        return None
    ms = v.fields[0]
    if not (isinstance(ms, Adt) and ms.variant == variant):
        return None
    return ms.fields


def seq(tr: Tr, a, b):
    return S.struct_eq(tr.ex, tr.ex.new_state(), a, b)


class Fail(Exception):
    def __init__(self, detail, model=None, key=None):
        self.detail, self.model, self.key = detail, model, key


def require(tr: Tr, o: Outcome, cond, what: str, key: str):
    """cond (z3 Bool) must hold on path o."""
    r = tr.ex.check(o.pc, z3.Not(cond))
    if r == "sat":
        m = tr.ex.model(o.pc, z3.Not(cond))
        raise Fail(f"{what}", str(m)[:600] if m is not None else None, key)
    if r == "unknown":
        raise Unsupported("solver unknown: " + what)


def steps_of(o: Outcome):
    return [e[1] for e in o.state.events if e[0] == "step"]


def err_variant(o: Outcome):
    if o.kind == "return" and isinstance(o.value, Adt) and o.value.variant == "Err":
        e = o.value.fields[0]
        return e.variant if isinstance(e, Adt) else "?"
    return None


# ------------------------------------------------------------------------------------------------ traces


def t_var(tr: Tr):
    """compute(Var i) in env rho: Return(ctx, rho[len-i]) when 1 <= i <= len, else failure (OpenTerm); step kind Var."""
    ctx = fresh_obj("ctx", "Context")
    env, base, n = tr.env_sym()
    idx = z3.BitVec(fresh("idx"), 64)
    name = tr.w.adt("NamedDeBruijn", None, text=fresh_obj("text"), index=tr.w.adt("DeBruijn", None, BV(idx, 64, False)))
    term = tr.w.adt("Term", "Var", tr.rc(name))
    outs = only_outcome(tr.compute(tr.new(), ctx, env, term), "var")
    n_ok = n_err = 0
    for o in outs:
        if o.kind == "panic":
            m = tr.ex.model(o.pc)
            raise Fail(f"panic in variable lookup: {o.msg}", {"index": str(m.eval(idx, True)), "env_len": str(m.eval(n, True))}, "lookup_var panic")
        inb = z3.And(z3.UGE(idx, 1), z3.ULE(idx, n))
        f = expect_state(tr, o, "Return")
        if f is not None:
            n_ok += 1
            require(tr, o, inb, "variable lookup succeeded for an index outside 1..len(env)", "var out of range accepted")
            want = tr.ex.elem_fn()(base, n - idx)
            got = f[1]
            require(tr, o, z3.And(isinstance(got, Opaque), got.e == want) if isinstance(got, Opaque) else z3.BoolVal(False),
                    "variable lookup returned a value other than env[len - index]", "var wrong slot")
            require(tr, o, seq(tr, f[0], ctx), "continuation changed by Var", "var ctx")
            if steps_of(o) != ["Var"]:
                raise Fail(f"Var charges steps {steps_of(o)}", None, "var step kind")
        else:
            ev = err_variant(o)
            if ev is None:
                raise Fail(f"unexpected result for Var: {o.value!r}"[:300], None, "var shape")
            n_err += 1
            require(tr, o, z3.Not(inb), "variable lookup failed for an index inside 1..len(env)", "var in range rejected")
    if n_ok == 0 or n_err == 0:
        raise Unsupported(f"vacuous: ok={n_ok} err={n_err}")
    return f"{len(outs)} paths"


def t_simple(tr: Tr):
    """Delay / Lambda / Constant / Builtin / Error / Force / Apply / Case (first step)"""
    w = tr.w
    n = 0
    for kind in ["Delay", "Lambda", "Constant", "Error", "Force", "Apply", "Case"]:
        ctx = fresh_obj("ctx", "Context")
        env, base, ln = tr.env_sym()
        body, arg = tr.term("body"), tr.term("arg")
        pname = fresh_obj("pname")
        if kind == "Delay":
            term = w.adt("Term", "Delay", tr.rc(body))
        elif kind == "Lambda":
            term = w.adt("Term", "Lambda", parameter_name=tr.rc(pname), body=tr.rc(body))
        elif kind == "Constant":
            c = fresh_obj("const")
            term = w.adt("Term", "Constant", tr.rc(c))
        elif kind == "Error":
            term = w.adt("Term", "Error")
        elif kind == "Force":
            term = w.adt("Term", "Force", tr.rc(body))
        elif kind == "Apply":
            term = w.adt("Term", "Apply", function=tr.rc(body), argument=tr.rc(arg))
        else:
            term = w.adt("Term", "Case", constr=tr.rc(body), branches=VecV(Arr((tr.term("b0"), tr.term("b1")))))
        outs = only_outcome(tr.compute(tr.new(), ctx, env, term), kind)
        if len(outs) != 1:
            raise Fail(f"{kind}: {len(outs)} outcomes for a deterministic rule", None, f"{kind} nondet")
        o = outs[0]
        n += 1
        if o.kind == "panic":
            raise Fail(f"{kind}: panic {o.msg}", None, f"{kind} panic")
        if kind == "Error":
            if err_variant(o) != "EvaluationFailure" or steps_of(o):
                raise Fail(f"(error) must fail with EvaluationFailure and charge nothing: {o.value!r} steps {steps_of(o)}", None, "error rule")
            continue
        if steps_of(o) != [kind]:
            raise Fail(f"{kind} charges steps {steps_of(o)}", None, f"{kind} step kind")
        if kind in ("Delay", "Lambda", "Constant"):
            f = expect_state(tr, o, "Return")
            if f is None:
                raise Fail(f"{kind}: expected Return, got {o.value!r}"[:300], None, f"{kind} shape")
            require(tr, o, seq(tr, f[0], ctx), f"{kind}: continuation changed", f"{kind} ctx")
            if kind == "Delay":
                want = w.adt("Value", "Delay", tr.rc(body), env)
            elif kind == "Lambda":
                want = w.adt("Value", "Lambda", parameter_name=tr.rc(pname), body=tr.rc(body), env=env)
            else:
                want = w.adt("Value", "Con", tr.rc(c))
            require(tr, o, seq(tr, f[1], want), f"{kind}: wrong value returned", f"{kind} value")
        else:
            f = expect_state(tr, o, "Compute")
            if f is None:
                raise Fail(f"{kind}: expected Compute, got {o.value!r}"[:300], None, f"{kind} shape")
            require(tr, o, seq(tr, f[1], env), f"{kind}: environment changed", f"{kind} env")
            require(tr, o, seq(tr, f[2], body), f"{kind}: wrong sub-term selected", f"{kind} subterm")
    return f"{n} rules"


def t_apply_lambda(tr: Tr):
    """[M N] with M => lambda: compute -> ret(closure) -> compute N in the *application's* env -> ret(arg) ->
    Compute(ctx, closure_env ++ [arg], body)."""
    w = tr.w
    ctx = fresh_obj("ctx", "Context")
    env, base, ln = tr.env_sym()
    fun, arg = tr.term("fun"), tr.term("arg")
    outs = only_outcome(tr.compute(tr.new(), ctx, env, w.adt("Term", "Apply", function=tr.rc(fun), argument=tr.rc(arg))), "apply")
    (o,) = outs
    f = expect_state(tr, o, "Compute")
    k1 = f[0]
    for cenv_len in (0, 1, 2):
        cenv, cvals = tr.env_conc(cenv_len, "ce")
        body = tr.term("body")
        clo = w.adt("Value", "Lambda", parameter_name=tr.rc(fresh_obj("p")), body=tr.rc(body), env=cenv)
        outs2 = only_outcome(tr.ret(o.state, k1, clo), "apply/ret-fun")
        (o2,) = outs2
        f2 = expect_state(tr, o2, "Compute")
        if f2 is None:
            raise Fail(f"after the function value, expected Compute of the argument: {o2.value!r}"[:300], None, "apply order")
        require(tr, o2, seq(tr, f2[1], env), "argument evaluated in the wrong environment", "apply arg env")
        require(tr, o2, seq(tr, f2[2], arg), "argument term wrong", "apply arg term")
        va = fresh_obj("va", "Value")
        outs3 = only_outcome(tr.ret(o2.state, f2[0], va), "apply/ret-arg")
        (o3,) = outs3
        f3 = expect_state(tr, o3, "Compute")
        if f3 is None:
            raise Fail(f"beta step expected Compute(body): {o3.value!r}"[:300], None, "beta shape")
        want_env = BoxV(VecV(Arr(tuple(cvals) + (va,))), "Rc")
        require(tr, o3, seq(tr, f3[1], want_env), "beta: environment is not closure_env ++ [argument]", "beta env")
        require(tr, o3, seq(tr, f3[2], body), "beta: body wrong", "beta body")
        require(tr, o3, seq(tr, f3[0], ctx), "beta: continuation not restored", "beta ctx")
    # non-function
    for bad in ("Con", "Delay", "Constr"):
        if bad == "Con":
            v = w.adt("Value", "Con", tr.rc(fresh_obj("c")))
        elif bad == "Delay":
            v = w.adt("Value", "Delay", tr.rc(tr.term()), tr.env_conc(0)[0])
        else:
            v = w.adt("Value", "Constr", tag=BV(z3.BitVec(fresh("tag"), 64), 64, False), fields=VecV(Arr(())))
        o2 = only_outcome(tr.ret(o.state, k1, v), "apply/nonfun")[0]
        f2 = expect_state(tr, o2, "Compute")
        o3 = only_outcome(tr.ret(o2.state, f2[0], fresh_obj("va", "Value")), "apply/nonfun2")[0]
        if err_variant(o3) is None:
            raise Fail(f"application of a {bad} value did not fail: {o3.value!r}"[:300], None, "apply nonfun")
    return "beta for closure env sizes 0..2, 3 non-function shapes"


def t_force(tr: Tr):
    w = tr.w
    ctx = fresh_obj("ctx", "Context")
    env, base, ln = tr.env_sym()
    t = tr.term("t")
    (o,) = only_outcome(tr.compute(tr.new(), ctx, env, w.adt("Term", "Force", tr.rc(t))), "force")
    f = expect_state(tr, o, "Compute")
    k1 = f[0]
    denv, _ = tr.env_conc(1, "de")
    body = tr.term("body")
    (o2,) = only_outcome(tr.ret(o.state, k1, w.adt("Value", "Delay", tr.rc(body), denv)), "force/delay")
    f2 = expect_state(tr, o2, "Compute")
    if f2 is None:
        raise Fail(f"force of delay: expected Compute: {o2.value!r}"[:300], None, "force delay shape")
    require(tr, o2, z3.And(seq(tr, f2[0], ctx), seq(tr, f2[1], denv), seq(tr, f2[2], body)), "force of delay: wrong state", "force delay")
    for bad in ("Con", "Lambda", "Constr"):
        if bad == "Con":
            v = w.adt("Value", "Con", tr.rc(fresh_obj("c")))
        elif bad == "Lambda":
            v = w.adt("Value", "Lambda", parameter_name=tr.rc(fresh_obj("p")), body=tr.rc(tr.term()), env=denv)
        else:
            v = w.adt("Value", "Constr", tag=BV(z3.BitVec(fresh("tag"), 64), 64, False), fields=VecV(Arr(())))
        (o3,) = only_outcome(tr.ret(o.state, k1, v), "force/bad")
        if err_variant(o3) is None:
            raise Fail(f"force of a {bad} value did not fail: {o3.value!r}"[:300], None, "force non-delay")
    return "delay + 3 non-delay shapes"


def t_constr(tr: Tr, maxn=3):
    """constr tag [f0..fn-1]: fields evaluated left to right in the constructor's env, result Constr{tag,[v0..]} in order."""
    w = tr.w
    for n in range(0, maxn + 1):
        ctx = fresh_obj("ctx", "Context")
        env, base, ln = tr.env_sym()
        tag = z3.BitVec(fresh("tag"), 64)
        fields = [tr.term(f"f{i}") for i in range(n)]
        term = w.adt("Term", "Constr", tag=BV(tag, 64, False), fields=VecV(Arr(tuple(fields))))
        (o,) = only_outcome(tr.compute(tr.new(), ctx, env, term), "constr")
        if steps_of(o) != ["Constr"]:
            raise Fail(f"Constr charges {steps_of(o)}", None, "constr step kind")
        vals = []
        for i in range(n):
            f = expect_state(tr, o, "Compute")
            if f is None:
                raise Fail(f"constr/{n}: expected Compute of field {i}: {o.value!r}"[:300], None, "constr order")
            require(tr, o, seq(tr, f[2], fields[i]), f"constr/{n}: field {i} not evaluated at position {i} (evaluation order)", "constr order")
            require(tr, o, seq(tr, f[1], env), f"constr/{n}: field {i} evaluated in the wrong environment", "constr env")
            v = fresh_obj(f"v{i}", "Value")
            vals.append(v)
            (o,) = only_outcome(tr.ret(o.state, f[0], v), "constr/ret")
        f = expect_state(tr, o, "Return")
        if f is None:
            raise Fail(f"constr/{n}: expected Return of the constructor value: {o.value!r}"[:300], None, "constr result shape")
        want = w.adt("Value", "Constr", tag=BV(tag, 64, False), fields=VecV(Arr(tuple(vals))))
        require(tr, o, seq(tr, f[1], want), f"constr/{n}: wrong constructor value (tag or field order)", "constr value")
        require(tr, o, seq(tr, f[0], ctx), f"constr/{n}: continuation not restored", "constr ctx")
    return f"arity 0..{maxn}"


def t_case_constr(tr: Tr, maxb=3, maxf=2):
    """case (constr i [v..]) [b0..]: branch i applied to the fields in order; i >= #branches fails."""
    w = tr.w
    cnt = 0
    for nb in range(0, maxb + 1):
        for nf in range(0, maxf + 1):
            ctx = fresh_obj("ctx", "Context")
            env, base, ln = tr.env_sym()
            scrut = tr.term("scrut")
            branches = [tr.term(f"b{i}") for i in range(nb)]
            term = w.adt("Term", "Case", constr=tr.rc(scrut), branches=VecV(Arr(tuple(branches))))
            (o,) = only_outcome(tr.compute(tr.new(), ctx, env, term), "case")
            f = expect_state(tr, o, "Compute")
            require(tr, o, z3.And(seq(tr, f[2], scrut), seq(tr, f[1], env)), "case: scrutinee not evaluated first in the case's env", "case scrutinee")
            tag = z3.BitVec(fresh("tag"), 64)
            fvals = [fresh_obj(f"fv{i}", "Value") for i in range(nf)]
            cv = w.adt("Value", "Constr", tag=BV(tag, 64, False), fields=VecV(Arr(tuple(fvals))))
            outs = only_outcome(tr.ret(o.state, f[0], cv), "case/ret")
            seen_ok = seen_err = False
            for o2 in outs:
                if o2.kind == "panic":
                    m = tr.ex.model(o2.pc)
                    raise Fail(f"case: panic {o2.msg}", {"tag": str(m.eval(tag, True)), "branches": nb}, "case panic")
                inb = z3.ULT(tag, nb)
                f2 = expect_state(tr, o2, "Compute")
                if f2 is None:
                    if err_variant(o2) is None:
                        raise Fail(f"case: unexpected {o2.value!r}"[:300], None, "case shape")
                    require(tr, o2, z3.Not(inb), "case failed although the tag selects an existing branch", "case in-range rejected")
                    seen_err = True
                    continue
                seen_ok = True
                require(tr, o2, inb, "case selected a branch for an out-of-range tag", "case out-of-range accepted")
                want_b = branches[-1] if branches else None
                for i in range(nb - 2, -1, -1):
                    want_b = Opaque(z3.If(tag == i, branches[i].e, want_b.e), "Term")
                got = f2[2]
                require(tr, o2, got.e == want_b.e if isinstance(got, Opaque) else z3.BoolVal(False), "case: wrong branch selected", "case branch")
                require(tr, o2, seq(tr, f2[1], env), "case: branch evaluated in the wrong environment", "case env")
                # the branch value is then applied to the fields in order: feed closures and watch the arguments
                k = f2[0]
                cur = o2
                for i in range(nf):
                    benv, bvals = tr.env_conc(1, "be")
                    bbody = tr.term("bbody")
                    clo = w.adt("Value", "Lambda", parameter_name=tr.rc(fresh_obj("p")), body=tr.rc(bbody), env=benv)
                    (o3,) = only_outcome(tr.ret(cur.state, k, clo), "case/apply")
                    f3 = expect_state(tr, o3, "Compute")
                    if f3 is None:
                        raise Fail(f"case: field {i} not applied: {o3.value!r}"[:300], None, "case apply shape")
                    want_env = BoxV(VecV(Arr(tuple(bvals) + (fvals[i],))), "Rc")
                    require(tr, o3, seq(tr, f3[1], want_env), f"case: field {i} is not the {i}-th argument applied (argument order)", "case arg order")
                    k = f3[0]
                    cur = o3
                require(tr, cur, seq(tr, k, ctx), "case: continuation after applying all fields is not the case's continuation", "case ctx")
            if nb > 0 and not seen_ok:
                raise Unsupported("vacuous: no successful case path")
            if not seen_err:
                raise Unsupported("vacuous: no failing case path")
            cnt += 1
    return f"{cnt} (branches x fields) shapes, symbolic tag"


def t_case_const(tr: Tr, sems=("A", "B", "C", "D", "E")):
    """case on built-in constants: allowed only under the van-Rossem semantics (E): Bool (False->0, True->1; <=2 branches),
    Unit (1 branch), Integer n -> branch n (n >= 0), list ([] -> branch 1; x:xs -> branch 0 x xs; <= 2 branches),
    pair -> branch 0 a b (1 branch)."""
    w = tr.w
    cnt = 0
    for sem in sems:
        tr2 = Tr(tr.w, "quick", sem=sem)
        for nb in (1, 2, 3):
            for kind in ("bool", "unit", "int", "nil", "cons", "cons1", "cons4", "pair", "bytes"):
                ctx = fresh_obj("ctx", "Context")
                env, base, ln = tr2.env_sym()
                branches = [tr2.term(f"b{i}") for i in range(nb)]
                term = w.adt("Term", "Case", constr=tr2.rc(tr2.term("s")), branches=VecV(Arr(tuple(branches))))
                (o,) = only_outcome(tr2.compute(tr2.new(), ctx, env, term), "casec")
                f = expect_state(tr2, o, "Compute")
                b = z3.Bool(fresh("b"))
                n = z3.Int(fresh("n"))
                ity = w.adt("Type", "Integer")
                if kind == "bool":
                    c = w.c_bool(b)
                elif kind == "unit":
                    c = w.c_unit()
                elif kind == "int":
                    c = w.c_int(n)
                elif kind == "nil":
                    c = w.adt("Constant", "ProtoList", ity, VecV(Arr(())))
                elif kind in ("cons", "cons1", "cons4"):
                    elems = tuple(w.c_int(z3.Int(fresh("h"))) for _ in range({"cons": 2, "cons1": 1, "cons4": 4}[kind]))
                    c = w.adt("Constant", "ProtoList", ity, VecV(Arr(elems)))
                    # the branch receives the head and then the rest of the list, in order
                    want_args = [w.con(elems[0]), w.con(w.adt("Constant", "ProtoList", ity, VecV(Arr(elems[1:]))))]
                    kind = "cons"
                elif kind == "pair":
                    p1, p2 = w.c_int(z3.Int(fresh("p"))), w.c_int(z3.Int(fresh("q")))
                    c = w.adt("Constant", "ProtoPair", ity, ity, tr2.rc(p1), tr2.rc(p2))
                    want_args = [w.con(p1), w.con(p2)]
                else:
                    c = w.c_bytes(z3.Const(fresh("bs"), ByteSeq))
                outs = only_outcome(tr2.ret(o.state, f[0], w.con(c)), "casec/ret")
                for o2 in outs:
                    if o2.kind == "panic":
                        raise Fail(f"case on constant ({kind}, {sem}): panic {o2.msg}", str(tr2.ex.model(o2.pc))[:300], "case const panic")
                    f2 = expect_state(tr2, o2, "Compute")
                    ok = f2 is not None
                    if not ok and err_variant(o2) is None:
                        raise Fail(f"case on constant: unexpected {o2.value!r}"[:300], None, "case const shape")
                    sel, nargs = CEK.case_const_rule(kind, nb, sem, b, n)
                    # sel: z3 Bool 'succeeds', index expr ; nargs = number of fields pushed
                    succ, index = sel
                    if ok:
                        r = tr2.ex.check(o2.pc, z3.Not(succ))
                        if r == "sat":
                            raise Fail(f"case on a {kind} constant with {nb} branches under semantics {sem} succeeded; the specification fails",
                                       str(tr2.ex.model(o2.pc, z3.Not(succ)))[:300], f"case const accepted {kind}")
                        want_b = branches[-1]
                        for i in range(nb - 2, -1, -1):
                            want_b = Opaque(z3.If(index == i, branches[i].e, want_b.e), "Term")
                        got = f2[2]
                        require(tr2, o2, got.e == want_b.e if isinstance(got, Opaque) else z3.BoolVal(False),
                                f"case on {kind} constant: wrong branch", f"case const branch {kind}")
                        # arguments pushed: count them by applying closures
                        k = f2[0]
                        cur = o2
                        for i in range(nargs):
                            benv, bvals = tr2.env_conc(0, "be")
                            clo = w.adt("Value", "Lambda", parameter_name=tr2.rc(fresh_obj("p")), body=tr2.rc(tr2.term("bb")), env=benv)
                            (o3,) = only_outcome(tr2.ret(cur.state, k, clo), "casec/apply")
                            f3 = expect_state(tr2, o3, "Compute")
                            if f3 is None:
                                raise Fail(f"case on {kind} constant: argument {i} missing", None, f"case const args {kind}")
                            if kind in ("cons", "pair"):
                                want_env = BoxV(VecV(Arr((want_args[i],))), "Rc")
                                require(tr2, o3, seq(tr2, f3[1], want_env), f"case on {kind} constant: argument {i} passed to the branch is not the "
                                        + (("head", "tail (rest of the list, in order)") if kind == "cons" else ("first component", "second component"))[i], f"case const arg value {kind}")
                            k, cur = f3[0], o3
                        require(tr2, cur, seq(tr2, k, ctx), f"case on {kind} constant: wrong number of arguments pushed", f"case const args {kind}")
                    else:
                        r = tr2.ex.check(o2.pc, succ)
                        if r == "sat":
                            raise Fail(f"case on a {kind} constant with {nb} branches under semantics {sem} failed; the specification succeeds",
                                       str(tr2.ex.model(o2.pc, succ))[:300], f"case const rejected {kind}")
                cnt += 1
        tr.ex.queries += tr2.ex.queries
        tr.ex.solver_s += tr2.ex.solver_s
        tr.ex.encoded.update(tr2.ex.encoded)
    return f"{cnt} (semantics x branches x constant kind) shapes"


def t_done(tr: Tr):
    ctx = tr.w.adt("Context", "NoFrame")
    v = fresh_obj("v", "Value")
    (o,) = only_outcome(tr.ret(tr.new(), ctx, v), "done")
    f = expect_state(tr, o, "Done")
    if f is None:
        raise Fail(f"return to the empty continuation must finish: {o.value!r}"[:200], None, "done shape")
    ds = [e for e in o.state.events if e[0] == "discharge"]
    if len(ds) != 1 or ds[0][1] is not v:
        raise Fail("final value is not discharged exactly once", None, "done discharge")
    return "1 path"


def t_builtin_discipline(tr: Tr, tier: str):
    """A builtin with arity a and f forces: forces must all come first; argument i accepted iff forces done and i < a;
    saturated on the a-th argument (or on the last force when a == 0); anything else fails."""
    w = tr.w
    f_arity, f_fc = w.fn("DefaultFunction", "arity"), w.fn("DefaultFunction", "force_count")
    ex = tr.ex
    names = [v.name for v in w.variants("DefaultFunction")]
    table = {}
    for nm in names:
        st = ex.new_state()
        r = ex.alloc(st, Adt("DefaultFunction", nm, ()))
        (oa,) = ex.run(f_arity, [r], st)
        st = ex.new_state()
        r = ex.alloc(st, Adt("DefaultFunction", nm, ()))
        (of,) = ex.run(f_fc, [r], st)
        table[nm] = (z3.simplify(oa.value.e).as_long(), z3.simplify(of.value.e).as_long())
    bad = CEK.check_builtin_table(table)
    if bad:
        raise Fail(f"arity/force table differs from the specification: {bad}", bad, "builtin table")
    # discipline on one representative per (arity, forces) class
    classes = {}
    for nm, af in table.items():
        classes.setdefault(af, nm)
    reps = list(classes.items()) if tier == "thorough" else list(classes.items())
    cnt = 0
    for (ar, fc), nm in reps:
        for forces in range(0, fc + 1):
            for nargs in range(0, ar):
                if nargs >= ar and not (nargs == 0 and ar == 0):
                    continue
                if forces < fc and nargs > 0:
                    continue
                args = [fresh_obj(f"a{i}", "Value") for i in range(nargs)]
                rt = w.adt("BuiltinRuntime", None, args=VecV(Arr(tuple(args))), fun=Adt("DefaultFunction", nm, ()), forces=ex.mk_int(forces, 32, False))
                bv = w.adt("Value", "Builtin", fun=Adt("DefaultFunction", nm, ()), runtime=rt)
                ctx = fresh_obj("ctx", "Context")
                # --- force
                fr = w.adt("Context", "FrameForce", BoxV(ctx))
                (o,) = only_outcome(tr.ret(tr.new(), fr, bv), "bi/force")
                if forces < fc:
                    f = expect_state(tr, o, "Return")
                    if f is None:
                        raise Fail(f"{nm}: force {forces + 1}/{fc} rejected: {o.value!r}"[:300], None, "builtin force rejected")
                    if forces + 1 == fc and ar == 0:
                        pass
                    else:
                        rt2 = w.adt("BuiltinRuntime", None, args=VecV(Arr(tuple(args))), fun=Adt("DefaultFunction", nm, ()), forces=ex.mk_int(forces + 1, 32, False))
                        want = w.adt("Value", "Builtin", fun=Adt("DefaultFunction", nm, ()), runtime=rt2)
                        require(tr, o, seq(tr, f[1], want), f"{nm}: force did not just count one force", "builtin force state")
                else:
                    if err_variant(o) is None:
                        raise Fail(f"{nm}: extra force accepted (forces={forces}, args={nargs}): {o.value!r}"[:300], None, "builtin extra force")
                # --- apply
                va = fresh_obj("va", "Value")
                fa = w.adt("Context", "FrameAwaitArg", bv, BoxV(ctx))
                (o,) = only_outcome(tr.ret(tr.new(), fa, va), "bi/apply")
                if forces < fc:
                    if err_variant(o) is None:
                        raise Fail(f"{nm}: argument accepted before all {fc} forces ({forces} done): {o.value!r}"[:300], None, "builtin early arg")
                else:
                    f = expect_state(tr, o, "Return")
                    if f is None:
                        raise Fail(f"{nm}: argument {nargs + 1}/{ar} rejected: {o.value!r}"[:300], None, "builtin arg rejected")
                    apps = [e for e in o.state.events if e[0] == "builtin_app"]
                    if nargs + 1 == ar:
                        if len(apps) != 1:
                            raise Fail(f"{nm}: saturated application did not run the builtin", None, "builtin saturation")
                        rt_run = apps[0][1]
                        want_rt = w.adt("BuiltinRuntime", None, args=VecV(Arr(tuple(args) + (va,))), fun=Adt("DefaultFunction", nm, ()), forces=ex.mk_int(forces, 32, False))
                        require(tr, o, seq(tr, rt_run, want_rt), f"{nm}: builtin run with wrong/ill-ordered arguments", "builtin arg order")
                    else:
                        if apps:
                            raise Fail(f"{nm}: builtin run before saturation ({nargs + 1}/{ar})", None, "builtin early run")
                        want_rt = w.adt("BuiltinRuntime", None, args=VecV(Arr(tuple(args) + (va,))), fun=Adt("DefaultFunction", nm, ()), forces=ex.mk_int(forces, 32, False))
                        want = w.adt("Value", "Builtin", fun=Adt("DefaultFunction", nm, ()), runtime=want_rt)
                        require(tr, o, seq(tr, f[1], want), f"{nm}: partial application state wrong (argument order)", "builtin partial")
                    require(tr, o, seq(tr, f[0], ctx), f"{nm}: continuation lost", "builtin ctx")
                cnt += 1
    return f"{len(table)} builtins' arity/force table; {cnt} partial-application states over {len(reps)} (arity,forces) classes"


def t_discharge(tr0: Tr, depth_env=2):
    """read-back (dischargeCekValue): a value is printed as the term obtained by substituting the captured environment
    for the free variables of its body, under any number of binders and inside every term constructor."""
    w = tr0.w
    tr = Tr(w, "quick", real_discharge=True)
    ex = tr.ex
    f_vat = w.fn(None, "value_as_term")
    K = lambda i: w.adt("Constant", "Integer", BigI(z3.IntVal(1000 + i)))  # noqa: E731  distinguishable constants

    def var(i):
        return w.adt("Term", "Var", tr.rc(w.adt("NamedDeBruijn", None, text=fresh_obj("x"), index=w.adt("DeBruijn", None, ex.mk_int(i, 64, False)))))

    def shapes(i, j):
        lam = lambda b: w.adt("Term", "Lambda", parameter_name=tr.rc(fresh_obj("p")), body=tr.rc(b))  # noqa: E731
        return {
            "var": var(i),
            "lam(var)": lam(var(i)),
            "lam(lam(var))": lam(lam(var(i))),
            "apply": w.adt("Term", "Apply", function=tr.rc(var(i)), argument=tr.rc(var(j))),
            "delay": w.adt("Term", "Delay", tr.rc(var(i))),
            "force": w.adt("Term", "Force", tr.rc(var(i))),
            "constr": w.adt("Term", "Constr", tag=ex.mk_int(3, 64, False), fields=VecV(Arr((var(i), var(j))))),
            "case": w.adt("Term", "Case", constr=tr.rc(var(i)), branches=VecV(Arr((var(j), lam(var(i)))))),
            "lam(constr)": lam(w.adt("Term", "Constr", tag=ex.mk_int(0, 64, False), fields=VecV(Arr((var(i),))))),
        }

    def subst(t, lam_cnt, envvals):
        """specification: substitute env (innermost last) into t under lam_cnt binders"""
        v = t.variant
        if v == "Var":
            nm = t.fields[0].inner
            idx = z3.simplify(w.get(nm, "index").fields[0].e).as_long()
            if idx <= lam_cnt:
                return t
            k = idx - lam_cnt
            if 1 <= k <= len(envvals):
                return w.adt("Term", "Constant", tr.rc(envvals[len(envvals) - k]))
            return t
        if v == "Lambda":
            return Adt("Term", "Lambda", (t.fields[0], tr.rc(subst(t.fields[1].inner, lam_cnt + 1, envvals))))
        if v in ("Delay", "Force"):
            return Adt("Term", v, (tr.rc(subst(t.fields[0].inner, lam_cnt, envvals)),))
        if v == "Apply":
            return Adt("Term", "Apply", (tr.rc(subst(t.fields[0].inner, lam_cnt, envvals)), tr.rc(subst(t.fields[1].inner, lam_cnt, envvals))))
        if v == "Constr":
            tagf, fs = t.fields
            return Adt("Term", "Constr", (tagf, VecV(Arr(tuple(subst(x, lam_cnt, envvals) for x in fs.items.elems)))))
        if v == "Case":
            c, bs = t.fields
            return Adt("Term", "Case", (tr.rc(subst(c.inner, lam_cnt, envvals)), VecV(Arr(tuple(subst(x, lam_cnt, envvals) for x in bs.items.elems)))))
        return t

    cnt = 0
    for nenv in range(0, depth_env + 1):
        consts = [K(i) for i in range(nenv)]
        env = BoxV(VecV(Arr(tuple(w.con(c) for c in consts))), "Rc")
        for i in range(0, nenv + 3):
            for j in sorted({1, nenv}):
                for name, body in shapes(i, j).items():
                    for wrap in ("Delay", "Lambda"):
                        if wrap == "Delay":
                            val = w.adt("Value", "Delay", tr.rc(body), env)
                            want = Adt("Term", "Delay", (tr.rc(subst(body, 0, consts)),))
                        else:
                            pn = w.adt("NamedDeBruijn", None, text=fresh_obj("ptext"), index=w.adt("DeBruijn", None, ex.mk_int(0, 64, False)))
                            val = w.adt("Value", "Lambda", parameter_name=tr.rc(pn), body=tr.rc(body), env=env)
                            want = None
                            want_body = subst(body, 1, consts)
                        st = ex.new_state()
                        outs = only_outcome(ex.run(f_vat, [val], st), "discharge")
                        if len(outs) != 1 or outs[0].kind != "return":
                            kinds = [(o.kind, o.msg) for o in outs]
                            if any(k == "panic" for k, _ in kinds):
                                raise Fail(f"read-back panics for body {name} (index {i}, env size {nenv}): {kinds}", None, "discharge panic")
                            raise Unsupported(f"discharge: {kinds}")
                        got = outs[0].value
                        if wrap == "Lambda":
                            if not (isinstance(got, Adt) and got.variant == "Lambda"):
                                raise Fail(f"read-back of a closure is not a lambda: {got!r}"[:200], None, "discharge lambda shape")
                            got_cmp, want_cmp = got.fields[1], tr.rc(want_body)
                        else:
                            got_cmp, want_cmp = got, want
                        e = seq(tr, got_cmp, want_cmp)
                        if tr.ex.check([], z3.Not(e)) != "unsat":
                            raise Fail(f"read-back of ({wrap.lower()} {name}) with variable index {i}/{j} and {nenv} captured value(s) is not the substituted term: "
                                       f"got {got_cmp!r}"[:500], {"body": name, "index": i, "env": nenv, "wrap": wrap}, f"discharge {name}")
                        cnt += 1
    # builtin / constr values
    a0, a1 = w.con(K(7)), w.con(K(8))
    rt = w.adt("BuiltinRuntime", None, args=VecV(Arr((a0, a1))), fun=Adt("DefaultFunction", "IfThenElse", ()), forces=ex.mk_int(1, 32, False))
    val = w.adt("Value", "Builtin", fun=Adt("DefaultFunction", "IfThenElse", ()), runtime=rt)
    (o,) = only_outcome(ex.run(f_vat, [val], ex.new_state()), "discharge/builtin")
    b = w.adt("Term", "Force", tr.rc(w.adt("Term", "Builtin", Adt("DefaultFunction", "IfThenElse", ()))))
    want = w.adt("Term", "Apply", function=tr.rc(w.adt("Term", "Apply", function=tr.rc(b), argument=tr.rc(w.adt("Term", "Constant", tr.rc(K(7)))))),
                 argument=tr.rc(w.adt("Term", "Constant", tr.rc(K(8)))))
    if tr.ex.check([], z3.Not(seq(tr, o.value, want))) != "unsat":
        raise Fail(f"read-back of a partial builtin application: got {o.value!r}"[:400], None, "discharge builtin")
    val = w.adt("Value", "Constr", tag=ex.mk_int(5, 64, False), fields=VecV(Arr((a0, a1))))
    (o,) = only_outcome(ex.run(f_vat, [val], ex.new_state()), "discharge/constr")
    want = w.adt("Term", "Constr", tag=ex.mk_int(5, 64, False), fields=VecV(Arr((w.adt("Term", "Constant", tr.rc(K(7))), w.adt("Term", "Constant", tr.rc(K(8)))))))
    if tr.ex.check([], z3.Not(seq(tr, o.value, want))) != "unsat":
        raise Fail(f"read-back of a constructor value: got {o.value!r}"[:400], None, "discharge constr")
    tr0.ex.queries += tr.ex.queries
    tr0.ex.encoded.update(tr.ex.encoded)
    return f"{cnt + 2} value shapes (9 body shapes x 2 binders x indices 0..env+2 x env sizes 0..{depth_env})"


TRACES = {
    "var": t_var, "simple": t_simple, "apply": t_apply_lambda, "force": t_force, "constr": t_constr,
    "case-constr": t_case_constr, "case-const": t_case_const, "done": t_done, "discharge": t_discharge,
}


def run(tier: str, seed: int, only=None) -> Result:
    res = Result("C03", tier, seed, "model_checking")
    res.assumptions = [
        "mirsym trusted base: MIR interpreter + library summaries; Rc/Box/Vec are value-semantics containers (Rc::make_mut = clone-on-write)",
        "step_and_maybe_spend, eval_builtin_app and value_as_term are replaced by logging stubs here (covered by C05, C04 and the read-back obligations)",
        "the Machine::run driver loop (3 lines) is read, not encoded: whole-term evaluation is iteration of the verified transitions",
    ]
    res.bounds = {"sub-terms / env contents / bottom continuation": "opaque (any size)", "tags, de Bruijn indices, env length": "symbolic 64-bit",
                  "constr arity": "0..3", "case branches x fields": "0..3 x 0..2", "closure env sizes": "0..2"}
    res.extra["explanation"] = "micro-traces of the real CEK transition functions on symbolic states, each checked against the specification's rule"
    res.extra["trusted_base"] = ["rustc nightly MIR dump", "mirsym/exec.py", "mirsym/summaries.py", "specs/cek.py", "z3 5.1"]
    kf = KnownFindings()
    world = World(("uplc",))
    traces = dict(TRACES)
    for name, fn in traces.items():
        if only and only not in name:
            continue
        tr = Tr(world, tier)
        ob = Obligation(f"cek/{name}", "discharged", "")
        t0 = time.time()
        try:
            ob.detail = fn(tr)
            ob.witness = True
        except Fail as f:
            ob.status, ob.detail, ob.model, ob.finding_key = "violated", f.detail, f.model, f.key
        except Unsupported as e:
            ob.status, ob.detail = "undecided", str(e)
        except (ValueError, TypeError) as e:  # unexpected shapes (e.g. several outcomes where one is expected)
            ob.status, ob.detail = "undecided", f"unexpected shape: {e}"
        ob.queries, ob.solver_s = tr.ex.queries, round(tr.ex.solver_s, 3)
        res.functions.update(tr.ex.encoded)
        res.add(ob)
        res.samples.append({"trace": name, "rule": (fn.__doc__ or "").strip()[:300], "result": ob.detail[:200]})
    if not only or only in "builtin-discipline":
        tr = Tr(world, tier)
        ob = Obligation("cek/builtin-discipline", "discharged", "")
        try:
            ob.detail = t_builtin_discipline(tr, tier)
            ob.witness = True
        except Fail as f:
            ob.status, ob.detail, ob.model, ob.finding_key = "violated", f.detail, f.model, f.key
        except Unsupported as e:
            ob.status, ob.detail = "undecided", str(e)
        except (ValueError, TypeError) as e:
            ob.status, ob.detail = "undecided", f"unexpected shape: {e}"
        ob.queries, ob.solver_s = tr.ex.queries, round(tr.ex.solver_s, 3)
        res.functions.update(tr.ex.encoded)
        res.add(ob)
    from props import common_post
    common_post.postprocess(res, kf, replay_fn=None)
    return res
