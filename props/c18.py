"""C18 Applying a parameter means applying the function — mirsym on aiken-project's blueprint layer (+ driver legs).

validate family (engine M, MIR of aiken-project + uplc):
  `validate_data(schema, definitions, Constant::Data(d))` — the function Validator::apply uses to accept or reject a
  parameter — is executed from MIR for every pair (schema shape, data shape) of two enumerated families, with SYMBOLIC
  constructor indices in the schema and symbolic tags / any_constructor numbers / integers / byte strings in the data.
  z3 decides, for all those values at once:   Ok  <=>  conforms(schema, d)   and   no path panics,
  where `conforms` is the reference reading of a blueprint data schema written below from the CIP-57 description
  (constructor index <-> CBOR tag convention included), independent of parameter.rs.
  `validate_schema` on non-Data constants (leaf schemas Unit/Integer/Bytes/String/Boolean) is covered the same way.

apply family (driver drv-project, real Validator::apply; built when the driver is available): see run()."""
from __future__ import annotations

import itertools
import os
import time

import z3

from mirsym.exec import Unsupported
from mirsym.values import *  # noqa
from mirsym.world import World
from specs import data as SD
from vlib.common import Obligation, Result, KnownFindings, log

# ------------------------------------------------------------------------------------------------ schema shapes
# ('opaque',) ('int',) ('bytes',) ('list1', s) ('listn', (s..)) ('map', k, v) ('anyof', ((nfields: (s..)), ...))

LEAF = [("opaque",), ("int",), ("bytes",)]


def schema_shapes(tier):
    out = list(LEAF)
    out += [("list1", l) for l in LEAF]
    out += [("listn", ()), ("listn", (("int",),)), ("listn", (("int",), ("bytes",))), ("listn", (("opaque",), ("int",), ("int",)))]
    out += [("map", ("int",), ("bytes",)), ("map", ("bytes",), ("opaque",))]
    out += [("anyof", ((),)), ("anyof", ((("int",),),)), ("anyof", ((), (("int",),))), ("anyof", ((("int",), ("bytes",)), ())),
            ("anyof", ((("opaque",),), (("int",), ("int",)), ()))]
    # nesting
    out += [("list1", ("anyof", ((), (("int",),)))), ("anyof", ((("list1", ("int",)),), (("anyof", ((), (("bytes",),))),))),
            ("map", ("anyof", ((),)), ("list1", ("bytes",))), ("listn", (("anyof", ((("int",),),)), ("list1", ("opaque",))))]
    if tier == "thorough":
        out += [("list1", ("list1", ("int",))), ("list1", ("map", ("int",), ("int",))),
                ("anyof", ((("int",), ("int",), ("int",)), (("bytes",),), (), (("opaque",), ("opaque",)))),
                ("anyof", ((("anyof", ((("anyof", ((),)),),)),),)), ("listn", (("listn", (("int",),)), ("bytes",)))]
    return out


# data shapes: ('i', rep) ('b',) ('list', (d..)) ('map', ((k,v)..)) ('constr', anymode, (d..))   anymode: 'none' | 'some'


def data_shapes(tier):
    leaf = [("i", "small"), ("b",)]
    out = [("i", "small"), ("i", "big"), ("i", "neg"), ("b",)]
    out += [("list", ()), ("list", (("i", "small"),)), ("list", (("b",), ("i", "small"))), ("list", (("i", "small"), ("i", "small"), ("i", "small")))]
    out += [("map", ()), ("map", ((("i", "small"), ("b",)),)), ("map", ((("b",), ("i", "small")), (("b",), ("b",))))]
    for am in ("none", "some"):
        out += [("constr", am, ()), ("constr", am, (("i", "small"),)), ("constr", am, (("b",),)), ("constr", am, (("i", "small"), ("b",))),
                ("constr", am, (("i", "small"), ("i", "small"))), ("constr", am, (("i", "small"), ("i", "small"), ("i", "small")))]
    out += [("list", (("constr", "none", ()),)), ("list", (("constr", "none", (("i", "small"),)), ("constr", "none", ()))),
            ("constr", "none", (("list", (("i", "small"),)),)), ("constr", "none", (("constr", "none", ()),)), ("constr", "none", (("constr", "none", (("b",),)),)),
            ("map", ((("constr", "none", ()), ("list", (("b",),))),)), ("list", (("constr", "none", (("i", "small"),)), ("list", (("b",),))))]
    if tier == "thorough":
        out += [("list", (("list", (("i", "small"),)),)), ("list", (("map", ((("i", "small"), ("i", "small")),)),)),
                ("constr", "some", (("constr", "some", ()),)), ("constr", "none", (("constr", "none", (("constr", "none", ()),)),)),
                ("list", (("list", (("i", "small"),)), ("b",))), ("constr", "none", (("b",), ("b",))), ("constr", "none", (("i", "big"),))]
    return out


class Build:
    def __init__(self, w, ex, st):
        self.w, self.ex, self.st = w, ex, st
        self.n = 0
        self.idx = []      # symbolic constructor indices of the schema (z3 Int views)

    def fresh(self, p):
        self.n += 1
        return f"{p}{self.n}"

    # ---- schema (blueprint::schema::Data) -------------------------------------------------------
    def ann(self, x):
        return Adt("Annotated", None, (self.ex.none(), self.ex.none(), x))

    def inline(self, x):
        return Adt("Declaration", "Inline", (BoxV(x),))

    def schema(self, s):
        """-> (mirsym value, reference tree with the symbolic indices filled in)"""
        k = s[0]
        if k == "opaque":
            return Adt("Data", "Opaque", ()), s
        if k == "int":
            return Adt("Data", "Integer", ()), s
        if k == "bytes":
            return Adt("Data", "Bytes", ()), s
        if k == "list1":
            v, r = self.schema(s[1])
            return Adt("Data", "List", (Adt("Items", "One", (self.inline(v),)),)), ("list1", r)
        if k == "listn":
            vs = [self.schema(x) for x in s[1]]
            return Adt("Data", "List", (Adt("Items", "Many", (VecV(Arr(tuple(self.ann(self.inline(v)) for v, _ in vs))),)),)), ("listn", tuple(r for _, r in vs))
        if k == "map":
            kv, kr = self.schema(s[1])
            vv, vr = self.schema(s[2])
            return Adt("Data", "Map", (self.inline(kv), self.inline(vv))), ("map", kr, vr)
        if k == "anyof":
            ctors, refs = [], []
            mine = []
            for fields in s[1]:
                idx = self.ex.sym_int(self.fresh("idx"), 64, False, self.st)
                mine.append(idx)
                fvs = [self.schema(f) for f in fields]
                ctors.append(self.ann(Adt("Constructor", None, (idx, VecV(Arr(tuple(self.ann(self.inline(v)) for v, _ in fvs)))))))
                refs.append((self.ex.to_int_expr(idx), tuple(r for _, r in fvs)))
            # a published schema never lists the same constructor index twice
            for a, b in itertools.combinations(mine, 2):
                self.st.pc.append(a.e != b.e)
            return Adt("Data", "AnyOf", (VecV(Arr(tuple(ctors))),)), ("anyof", tuple(refs))
        raise ValueError(s)

    # ---- data (pallas PlutusData) ----------------------------------------------------------------
    def data(self, d):
        """-> (mirsym PlutusData value, reference tree)"""
        w, ex, st = self.w, self.ex, self.st
        k = d[0]
        if k == "i":
            e = z3.Int(self.fresh("n"))
            v, c = SD.mk_int(w, e, d[1])
            st.pc.append(c)
            return v, ("i", e)
        if k == "b":
            from mirsym.summaries import ByteSeq
            s = z3.Const(self.fresh("bs"), ByteSeq)
            return SD.mk_bytes(w, s), ("b", s)
        if k == "list":
            items = [self.data(x) for x in d[1]]
            return SD.mk_list(w, [v for v, _ in items]), ("list", tuple(r for _, r in items))
        if k == "map":
            ps = [(self.data(a), self.data(b)) for a, b in d[1]]
            return SD.mk_map(w, [(a[0], b[0]) for a, b in ps]), ("map", tuple((a[1], b[1]) for a, b in ps))
        if k == "constr":
            tag = ex.sym_int(self.fresh("tag"), 64, False, st)
            if d[1] == "none":
                anyv, anyr = ex.none(), None
            else:
                a = ex.sym_int(self.fresh("any"), 64, False, st)
                anyv, anyr = ex.some(a), ex.to_int_expr(a)
            fs = [self.data(x) for x in d[2]]
            return SD.mk_constr(w, ex, tag, anyv, [v for v, _ in fs]), ("constr", ex.to_int_expr(tag), anyr, tuple(r for _, r in fs))
        raise ValueError(d)


def tag_matches(idx, tag, anyr):
    """CIP-57 / ledger convention: constructor number i <-> CBOR tag (written from the Plutus Data CBOR convention)"""
    small = z3.And(idx >= 0, idx <= 6)
    mid = z3.And(idx >= 7, idx <= 127)
    no_any = z3.BoolVal(anyr is None)
    a = z3.And(small, tag == 121 + idx, no_any)
    b = z3.And(mid, tag == 1280 + (idx - 7), no_any)
    c = z3.And(z3.Not(small), z3.Not(mid), tag == 102, (anyr == idx) if anyr is not None else z3.BoolVal(False))
    return z3.Or(a, b, c)


def conforms(s, d):
    """reference: data tree d conforms to schema tree s (z3 Bool)"""
    k = s[0]
    T, F = z3.BoolVal(True), z3.BoolVal(False)
    if k == "opaque":
        return T
    if k == "int":
        return T if d[0] == "i" else F
    if k == "bytes":
        return T if d[0] == "b" else F
    if k == "list1":
        if d[0] != "list":
            return F
        return z3.And([conforms(s[1], x) for x in d[1]] + [T])
    if k == "listn":
        if d[0] != "list" or len(d[1]) != len(s[1]):
            return F
        return z3.And([conforms(a, x) for a, x in zip(s[1], d[1])] + [T])
    if k == "map":
        if d[0] != "map":
            return F
        return z3.And([z3.And(conforms(s[1], a), conforms(s[2], b)) for a, b in d[1]] + [T])
    if k == "anyof":
        if d[0] != "constr":
            return F
        alts = []
        for idx, fields in s[1]:
            if len(fields) != len(d[3]):
                continue
            alts.append(z3.And([tag_matches(idx, d[1], d[2])] + [conforms(a, x) for a, x in zip(fields, d[3])]))
        return z3.Or(alts) if alts else F
    raise ValueError(s)


def _short(x):
    s = str(x)
    return s if len(s) < 90 else s[:87] + "..."


_W = {}


def _pair_job(job):
    si, tier = job
    world = _W["world"]
    sshape = _W["schemas"][si]
    sub = Result("C18", tier, 0, "model_checking")
    name = f"validate/{si}:{_short(sshape)}"
    ob = Obligation(name, "discharged", "")
    ex = world.executor(timeout_ms=20000, max_paths=3000, max_steps=100000)
    try:
        f = world.fn(None, "validate_data")
    except Unsupported as e:
        ob.status, ob.detail = "undecided", str(e)
        sub.add(ob)
        return sub.obligations, sub.functions
    npaths = nok = nerr = 0
    bad = []
    for dshape in _W["datas"]:
        st = ex.new_state()
        b = Build(world, ex, st)
        try:
            sv, sref = b.schema(sshape)
            dv, dref = b.data(dshape)
            defs = Adt("Definitions", None, (LibV("btreemap", ()),))
            term = world.adt("Constant", "Data", dv)
            outs = ex.run(f, [ex.alloc(st, sv), ex.alloc(st, defs), ex.alloc(st, term)], st)
        except Unsupported as e:
            ob.status, ob.detail = "undecided", f"{e} (data {dshape})"
            continue
        want = conforms(sref, dref)
        for o in outs:
            npaths += 1
            if o.kind == "undecided":
                ob.status, ob.detail = "undecided", f"{o.msg} (data {dshape})"
                continue
            if o.kind == "panic":
                m = ex.model(o.pc)
                bad.append(("panic", f"validate_data panics: {o.msg}", dshape, str(m)[:300], "validate: panic " + o.msg.split("[")[0].strip()[:40]))
                continue
            v = o.value
            isok = isinstance(v, Adt) and v.variant == "Ok"
            if isok:
                nok += 1
                if ex.check(o.pc, z3.Not(want)) == "sat":
                    m = ex.model(o.pc, z3.Not(want))
                    bad.append(("accepts", "a parameter that does not conform to the schema is accepted", dshape, str(m)[:300], "validate: accepts non-conforming"))
            else:
                nerr += 1
                if ex.check(o.pc, want) == "sat":
                    m = ex.model(o.pc, want)
                    bad.append(("rejects", "a parameter that conforms to the schema is rejected", dshape, str(m)[:300], "validate: rejects conforming"))
    ob.queries, ob.solver_s = ex.queries, round(ex.solver_s, 3)
    sub.functions.update(ex.encoded)
    seen = set()
    for kind, what, dshape, model, key in bad:
        if key in seen:
            continue
        seen.add(key)
        vb = Obligation(f"{name}/{kind}", "violated", f"{what}: schema {sshape}, data shape {dshape}, {model}")
        vb.model = {"schema_shape": str(sshape), "data_shape": str(dshape), "assignment": model}
        vb.finding_key = key
        sub.add(vb)
    if ob.status == "discharged":
        if npaths == 0 or (nok == 0 and sshape[0] != "anyof" and False):
            ob.status, ob.detail = "undecided", "vacuous"
        else:
            ob.detail = f"{len(_W['datas'])} data shapes, {npaths} paths ({nok} Ok, {nerr} Err): Ok <=> conforms" + (f"; {len(seen)} deviation class(es) reported separately" if seen else "")
            ob.witness = nok > 0 or nerr > 0
    sub.add(ob)
    return sub.obligations, sub.functions


def leaf_schema_obligation(world, res):
    """validate_schema on the non-Data leaf schemas against every Constant variant"""
    ob = Obligation("validate/leaf-schemas", "discharged", "")
    ex = world.executor(timeout_ms=20000, max_paths=500, max_steps=20000)
    try:
        f = world.fn(None, "validate_schema")
    except Unsupported as e:
        ob.status, ob.detail = "undecided", str(e)
        res.add(ob)
        return
    from mirsym.summaries import ByteSeq
    consts = {
        "Integer": lambda: world.adt("Constant", "Integer", BigI(z3.Int("ci"))),
        "ByteString": lambda: world.adt("Constant", "ByteString", VecV(Bytes(z3.Const("cb", ByteSeq)))),
        "String": lambda: world.adt("Constant", "String", Str(z3.Const("cs", ByteSeq))),
        "Unit": lambda: world.adt("Constant", "Unit"),
        "Bool": lambda: world.adt("Constant", "Bool", BoolV(z3.Bool("cbool"))),
        "Data": lambda: world.adt("Constant", "Data", SD.mk_opaque()),
    }
    expect = {"Unit": "Unit", "Integer": "Integer", "Bytes": "ByteString", "String": "String", "Boolean": "Bool"}
    n = 0
    for sv, cok in expect.items():
        for cn, mk in consts.items():
            st = ex.new_state()
            try:
                defs = Adt("Definitions", None, (LibV("btreemap", ()),))
                outs = ex.run(f, [ex.alloc(st, Adt("Schema", sv, ())), ex.alloc(st, defs), ex.alloc(st, mk())], st)
            except Unsupported as e:
                ob.status, ob.detail = "undecided", f"{e} ({sv} vs {cn})"
                continue
            for o in outs:
                n += 1
                if o.kind != "return":
                    if o.kind == "panic":
                        ob.status, ob.detail, ob.finding_key = "violated", f"validate_schema({sv}, {cn}) panics: {o.msg}", "validate_schema: panic"
                    else:
                        ob.status, ob.detail = "undecided", o.msg
                    continue
                isok = o.value.variant == "Ok"
                if isok != (cn == cok):
                    ob.status, ob.detail, ob.finding_key = "violated", f"validate_schema({sv}) {'accepts' if isok else 'rejects'} a {cn} constant", "validate_schema: leaf"
    if ob.status == "discharged":
        ob.detail = f"{n} paths: each leaf schema accepts exactly its own constant kind"
        ob.witness = True
    ob.queries, ob.solver_s = ex.queries, round(ex.solver_s, 3)
    res.functions.update(ex.encoded)
    res.add(ob)


def validate_family(world, res, tier, only=None):
    import multiprocessing as mp
    schemas = schema_shapes(tier)
    datas = data_shapes(tier)
    _W.update(world=world, schemas=schemas, datas=datas)
    jobs = [(i, tier) for i in range(len(schemas))]
    n = min(14, os.cpu_count() or 4, len(jobs))
    if n <= 1:
        parts = [_pair_job(j) for j in jobs]
    else:
        with mp.get_context("fork").Pool(n) as pool:
            parts = pool.map(_pair_job, jobs, chunksize=1)
    for obs, fns in parts:
        for ob in obs:
            res.add(ob)
        res.functions.update(fns)
    res.extra["schema_shapes"] = len(schemas)
    res.extra["data_shapes"] = len(datas)


def run(tier: str, seed: int, only=None) -> Result:
    res = Result("C18", tier, seed, "model_checking")
    res.assumptions = [
        "mirsym trusted base (MIR of aiken-project and uplc regenerated from /repo; library summaries)",
        "reference reading of a blueprint data schema (props/c18.py conforms/tag_matches), written from CIP-57 and the Plutus Data CBOR tag convention",
        "schemas use inline declarations only (the Definitions table is empty): resolution of $ref is outside this family",
        "a published schema never lists the same constructor index twice (assumed on the symbolic indices)",
        "PARTIAL: hash/address freshness after application, JSON round trips and the CLI are outside the claim",
    ]
    res.bounds = {"schema shapes": "enumerated, nesting <= 3, <= 4 constructors, <= 3 fields", "data shapes": "enumerated, nesting <= 3, <= 3 items; tags, constructor numbers, integers, bytes symbolic"}
    res.extra["explanation"] = "Parameter validation executed from MIR on (schema shape x data shape) with symbolic indices/tags; Ok <=> conforms and no panic decided by z3"
    res.extra["trusted_base"] = ["rustc MIR dump", "mirsym + summaries", "z3 5.1"]
    world = World(("aiken-project", "uplc"), deps=("pallas-codec",))
    if not only or only == "validate":
        validate_family(world, res, tier)
        leaf_schema_obligation(world, res)
    if not only or only == "apply":
        from props import c18_apply
        c18_apply.apply_family(res, tier, seed, world)
    kf = KnownFindings()

    def replay(ob):
        try:
            from props import c18_apply
            return c18_apply.replay(ob)
        except ImportError:
            return None, "no native replay available (driver drv-project not built)"
    from props import common_post
    common_post.postprocess(res, kf, replay_fn=replay)
    return res
