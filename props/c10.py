"""C10 Evaluation and compilation never crash — the union of the no-panic / no-overflow obligations of the
evaluator (mirsym), re-run here and filtered for panic paths:

  * every CEK transition (C03 traces: variable lookup with symbolic index and environment length, case on symbolic
    tags and on constants, read-back index arithmetic, builtin application discipline),
  * every builtin application = costing (BuiltinCosts::to_ex_budget) + DefaultFunction::call, on well-typed arguments,
    on ill-typed constants and on non-constants, under semantics A-E (C04 arms),
  * costing functions and step accounting inside the realistic envelope (C05).
A feasible path that ends in a MIR `assert` failure, `unwrap`/`expect` on the failing variant, `panic!` or
`unreachable!` is a violation.  Hangs: see DESIGN.md (loops are over enumerated lengths; the machine loop
terminates under a finite budget because every step charges a positive cost - C05).
"""
from __future__ import annotations

import time

from vlib.common import Obligation, Result, KnownFindings, log

PANIC_WORDS = ("panic", "overflow", "unwrap", "unreachable", "index out of bounds")


def is_panic(ob: Obligation) -> bool:
    k = (ob.finding_key or "") + " " + (ob.detail or "")
    return ob.status in ("violated", "known") and any(w in k for w in PANIC_WORDS)


def run(tier: str, seed: int, only=None) -> Result:
    res = Result("C10", tier, seed, "model_checking")
    res.assumptions = [
        "mirsym trusted base (see C03/C04/C05)",
        "compiler half: the optimiser's constant folder (is_error_safe gate vs the evaluation it guards, family `fold`, first-order constant kinds); "
        "panics elsewhere in gen_uplc are outside the solver claim (C02 reports the ones its corpus reaches)",
        "hangs: not decided by the solver; termination argument in DESIGN.md",
    ]
    res.extra["explanation"] = "re-runs the symbolic-execution obligations of C03, C04, C05 and reports every feasible panic / arithmetic-overflow path"
    res.extra["trusted_base"] = ["rustc nightly MIR dump", "mirsym/exec.py", "mirsym/summaries.py", "z3 5.1"]
    kf = KnownFindings()
    from props import c03, c04, c05
    parts = [("cek", c03), ("builtin", c04), ("budget", c05)]
    for tag, mod in parts:
        if only and only not in tag:
            continue
        t = time.time()
        sub = mod.run(tier, seed)
        log(f"[C10] {tag}: {time.time() - t:.1f}s")
        res.functions.update(sub.functions)
        res.bounds.update({f"{tag}: {k}": v for k, v in sub.bounds.items()})
        for ob in sub.obligations:
            nb = Obligation(f"nopanic/{ob.name}", "discharged", "no feasible panic path", ob.queries, ob.solver_s)
            if ob.status == "undecided":
                nb.status, nb.detail = "undecided", ob.detail
            elif is_panic(ob):
                nb.status, nb.detail, nb.model = "violated", ob.detail, ob.model
                nb.finding_key = ob.finding_key or ob.name
            elif ob.status in ("violated", "known"):
                # a functional deviation (wrong result etc.) is the business of the other property; no panic was found
                # on the paths explored before it
                if "/" in ob.name and ob.name.count("/") >= 2:
                    continue
                nb.detail = "no panic path (a functional deviation is reported under the owning property)"
            res.add(nb)
        res.samples += sub.samples[:2]
    if not only or only == "fold":
        from mirsym.world import World
        from props import c10_fold
        t = time.time()
        c10_fold.fold_family(World(("uplc",), deps=("pallas-codec",)), res, tier)
        log(f"[C10] fold: {time.time() - t:.1f}s")
    from props import common_post, c10_fold as CF
    common_post.postprocess(res, kf, replay_fn=lambda ob: CF.replay(ob) if ob.name.startswith("fold/") else (None, "not replayable through a public entry point; model re-evaluated in the encoder only"))
    return res
