"""C12 Blueprint schemas describe exactly what validators accept — engine U against a z3 reading of the published schema.

For each type T of a fixed family (enums, records, multi-constructor and nested ADTs, Option, lists, tuples, pairs/maps,
Bool, Int, ByteArray, Data, a recursive tree) the REAL blueprint code publishes a schema
(driver drv-project: Annotated::<Schema>::from_type + the finalisation passes of create_validator_blueprint) and the
REAL compiler produces the acceptor  `fn(d: Data) -> Bool { expect _v: T = d  True }`  (driver drv-lang).

  accepts   the acceptor is run by the symbolic CEK machine on a symbolic Data value d (bounded depth/width); z3 decides
            ∃d. accepts(d) ≠ conforms(schema_T, d), where `conforms` is a direct z3 reading of the schema JSON (CIP-57:
            dataType integer/bytes/list/map/constructor, anyOf, items, keys/values, fields, index, $ref; {} = any data);
            a model is replayed on the native evaluator and re-checked concretely against the JSON.
  inhabits  every value of T, as Data, conforms to the schema: ∃d. is_value_of(T, d) ∧ ¬conforms(schema_T, d) must be
            unsat (is_value_of from the checker's own type description, props/ucommon.conforms).
So what the schema admits, what `expect` admits and what the type contains coincide inside the bound."""
from __future__ import annotations

import json
import time

import z3

from props import ucommon as U
from uplcsym import values as V
from vlib import driver as D
from vlib.common import Obligation, Result, KnownFindings, log

Data, DataList, PairList = V.Data, V.DataList, V.PairList

TYPES_SRC = """
pub type Colour { Red Green Blue }
pub type Shape { Circle(Int) Rect { w: Int, h: Int } Tri(Int, Int, Int) }
pub type Acc { owner: ByteArray, bal: Int, flag: Bool }
pub type Wrap { W(Option<Int>) V(Shape, Colour) Z }
pub type Tree { Leaf Node(Tree, Int, Tree) }
pub type Big { B0 B1(Int) B2 B3(ByteArray, Int) B4 B5 B6 B7(Int) B8 }
pub type Nest { inner: Acc, shapes: List<Shape>, pick: Option<Colour> }
pub type Tagged {
  @tag(5)
  Close
  Update(Int)
  @tag(200)
  Far(ByteArray)
}
pub type Bx<a> { Bx(a) Hollow }
pub type Duo<a, b> { left: a, right: b }
pub type Through<a> { inner: Bx<a>, note: ByteArray }
pub type Through2<a, b> { swapped: Duo<b, a>, items: List<Bx<a>> }
@tag(9)
pub type Finally { yes: Int }
@list
pub type Dino { food: Int, weight: Int, name: ByteArray }
pub type Wow {
  @tag(2)
  Het { first: Dino, second: (Int, ByteArray) }
  Toro(Int)
}
"""

TYPES = ["Int", "ByteArray", "Bool", "Data", "Colour", "Shape", "Acc", "Wrap", "Tree", "Big", "Nest", "Option<Int>", "Option<Shape>", "List<Int>",
         "List<Colour>", "(Int, ByteArray)", "(Bool, Int, Colour)", "List<(Int, Colour)>", "Option<(Int, Int)>", "Pairs<Int, ByteArray>",
         "Pair<Int, Bool>", "List<List<Int>>", "Option<Option<Int>>", "Pairs<ByteArray, Shape>", "Tagged", "Finally", "Dino", "Wow", "Option<Tagged>",
         # generic instantiations that differ only inside a tuple / pair / nested argument (the compiler caches generated decoders per type)
         "Bx<(Int, Int)>", "Bx<(Int, ByteArray)>", "Bx<Int>", "Bx<ByteArray>", "Bx<List<Int>>", "Bx<List<ByteArray>>", "Bx<Pair<Int, Int>>", "Bx<Pair<Int, ByteArray>>",
         "Duo<Int, ByteArray>", "Duo<ByteArray, Int>", "Duo<Bx<Int>, Bx<Bool>>", "Duo<Bx<Bool>, Bx<Int>>", "Option<(Int, ByteArray)>", "List<(ByteArray, Colour)>",
         # ... and both instantiations inside ONE value, so that one generated program needs both decoders
         "Duo<Bx<(Int, Int)>, Bx<(Int, ByteArray)>>", "Duo<Bx<Pair<Int, Int>>, Bx<Pair<Int, ByteArray>>>", "Duo<Bx<List<Int>>, Bx<List<ByteArray>>>",
         "(Option<(Int, Int)>, Option<(Int, ByteArray)>)", "Duo<Bx<Int>, Bx<ByteArray>>", "(Bx<Bool>, Bx<Int>, Bx<Colour>)",
         # a type parameter passed through to another generic type
         "Through<Int>", "Through<ByteArray>", "Through<(Int, Int)>", "Through2<Int, ByteArray>", "Through2<Colour, Int>"]


def module_source():
    out = ["use aiken/builtin", TYPES_SRC]
    for i, t in enumerate(TYPES):
        out.append(f"pub fn accept_{i}(d: Data) -> Bool {{\n  expect _v: {t} = d\n  True\n}}\n")
        out.append(f"pub fn take_{i}(v: {t}) -> Int {{\n  let _u = v\n  0\n}}\n")
    return "\n".join(out)


# ------------------------------------------------------------------------------------------------ schema reading


def unref(ref: str) -> str:
    assert ref.startswith("#/definitions/")
    return ref[len("#/definitions/"):].replace("~1", "/").replace("~0", "~")


class SchemaError(Exception):
    pass


def dl_exact(l, preds):
    cs, cur = [], l
    for p in preds:
        cs += [DataList.is_dcons(cur), p(DataList.dhead(cur))]
        cur = DataList.dtail(cur)
    cs.append(DataList.is_dnil(cur))
    return z3.And(cs)


def conforms_schema(s, defs, d, fuel, width, hops=0):
    """z3 Bool: Data term d conforms to schema JSON s (CIP-57 as published by aiken).  `fuel` bounds the number of
    structural levels (constructor / list / map) entered - data deeper than the bound is excluded anyway; following a
    $ref costs nothing (a chain of more than 16 references without structure in between is rejected as ill-formed)."""
    if fuel <= 0:
        return z3.BoolVal(False)
    if "$ref" in s:
        key = unref(s["$ref"])
        if key not in defs or defs[key] is None:
            raise SchemaError(f"dangling $ref {s['$ref']}")
        if hops > 16:
            raise SchemaError(f"reference cycle through {s['$ref']}")
        return conforms_schema(defs[key], defs, d, fuel, width, hops + 1)
    if "anyOf" in s:
        return z3.Or([conforms_schema(a, defs, d, fuel, width) for a in s["anyOf"]] + [z3.BoolVal(False)])
    dt = s.get("dataType")
    if dt is None:
        return z3.BoolVal(True)  # {} / {"title": "Data", ..}: any Plutus data
    if dt == "integer":
        return Data.is_I(d)
    if dt == "bytes":
        return Data.is_B(d)
    if dt == "list":
        items = s.get("items")
        if isinstance(items, list):
            return z3.And(Data.is_List(d), dl_exact(Data.litems(d), [(lambda x, it=it: conforms_schema(it, defs, x, fuel - 1, width)) for it in items]))
        return z3.And(Data.is_List(d), U.dl_each(Data.litems(d), lambda x: conforms_schema(items, defs, x, fuel - 1, width), width))
    if dt == "map":
        return z3.And(Data.is_Map(d), U.pl_each(Data.mentries(d), lambda x: conforms_schema(s["keys"], defs, x, fuel - 1, width),
                                                lambda x: conforms_schema(s["values"], defs, x, fuel - 1, width), width))
    if dt == "constructor":
        return z3.And(Data.is_Constr(d), Data.ctag(d) == int(s["index"]),
                      dl_exact(Data.cfields(d), [(lambda x, f=f: conforms_schema(f, defs, x, fuel - 1, width)) for f in s.get("fields", [])]))
    raise SchemaError(f"unknown dataType {dt!r} in a data schema")


def conforms_concrete(s, defs, dj) -> bool:
    """the same reading on a concrete DATA JSON value (used to double-check a solver model without z3)"""
    if "$ref" in s:
        return conforms_concrete(defs[unref(s["$ref"])], defs, dj)
    if "anyOf" in s:
        return any(conforms_concrete(a, defs, dj) for a in s["anyOf"])
    dt = s.get("dataType")
    if dt is None:
        return True
    if dt == "integer":
        return "i" in dj
    if dt == "bytes":
        return "b" in dj
    if dt == "list":
        if "list" not in dj:
            return False
        items = s.get("items")
        if isinstance(items, list):
            return len(items) == len(dj["list"]) and all(conforms_concrete(a, defs, b) for a, b in zip(items, dj["list"]))
        return all(conforms_concrete(items, defs, b) for b in dj["list"])
    if dt == "map":
        return "map" in dj and all(conforms_concrete(s["keys"], defs, k) and conforms_concrete(s["values"], defs, v) for k, v in dj["map"])
    if dt == "constructor":
        if "constr" not in dj:
            return False
        idx, fs = dj["constr"]
        return int(idx) == int(s["index"]) and len(fs) == len(s.get("fields", [])) and all(conforms_concrete(a, defs, b) for a, b in zip(s.get("fields", []), fs))
    raise SchemaError(dt)


# ------------------------------------------------------------------------------------------------ obligations


def _job(job):
    i, tier, depth, width = job
    res = Result("C12", tier, 0, "translation_validation")
    t0 = time.time()
    src = module_source()
    tname = TYPES[i]
    sch = D.get("drv-project").call("schema", timeout=900, src=src, finalize=True)
    comp = U.compile_module(src, "silent", "all", "lib")
    if "Ok" not in sch or "Ok" not in comp:
        res.add(Obligation(f"type/{tname}", "undecided", f"module does not compile: {json.dumps(sch.get('Err') or comp.get('Err'))[:200]}"))
        return res
    defs = sch["Ok"].get("definitions_final") or sch["Ok"]["definitions"]
    fns = {f["name"]: f for f in sch["Ok"]["functions"]}
    cfn = {f["name"]: f for f in comp["Ok"]["functions"]}
    take = fns.get(f"take_{i}")
    acc = cfn.get(f"accept_{i}")
    ctake = cfn.get(f"take_{i}")
    name = f"type/{tname}"
    if not take or take.get("skipped") or not take["params"][0].get("schema"):
        res.add(Obligation(name, "undecided", f"no schema published for {tname}: {json.dumps(take)[:200] if take else 'missing'}"))
        return res
    schema = take["params"][0]["schema"]
    # ---- accepts: compiled expect vs schema -------------------------------------------------------------
    ob = Obligation(name + "/accepts", "discharged", "")
    try:
        d = V.sym_data("d")
        assume = [V.bounded_data(d.v, depth, width)]
        want = conforms_schema(schema, defs, d.v, depth + 3, width)
        paths, stats, _ = U.run_program(acc["post"], [d], assume, max_paths=1500)
        ob.queries, ob.solver_s = stats["queries"], round(stats["solver_s"], 3)
        nacc = nrej = nund = 0
        feasible_acc = False
        for p in paths:
            o = p.outcome
            if o[0] == "undecided":
                nund += 1
                continue
            # a path whose feasibility the machine could not settle (`approx`) is still checked: an infeasible path adds
            # nothing to a universally quantified statement, and a `sat` answer below comes with a model that is replayed
            accepted = o[0] == "value"
            if accepted and not p.approx:
                feasible_acc = True
            s = z3.SimpleSolver()
            s.set("timeout", 90000)
            s.add(*p.pc)
            s.add(z3.Not(want) if accepted else want)
            ob.queries += 1
            r = s.check()
            if r == z3.unknown:
                nund += 1
                continue
            if accepted:
                nacc += 1
            else:
                nrej += 1
            if r == z3.sat:
                dj = V.value_to_json(s.model(), d)["con"]["data"]
                nat = U.native_outcome(U.native_apply(acc["post"]["term"], [dj]))
                res.extra["disagreements_checked"] = res.extra.get("disagreements_checked", 0) + 1
                nat_acc = nat[0] == "value"
                conc = conforms_concrete(schema, defs, dj)
                if nat_acc != conc:
                    ob.status = "violated"
                    ob.detail = (f"data {json.dumps(dj)[:200]} is {'accepted' if nat_acc else 'rejected'} by the compiled `expect _: {tname}` "
                                 f"but {'conforms' if conc else 'does not conform'} to the published schema")
                    ob.model = {"type": tname, "data": dj, "schema": schema, "definitions": {k: v for k, v in defs.items()}, "native": nat[0]}
                    ob.finding_key = f"accepts {tname}: " + ("schema stricter than expect" if nat_acc else "expect stricter than schema")
                    break
                res.mismatches.append(f"{name}: solver model not reproduced natively")
                nund += 1
        if ob.status == "discharged":
            ob.detail = f"{len(paths)} paths ({nacc} accepting, {nrej} rejecting, {nund} undecided): accepted <=> conforms to the schema"
            if not feasible_acc:
                for p in paths:
                    if p.outcome[0] == "value":
                        s = z3.SimpleSolver()
                        s.set("timeout", 120000)
                        s.add(*p.pc)
                        if s.check() == z3.sat:
                            feasible_acc = True
                            break
            if nacc == 0 or nund == len(paths) or not feasible_acc:
                ob.status = "undecided"
                ob.detail += " (no feasible accepting path decided)"
            ob.witness = feasible_acc and nrej > 0
    except (SchemaError, U.NotRepresentable) as e:
        ob.status, ob.detail = "undecided", str(e)
    res.add(ob)
    # ---- inhabits: every value of the type conforms --------------------------------------------------------
    ob2 = Obligation(name + "/inhabits", "discharged", "")
    try:
        d = V.sym_data("v")
        ty = ctake["params"][0]["type"]
        isval = U.conforms(ty, d.v, depth, width, list_records=True)
        want = conforms_schema(schema, defs, d.v, depth + 3, width)
        s = z3.SimpleSolver()
        s.set("timeout", 30000)
        s.add(isval, z3.Not(want))
        t1 = time.time()
        r = s.check()
        ob2.queries, ob2.solver_s = 1, round(time.time() - t1, 3)
        if r == z3.unknown:
            ob2.status, ob2.detail = "undecided", "solver timeout"
        elif r == z3.sat:
            dj = V.value_to_json(s.model(), d)["con"]["data"]
            if not conforms_concrete(schema, defs, dj):
                ob2.status = "violated"
                ob2.detail = f"value {json.dumps(dj)[:200]} of type {tname} does not conform to the published schema"
                ob2.model = {"type": tname, "data": dj, "schema": schema}
                ob2.finding_key = f"inhabits {tname}"
            else:
                ob2.status, ob2.detail = "undecided", "solver model not confirmed by the concrete schema reading"
        else:
            s2 = z3.SimpleSolver()
            s2.add(isval)
            ob2.witness = s2.check() == z3.sat
            ob2.detail = "every value of the type (within the bound) conforms to the schema"
            if not ob2.witness:
                ob2.status, ob2.detail = "undecided", "vacuous: no value of the type within the bound"
    except (SchemaError, U.NotRepresentable, KeyError) as e:
        ob2.status, ob2.detail = "undecided", str(e)
    res.add(ob2)
    if len(res.samples) < 1:
        res.samples.append({"type": tname, "schema": schema, "accepts": ob.detail[:120]})
    res.extra["programs"] = 1
    log(f"[C12] {tname}: {time.time() - t0:.1f}s")
    return res


def run(tier: str, seed: int, only=None) -> Result:
    res = Result("C12", tier, seed, "translation_validation")
    depth, width = (3, 3) if tier == "quick" else (4, 3)
    res.assumptions = [
        "uplcsym trusted base (validated against the native evaluator)",
        "z3 reading of the published JSON schema (props/c12.py conforms_schema), written from CIP-57: the schema itself comes from the real "
        "Annotated::<Schema>::from_type + prune_orphan_pairs/replace_pairs_with_data_lists (driver drv-project)",
        f"data values: nesting <= {depth}, list/map/field counts <= {width}; integers and byte strings unbounded",
        "types are a fixed family (24 types incl. a recursive one); the type quantifier is enumerated, the data quantifier is decided by z3",
        "schema titles/descriptions are ignored; validator wiring (which parameter gets which schema) is outside this check",
    ]
    res.bounds = {"types": len(TYPES), "data depth": depth, "width": width}
    res.extra["explanation"] = "compiled `expect _: T = d` on symbolic Data vs the published schema of T (z3), and values of T vs the schema"
    res.extra["trusted_base"] = ["uplcsym (symbolic CEK)", "drivers drv-lang / drv-project (real compiler and blueprint code)", "z3 5.1"]
    idx = [i for i in range(len(TYPES)) if not only or only == TYPES[i] or only == str(i)]
    U.merge(res, U.pmap(_job, [(i, tier, depth, width) for i in idx]))
    res.extra.setdefault("programs", 0)
    res.extra.setdefault("disagreements_checked", 0)
    kf = KnownFindings()
    from props import common_post
    common_post.postprocess(res, kf, replay_fn=lambda ob: (True, "replayed natively (compiled acceptor) and against the schema JSON concretely"))
    return res
